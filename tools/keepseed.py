#!/usr/bin/env python3
"""keepseed.py <ID> <n> <outdir> <patchfile> <demodir> <notesfile> <detected:yes|no|partial> <check-summary> <confirm-summary>
Stores a confirmed seeded defect under /verif/seeded/<ID>-<n>/ (patch.diff, demo/, notes.md, meta.json)."""
import json, os, shutil, sys, re
id_, n, out, patch, demo, notes, detected, checksum, confirm = sys.argv[1:10]
d = f"/verif/seeded/{id_}-{n}"
os.makedirs(d, exist_ok=True)
shutil.copy(os.path.join(out, patch), f"{d}/patch.diff")
if os.path.isdir(f"{d}/demo"):
    shutil.rmtree(f"{d}/demo")
shutil.copytree(os.path.join(out, demo), f"{d}/demo")
shutil.copy(os.path.join(out, notes), f"{d}/notes.md")
txt = open(f"{d}/notes.md").read()
meta = {
    "property": id_,
    "origin": "independent sub-agent given only the property text and a scratch worktree",
    "files_changed": sorted(set(re.findall(r"^\+\+\+ b/(.*)$", open(f"{d}/patch.diff").read(), re.M))),
    "needs_to_manifest": "see notes.md (written by the seeding agent)",
    "confirmed_by_coordinator": confirm,
    "check_command": f"tools/seedtest.sh {id_} seeded/{id_}-{n}/patch.diff quick",
    "check_result": checksum,
    "detected": detected,
}
json.dump(meta, open(f"{d}/meta.json", "w"), indent=1)
print("kept", d)
