#!/usr/bin/env bash
# tools/run_tier_all.sh quick|thorough [IDs...] — runs the checks sequentially, one summary line each, logs in /tmp/tier-<tier>-<ID>.log
tier="${1:-quick}"; shift
ids="${*:-C01 C02 C03 C04 C05 C06 C07 C08 C09 C10 C11 C12 C13 C14 C15 C16 C17 C18 C19 C20}"
cd /verif
for id in $ids; do
  s=$(date +%s); ./check $id --tier $tier > /tmp/tier-$tier-$id.log 2>&1; e=$?
  echo "$id exit=$e t=$(( $(date +%s)-s ))s $(tail -1 /tmp/tier-$tier-$id.log | cut -c1-200)"
  cp evidence/$id.json /tmp/tier-$tier-$id.evidence.json 2>/dev/null
done
