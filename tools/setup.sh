#!/usr/bin/env bash
# Builds every engine against /repo's current working tree (hooks on). Registered as MANIFEST setup_cmd.
set -u
. /verif/tools/cargo_env.sh
cd /verif/engines && exec cargo build --release --offline --workspace
