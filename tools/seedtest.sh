#!/usr/bin/env bash
# tools/seedtest.sh <ID> <patch.diff> [tier]  — run ./check <ID> against /repo's HEAD + patch WITHOUT touching /repo:
# a scratch worktree is bind-mounted over /repo in a private mount namespace, with its own cargo target
# dir (seeded from /verif/target so only the changed crates rebuild) and private evidence/replays dirs.
# SEEDTEST_ARGS="--replay <file>" replaces "--tier <tier>"; SEEDTEST_CMD="<shell command>" replaces the whole ./check call. Prints the check's output; exit status is the check's. Everything it creates is removed afterwards.
set -u
id="$1"; patch="$(readlink -f "$2")"; tier="${3:-quick}"
wt="/tmp/mut-$id-$$"
git -C /repo worktree add --detach "$wt" HEAD >/dev/null 2>&1 || { echo "cannot create worktree" >&2; exit 2; }
cleanup() { git -C /repo worktree remove --force "$wt" >/dev/null 2>&1; rm -rf "$wt" "$wt-target" "$wt-ev" "$wt-rp"; }
trap cleanup EXIT
if ! git -C "$wt" apply "$patch"; then echo "PATCH DOES NOT APPLY" >&2; exit 2; fi
mkdir -p "$wt-ev" "$wt-rp"
cp -a /verif/target "$wt-target" 2>/dev/null || mkdir -p "$wt-target"
unshare -m sh -c "mount --bind '$wt' /repo && mount --bind '$wt-ev' /verif/evidence && mount --bind '$wt-rp' /verif/replays && cd /verif && export CARGO_TARGET_DIR='$wt-target' && ${SEEDTEST_CMD:-./check $id ${SEEDTEST_ARGS:---tier $tier}}"
rc=$?
echo "seedtest: check exit=$rc; replays: $(ls "$wt-rp" | wc -l)"
ls "$wt-rp" | head -3 | while read f; do python3 -c "import json,sys; d=json.load(open('$wt-rp/$f')); print('  ', d['key'][:150], '::', (d['message'] or '')[:300])"; done
exit $rc
