# Sourced by ./check and tools/setup.sh before running cargo.
#
# /repo/zcash_client_backend/build.rs regenerates src/proto/*.rs whenever a `protoc` binary is on PATH
# (it has no rerun-if-changed line). The rewritten files are byte-identical, but their new mtime makes
# cargo consider zcash_client_backend - and everything above it - dirty on EVERY build (40 s per
# ./check). The engines do not need the regeneration, so cargo runs with a PATH in which /usr/bin and
# /bin are replaced by a directory of symlinks to everything in /usr/bin except protoc. Nothing in
# /repo is touched.
export CARGO_NET_OFFLINE=true
TD="${CARGO_TARGET_DIR:-/verif/target}"
farm="$TD/path-without-protoc"
if [ ! -e "$farm/.complete" ]; then
  rm -rf "$farm"; mkdir -p "$farm"
  for f in /usr/bin/*; do
    b="${f##*/}"
    [ "$b" = protoc ] || ln -s "$f" "$farm/$b" 2>/dev/null
  done
  : > "$farm/.complete"
fi
newpath=""
IFS=':' read -r -a _parts <<< "$PATH"
for p in "${_parts[@]}"; do
  case "$p" in
    /usr/bin|/bin) p="$farm" ;;
  esac
  if [ -x "$p/protoc" ] && [ "$p" != "$farm" ]; then continue; fi
  case ":$newpath:" in *":$p:"*) ;; *) newpath="${newpath:+$newpath:}$p" ;; esac
done
export PATH="$newpath"
unset PROTOC
