#!/usr/bin/env python3
"""Generates /verif/MANIFEST.json from the table below (single source of truth) and validates it."""
import json, os, subprocess, sys

ROOT = "/verif"
ENG = {"codec_mc": ["C03", "C04", "C09", "C10", "C12", "C19", "C20"], "econ_mc": ["C07", "C16", "C17"],
       "tx_mc": ["C11", "C13", "C14"], "wallet_mc": ["C01", "C02", "C05", "C06", "C08", "C15"], "migration_mc": ["C18"]}
ENGINE_OF = {p: e for e, ps in ENG.items() for p in ps}

# id -> (category, technique, level text, level note, design ref)
CHECKS = {
 "C01": ("model_checking", "explicit-state BFS over the real SQLite wallet (snapshot/restore), state matching on a canonical logical dump, reference ledger oracle",
         "Every reachable state of the real wallet under Scan(any contiguous run of segments)/Tip/Rewind+switch-branch operations over a generated block universe is visited (bounded by depth, one or two rewinds and the stated caps) and in each the balances, note rows and spent status are compared with a generation-time ledger; fully scanned states are compared with a fresh linear scan.",
         "Trusted: SQLite, the protocol crates used to build really-encrypted compact outputs; expiry of orphaned transactions follows the documented 40-block rule; quick tier explores the 'tiny' universe under a wall cap (reported), thorough the 'small' and 'mid' universes.",
         "DESIGN.md section 4 C01"),
 "C02": ("fault_enumeration", "exhaustive fault injection through SQLite hooks (progress_handler / authorizer / commit_hook) at every VM step, statement compilation and commit boundary of each write operation; exhaustive two-connection interleavings (complete writer at every VM step / statement boundary of snapshot reads, reader snapshot at every p-th writer step) in rollback-journal and WAL mode",
         "For each (write operation, pre-state) every SQLite VM step is interrupted, every statement compilation is made to fail and every commit is vetoed once; after each fault the full database dump must equal the pre-state (or the complete post-state), and repeating the operation must reach the uninterrupted post-state. On a file-backed database a second connection observes the writer inside one read transaction, and the complete writer runs at every interruption point of get_wallet_summary and the migration oracles: every observation / answer must be the pre-state's or the post-state's.",
         "Trusted: SQLite atomic commit and rollback; interrupts inside BEGIN/COMMIT/ROLLBACK statements are not injected (SQLite artefact, see DESIGN.md); quick tier: commit-boundary faults for every operation, VM-step and statement faults for a listed subset, under a wall cap (reported).",
         "DESIGN.md section 4 C02"),
 "C03": ("exploration", "exhaustive shape-lattice and distance-1 byte/field mutation enumeration on the real codec, independent reference writer/parser",
         "Every transaction of a (version, branch) x bundle-count x scalar-boundary lattice and every block header of a boundary lattice is written, read back and compared field-wise with an independent codec; every truncation, single-byte rewrite and count/amount/flag/branch field mutation of the lattice encodings and public vectors is parsed: no panic, no over-read, canonicity, accepted => round trip.",
         "Trusted: group/field element decoding of the external crates (valid elements come from a fixed pool); values outside the lattices are covered through shared comparisons only.",
         "DESIGN.md section 4 C03"),
 "C04": ("exploration", "exhaustive field-position x hash-type enumeration against an independent ZIP 244/243/143 and v6 digest implementation plus a commitment matrix",
         "Over the C03 lattice every field position is mutated and txid, auth commitment and every signature hash are compared with an independent implementation and with a must-change / must-not-change matrix written from the ZIPs.",
         "Trusted: BLAKE2b/SHA-256; hashes treated as injective (one replacement value per field position).",
         "DESIGN.md section 4 C04"),
 "C05": ("model_checking", "exhaustive block-shape and corruption lattices through scan_block, plus exhaustive run-to-completion schedules of the batch decryption tasks under a harness executor (cfg seam)",
         "Every block of a shape lattice is scanned and compared with generation-time ground truth; every single corruption of continuity metadata or field length must be an error with the wallet unchanged; every order (within the deviation bound) in which the batch trial-decryption tasks of scan_cached_blocks can run is executed on the real code and must give the ground-truth wallet state, identical to the inline path.",
         "Schedules are exhaustive at task granularity (tasks share no memory; flume internals are not interleaved).",
         "DESIGN.md section 4 C05"),
 "C06": ("model_checking", "explicit-state BFS over the real SQLite wallet with tree oracles evaluated in every state",
         "In every state of the C01-style state graph (plus subtree-root insertion and the caching Merkle-path computation of a spend; universe with an idle-pool stretch and a fork inside a shard) every retained checkpoint of every pool is compared with the chain frontier root recorded at generation time, every wallet note's Merkle path is recomputed from the leaf, every scan must checkpoint all pools at the same heights (compared from the pruning floor up; as a statement about a state it is decided only where nothing was truncated) and every scanned anchor-retention boundary must hold a checkpoint in every pool (also after more than 100 later checkpoints).",
         "Trusted: incrementalmerkletree frontier arithmetic and the pools' Merkle hashes; computability is demanded only when all blocks from the birthday are scanned; in the quick tier roots / paths are evaluated at a stated subset of checkpoints when a state retains more than twelve.",
         "DESIGN.md section 4 C06"),
 "C07": ("exploration", "exhaustive lattice enumeration of inputs/outputs/policies/heights on the real fee rule and change strategies, independent i128 ZIP 317 oracle",
         "Every case of a lattice of input/output multisets per pool x dust/split policies x heights x anchors x ephemeral balances is run through fee_required and both change strategies and checked for conservation, ZIP 317 fee of the final padded shape, dust clause, NU6.3 Orchard turnstile and truthful InsufficientFunds.",
         "Values outside the alphabet are covered through shared comparisons; padding rule re-implemented from the documentation.",
         "DESIGN.md section 4 C07"),
 "C08": ("model_checking", "explicit-state BFS over the real SQLite wallet (locks, pending transactions, advances, mining, rewinds) with a request lattice evaluated in every state against a ground-truth spendability model",
         "From three start states the real wallet is explored under Lock/Unlock/ClearLocks/StorePending/Advance/Mine/Rewind/FillGap and lock-taking proposals; in every state every request of a lattice (amounts x recipients x confirmation policies x locked-input policies x change strategies x four proposal entry points) is proposed and each proposal is checked for ownership, unspentness, pending spends, confirmations, locks, single use, a Merkle path at the anchor that yields the true chain root, exact per-step balance; requests above the reference upper bound must fail.",
         "Pending transactions spend Sapling notes only (mock provers); depth <=3 quick / <=4 thorough with a lattice that shrinks with depth; wall caps reported.",
         "DESIGN.md section 4 C08"),
 "C09": ("exploration", "bounded exhaustive enumeration of operator x operand-lattice tuples on the real code, exact i128 oracle",
         "Every constructor, parser, operator and 8-byte decoder of Zatoshis/ZatBalance is executed on every tuple of a boundary lattice that has a point on each side of every comparison and 64-bit wrap in value.rs, and on every single-byte rewrite of every lattice encoding; each result is compared with exact i128 arithmetic.",
         "Trusted: rustc integer semantics; engines are built with overflow checks on so a wrap is a caught panic.",
         "DESIGN.md section 4 C09"),
 "C10": ("exploration", "exhaustive typecode-sequence / length / padding enumeration with an independent ZIP 316 encoder and F4Jumble, every length of the jumble domain, every distance-1 string mutation of seed addresses",
         "All typecode sequences up to length 4 x item lengths x containers x networks x paddings are encoded independently and decoded by the real code against a ZIP 316 predicate; F4Jumble is checked on every length; every single-character mutation, truncation, checksum-variant and prefix swap of seed strings must not panic and, if accepted, re-encode canonically.",
         "Trusted: bech32/bs58 checksum primitives (cross-checked at start-up); payloads are fillers because containers validate lengths only.",
         "DESIGN.md section 4 C10"),
 "C11": ("exploration", "exhaustive product over seeds x accounts x networks x diversifier-index lattice x all receiver requests x key levels, commutation and decryption laws",
         "Encode/decode/re-encode equality at every key level, the commutation square of viewing-key derivation and address derivation over the full index/request lattice, index/scope recovery, and trial decryption of Sapling/Orchard/Ironwood notes under the right and every wrong key of the lattice.",
         "Seeds are a finite set of shapes; external protocol crates trusted.",
         "DESIGN.md section 4 C11"),
 "C12": ("exploration", "exhaustive URI token-sequence enumeration against an independent ZIP 321 validity predicate; exhaustive amount sweeps",
         "All parameter-token sequences up to length 3 (quick) / 4-5 (thorough) over a 35-token alphabet are rendered and parsed against an independent predicate and expected request; amounts are swept exhaustively in both directions (structure-complete subset in quick, all 10^8 fractions / 21M coins in thorough); labels, messages and memos over boundary lattices.",
         "Accept/reject agreement demanded only where ZIP 321 is unambiguous (assumptions recorded in the evidence).",
         "DESIGN.md section 4 C12"),
 "C13": ("model_checking", "explicit-state search over all role orders on real PCZTs; exhaustive field-atom subset lattice for combine laws",
         "All orders of the role multiset are explored as a state graph on builder-made PCZTs with the effects identity computed four ways in every state; combine is checked on all singleton/pair subsets of mechanically derived field atoms (union, commutativity, idempotence, associativity, conflicts); every copy round-trips through the encoding with the version predicate.",
         "Real proofs only in the thorough tier; orchard/sapling/secp256k1 trusted.",
         "DESIGN.md section 4 C13"),
 "C14": ("exploration", "exhaustive builder shape lattice x heights x padding x fee rules x funding deltas, independent fee/decryption/signature oracle",
         "Every builder request of the lattice (incl. BundlePadding bundle_required x pad_to_minimum per pool and P2PKH / P2SH-multisig transparent inputs) is run through mock_build/build_for_pczt/DeferredPcztBuilder (+ real proofs for a few shapes) and the result is checked for requested spends/outputs plus zero-valued padding, bundles the padding requires, exact fee of the final shape, recipient decryption, script-level secp256k1 verification of every transparent signature under an independently computed signature hash, and correct refusals.",
         "Padding model from the documentation; external protocol crates trusted.",
         "DESIGN.md section 4 C14"),
 "C15": ("model_checking", "explicit-state search of all insertion sequences on the real SpanningTree (two engines, counts must agree) and BFS over the real SQLite wallet with light-client steps",
         "(a) every insertion sequence up to length 3 (quick) / 4 (thorough) over all ranges, priorities and the force flag, state = full tree shape, oracle = pointwise dominance table; (b) wallet state graph with client steps on suggested ranges, subtree-root insertion, tips and rewinds: queue structure, Scanned iff scanned, after every operation the queue equals height by height the documented insertions of that operation applied through the dominance table to the queue before it, strict progress of every client step, nothing suggested => fully scanned.",
         "Free scans of non-suggested ranges are outside the property's quantifier; which heights scan_complete raises to FoundNote is not modelled (accepted where the dominance rule yields FoundNote).",
         "DESIGN.md section 4 C15"),
 "C16": ("exploration", "exhaustive boundary-balance x cap x buffer x fee x oracle-alphabet enumeration against an independent canonical split",
         "Every balance within +-2 of every boundary expression of up to 3 quanta x note counts x caps x buffers x fees x nine preparation-cost oracles (incl. refusing, over-charging, stateful, usize::MAX) is planned twice with different RNGs and checked for canonicity, prefix of the reference split, exact conservation, residual bound and RNG independence.",
         "Balances away from boundaries are covered through shared comparisons only.",
         "DESIGN.md section 4 C16"),
 "C17": ("exploration", "RNG treated as environment: exhaustive word sequences over threshold-derived alphabets; brute-force minimum piercing; full evidence lattice",
         "All scripted RNG word sequences up to length 4 over alphabets derived from the code's thresholds drive delays, schedules, shuffles and anchor draws, checked against reference definitions; all wake-up instances up to 3-4 transfers are compared with a brute-force minimum; classification is checked on every covering edge of the full evidence lattice.",
         "Streams under which rejection sampling does not terminate are excluded by the property; documented confirmatory-clause edges follow the documentation.",
         "DESIGN.md section 4 C17"),
 "C18": ("model_checking", "explicit-state search of the real MigrationState + advance_migration under all event interleavings with a scripted store, differential against the in-memory backend, SQLite save/load at explored states",
         "The real lifecycle code is explored as a state graph over event interleavings (proofs, broadcasts ok/failed/unrecorded, mining, tip advances, rollbacks, shifts, cancel, supersede, store-oracle answers) for five 3-transaction DAG shapes; safety invariants on every state and transition, bounded liveness probe, and persistence round trips through the real SQLite store.",
         "Only events a contract-following consumer can produce are in the alphabet; depth and state caps reported.",
         "DESIGN.md section 4 C18"),
 "C19": ("exploration", "complete Wagner solver + exhaustive mutation neighbourhoods against an independent bit-level verifier; full (n,k) parameter grid",
         "All solutions of a complete solver for small parameters must verify; every single-bit flip, index permutation/substitution/duplication, length and near-miss must be accepted iff the independent verifier accepts; every (n,k) with n<=520 x boundary lengths must be an error, never a panic; the mainnet header path.",
         "Trusted: BLAKE2b; parameter sets larger than those solved are covered through the grid and the header vector only.",
         "DESIGN.md section 4 C19"),
 "C20": ("model_checking", "explicit-state graph over leaf counts x {append, truncate} on the real Tree (full and minimal partial views), two engines, independent MMR rebuild",
         "For every leaf count up to 64 (quick) / 1032 (thorough), three versions and seven leaf profiles, append and truncate are executed on full and minimal partial views and compared with an independent from-scratch MMR; all short op sequences from every base; node encodings over a byte lattice.",
         "Overflowing counter sums are outside the domain; BLAKE2b trusted.",
         "DESIGN.md section 4 C20"),
}

NOT_APPLICABLE = {}

NOT_BUILT_REASON = "check not built yet in this round (planned in DESIGN.md); nothing is claimed for it"

def main():
    props = [json.loads(l)["id"] for l in open(f"{ROOT}/properties.jsonl")]
    hooks_commits = [l.strip() for l in open(f"{ROOT}/tools/hook_commits.txt")] if os.path.exists(f"{ROOT}/tools/hook_commits.txt") else []
    m = {
        "version": 1,
        "setup_cmd": "/verif/tools/setup.sh",
        "hooks": {
            "guard": "--cfg zcash_librustzcash_verif (rustc cfg, set in /verif/engines/.cargo/config.toml)",
            "enable": "engines build /repo crates by path with RUSTFLAGS=--cfg zcash_librustzcash_verif into /verif/target",
            "baseline_off_cmd": "cd /repo && cargo nextest run --workspace --no-fail-fast --test-threads 8 --offline || cargo test --workspace --no-fail-fast --offline",
            "source_commits": hooks_commits,
            "add_only": True,
        },
        "engines": [{"name": e, "path": f"engines/{e}", "serves_properties": [p for p in ps if p in CHECKS],
                     "kind_free_text": "Rust binary: bounded exhaustive exploration of the real code (explicit-state search / fault enumeration / lattice enumeration) with reference-model oracles"}
                    for e, ps in ENG.items() if any(p in CHECKS for p in ps)],
        "checks": [],
        "not_applicable": [],
        "notes": "All checks: ./check <ID> --tier quick|thorough; exit 0 held (KNOWN-FINDING lines for entries of known_findings.json), 1 VIOLATION, 2 machinery error. Replays: ./check <ID> --replay <file>.",
    }
    for p in props:
        if p in CHECKS:
            cat, tech, text, note, ref = CHECKS[p]
            m["checks"].append({
                "property_id": p,
                "quick_cmd": f"./check {p} --tier quick",
                "thorough_cmd": f"./check {p} --tier thorough",
                "evidence_file": f"/verif/evidence/{p}.json",
                "replay_cmd_template": f"./check {p} --replay {{path}}",
                "engine": ENGINE_OF[p],
                "level_claimed": {"category": cat, "text": text, "design_ref": ref},
                "level_note": note,
                "technique": tech,
            })
        else:
            m["not_applicable"].append({"property_id": p, "reason": NOT_APPLICABLE.get(p, NOT_BUILT_REASON)})
    json.dump(m, open(f"{ROOT}/MANIFEST.json", "w"), indent=1)
    try:
        import jsonschema
        jsonschema.validate(m, json.load(open("/root/.vp/MANIFEST.schema.json")))
        print("MANIFEST.json valid;", len(m["checks"]), "checks,", len(m["not_applicable"]), "not applicable")
    except ImportError:
        print("jsonschema not available; wrote MANIFEST.json unvalidated")

if __name__ == "__main__":
    main()
