#!/usr/bin/env python3
"""Generates /verif/MANIFEST.json from the table below (single source of truth) and validates it."""
import json, os, subprocess, sys

ROOT = "/verif"
ENG = {"codec_mc": ["C03", "C04", "C09", "C10", "C12", "C19", "C20"], "econ_mc": ["C07", "C16", "C17"],
       "tx_mc": ["C11", "C13", "C14"], "wallet_mc": ["C01", "C02", "C05", "C06", "C08", "C15"], "migration_mc": ["C18"]}
ENGINE_OF = {p: e for e, ps in ENG.items() for p in ps}

# id -> (category, technique, level text, level note, design ref)
CHECKS = {
 "C09": ("exploration", "bounded exhaustive enumeration of operator x operand-lattice tuples on the real code, exact i128 oracle",
         "Every constructor, parser, operator and 8-byte decoder of Zatoshis/ZatBalance is executed on every tuple of a boundary lattice that has a point on each side of every comparison and 64-bit wrap in value.rs, and on every single-byte rewrite of every lattice encoding; each result is compared with exact i128 arithmetic. Exhaustive inside the lattice; values outside it are covered only through the comparisons they share with a lattice point.",
         "Trusted: rustc integer semantics; the lattice is derived from the constants in value.rs (0, +-MAX_MONEY, i64/u64 extremes); engines are built with overflow checks on so a wrap is a caught panic.",
         "DESIGN.md section 4 C09"),
}

NOT_BUILT_REASON = "check not built yet in this round (planned in DESIGN.md); nothing is claimed for it"

def main():
    props = [json.loads(l)["id"] for l in open(f"{ROOT}/properties.jsonl")]
    hooks_commits = [l.strip() for l in open(f"{ROOT}/tools/hook_commits.txt")] if os.path.exists(f"{ROOT}/tools/hook_commits.txt") else []
    m = {
        "version": 1,
        "setup_cmd": "cd /verif/engines && CARGO_NET_OFFLINE=true cargo build --release --offline --workspace",
        "hooks": {
            "guard": "--cfg zcash_librustzcash_verif (rustc cfg, set in /verif/engines/.cargo/config.toml)",
            "enable": "engines build /repo crates by path with RUSTFLAGS=--cfg zcash_librustzcash_verif into /verif/target",
            "baseline_off_cmd": "cd /repo && cargo nextest run --workspace --no-fail-fast --test-threads 8 --offline || cargo test --workspace --no-fail-fast --offline",
            "source_commits": hooks_commits,
            "add_only": True,
        },
        "engines": [{"name": e, "path": f"engines/{e}", "serves_properties": [p for p in ps if p in CHECKS],
                     "kind_free_text": "Rust binary: bounded exhaustive exploration of the real code (explicit-state search / fault enumeration / lattice enumeration) with reference-model oracles"}
                    for e, ps in ENG.items() if any(p in CHECKS for p in ps)],
        "checks": [],
        "not_applicable": [],
        "notes": "All checks: ./check <ID> --tier quick|thorough; exit 0 held (KNOWN-FINDING lines for entries of known_findings.json), 1 VIOLATION, 2 machinery error. Replays: ./check <ID> --replay <file>.",
    }
    for p in props:
        if p in CHECKS:
            cat, tech, text, note, ref = CHECKS[p]
            m["checks"].append({
                "property_id": p,
                "quick_cmd": f"./check {p} --tier quick",
                "thorough_cmd": f"./check {p} --tier thorough",
                "evidence_file": f"/verif/evidence/{p}.json",
                "replay_cmd_template": f"./check {p} --replay {{path}}",
                "engine": ENGINE_OF[p],
                "level_claimed": {"category": cat, "text": text, "design_ref": ref},
                "level_note": note,
                "technique": tech,
            })
        else:
            m["not_applicable"].append({"property_id": p, "reason": NOT_BUILT_REASON})
    json.dump(m, open(f"{ROOT}/MANIFEST.json", "w"), indent=1)
    try:
        import jsonschema
        jsonschema.validate(m, json.load(open("/root/.vp/MANIFEST.schema.json")))
        print("MANIFEST.json valid;", len(m["checks"]), "checks,", len(m["not_applicable"]), "not applicable")
    except ImportError:
        print("jsonschema not available; wrote MANIFEST.json unvalidated")

if __name__ == "__main__":
    main()
