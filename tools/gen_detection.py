#!/usr/bin/env python3
"""Regenerates the detection table in DESIGN.md (between the DETECTION-TABLE markers) from seeded/*/meta.json."""
import json, glob, os, re
rows = []
for m in sorted(glob.glob("/verif/seeded/*/meta.json")):
    d = json.load(open(m))
    name = os.path.basename(os.path.dirname(m))
    notes = open(os.path.join(os.path.dirname(m), "notes.md")).read() if os.path.exists(os.path.join(os.path.dirname(m), "notes.md")) else ""
    what = d.get("summary") or ""
    rows.append((name, d["property"], ", ".join(d.get("files_changed", [])), what, d.get("detected", "?"), d.get("check_result", "")))
t = ["| seed | property | file(s) changed | what it breaks / needs | detected | by which check and how |", "|---|---|---|---|---|---|"]
for r in rows:
    t.append("| " + " | ".join(x.replace("|", "/").replace("\n", " ") for x in r) + " |")
p = "/verif/DESIGN.md"
s = open(p).read()
a = s.index("<!-- DETECTION-TABLE-BEGIN -->") + len("<!-- DETECTION-TABLE-BEGIN -->")
b = s.index("<!-- DETECTION-TABLE-END -->")
s = s[:a] + "\n" + "\n".join(t) + "\n" + s[b:]
open(p, "w").write(s)
print(len(rows), "rows")
