#!/usr/bin/env bash
# seedconfirm.sh <ID> <crate> <testsdir-in-crate> <patch> <demofile> [extra cargo args...]
# In /tmp/seed-<ID>: demo on clean tree (must pass), demo with patch (must fail), crate lib tests with patch (must pass).
set -u
id="$1"; crate="$2"; tdir="$3"; patch="$4"; demo="$5"; shift 5
wt=${SEED_WT:-/tmp/seed-$id}; export CARGO_TARGET_DIR=$wt/target
cd $wt || exit 2
[ -z "$(git status --short)" ] || { echo "worktree dirty"; git status --short; }
mkdir -p $tdir; cp "$demo" $tdir/; name=$(basename "$demo" .rs)
echo "--- clean: demo"; cargo test -p $crate --offline --test $name "$@" 2>&1 | grep -E "^test result|error(\[|:)" | head -5
git apply "$patch" || { echo "patch failed"; exit 2; }
echo "--- patched: demo"; cargo test -p $crate --offline --test $name "$@" 2>&1 | grep -E "^test result|error(\[|:)" | head -5
echo "--- patched: crate tests"; cargo test -p $crate --offline "$@" 2>&1 | grep -E "^test result" | grep -v " 0 passed" | head -12
git apply -R "$patch"; rm -f $tdir/$name.rs; rmdir $tdir 2>/dev/null
git status --short | head -3
