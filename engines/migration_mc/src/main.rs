//! migration_mc — explicit-state search of the pool-migration lifecycle
mod c18;

use mc_core::{machinery_error, replay_file, Args};
use serde_json::Value;

fn replay(prop: &str) -> fn(&str, &Value) -> Result<(), String> {
    match prop {
        "C18" => c18::replay,
        _ => machinery_error(&format!("migration_mc does not serve {prop}")),
    }
}

fn main() {
    // see wallet_mc/src/main.rs: drop SQLite's process-wide memory-statistics mutex (before any connection)
    unsafe {
        rusqlite::ffi::sqlite3_config(rusqlite::ffi::SQLITE_CONFIG_MEMSTATUS, 0);
    }
    let args = Args::parse();
    let rp = replay(&args.prop);
    if let Some(p) = &args.replay {
        std::process::exit(replay_file(p, &rp));
    }
    let code = match args.prop.as_str() {
        "C18" => c18::run(&args),
        _ => unreachable!(),
    };
    std::process::exit(code);
}
