//! C18 — a committed migration advances safely and survives persistence.
//!
//! Model = the real code. A state is a real `MigrationState` (built with the public `from_parts`
//! constructors) plus a tiny chain environment; every event is executed on the real
//! implementation: `advance_migration` against a scripted store written against the public
//! `PoolMigrationRead`/`PoolMigrationWrite` traits (with the repository's own `MockBackend` run
//! side by side on the same call), the consumer's documented responses (`store_proved_transaction`,
//! `mark_broadcast`, `report_broadcast_failure`, `mark_superseded`), chain events (`Mine`, tip
//! moves, `Rollback` = `truncate_to_height`), `Cancel`, `Supersede`, `ApplySignature`, and the
//! late landing of an acknowledged broadcast's record. All interleavings are explored breadth
//! first with state matching on the full Debug rendering of the state and the environment.
//!
//! Two passes per (DAG shape, height profile): a DEEP pass from the freshly committed migration
//! (all transactions Signed, and one with an externally signed first transaction), and a BROAD
//! pass from every one of the 5^3 per-transaction initial lifecycle states (including combinations
//! no scenario produces), which brings every phase of the lifecycle within a few events.
//!
//! Explored states are saved to and loaded from the real SQLite store, and a shape lattice of
//! representable states goes through the full persistence protocol (see `c18/persist.rs`).

mod model;
mod persist;
mod sr;
mod store;

use std::cell::RefCell;
use std::collections::{BTreeMap, HashSet};

use mc_core::explore::{bfs, Limits, Subject};
use mc_core::{Args, Run, Tier};
use rayon::prelude::*;
use serde_json::{json, Value};

use model::{Dag, Model, Op, Opts, Persist, St, Viol, DAGS, PROFILES};

struct PassResult {
    dag: Dag,
    profile: u8,
    pass: &'static str,
    depth_max: usize,
    depth: usize,
    budget: u64,
    n_inits: usize,
    states: u64,
    transitions: u64,
    per_depth: Vec<u64>,
    capped: Option<String>,
    cex: Vec<(String, String, Vec<Op>)>,
    counters: model::Counters,
    wall: f64,
}

#[derive(Clone)]
struct Pass {
    name: &'static str,
    inits: Vec<u8>,
    /// Largest depth (in events after the initial state) to attempt.
    depth_max: usize,
    /// State budget: the pass runs to the largest depth <= depth_max whose complete breadth-first
    /// search stays below this many states (a deterministic function of the transition system).
    budget: u64,
    max_wall: f64,
    persist: Persist,
}

const PLAIN: Opts = Opts { differential: false, probe: false, persist: Persist::Off, probe_every_height: false };

fn env_usize(name: &str) -> Option<usize> {
    std::env::var(name).ok().and_then(|s| s.parse().ok())
}

/// The largest depth (in events) <= depth_max whose complete breadth-first search from `inits` has
/// fewer than `budget` states.
fn budget_depth(dag: Dag, profile: u8, inits: &[u8], depth_max: usize, budget: u64) -> usize {
    let counting = Model::new(dag, profile, inits.to_vec(), PLAIN, None);
    let (cs, _) = bfs(&counting, vec![St::Root], &Limits { max_depth: depth_max + 1, max_states: budget, max_wall_s: 1e9 }, 1);
    // `per_depth` has one entry per depth at which a state was taken off the queue (root = 0).
    // Root is depth 0 and the initial states depth 1, so a total depth t is t - 1 events. If the
    // budget stopped the search on the FIRST state taken at depth t, the states of depth <= t
    // already reach the budget and the complete depth within budget is t - 1.
    if cs.capped.is_some() {
        let t = cs.per_depth.len().saturating_sub(1);
        let t = if cs.per_depth.get(t).copied() == Some(1) { t.saturating_sub(1) } else { t };
        t.saturating_sub(1)
    } else {
        depth_max
    }
}

fn explore_pass(dag: Dag, profile: u8, p: &Pass, opts: Opts) -> PassResult {
    let t0 = std::time::Instant::now();
    // Depth selection (iterated bounds): a cheap counting search without oracles finds the largest
    // depth whose complete search fits the state budget. When the counting search stops on the
    // budget while expanding depth k, every state of depth <= k has been discovered and there are
    // fewer than `budget` of them.
    let depth = budget_depth(dag, profile, &p.inits, p.depth_max, p.budget);
    let seen = RefCell::new(HashSet::new());
    let opts = Opts { persist: p.persist, ..opts };
    let m = Model::new(dag, profile, p.inits.clone(), opts, Some(&seen));
    // +1: the first event of every history is the choice of the initial state. The caps below are
    // safety nets only (the counting search has established the size).
    let lim = Limits { max_depth: depth + 1, max_states: p.budget.saturating_mul(2), max_wall_s: p.max_wall };
    let (stats, cex) = bfs(&m, vec![St::Root], &lim, 400);
    let cex = cex
        .into_iter()
        .map(|c| {
            let (k, msg) = Viol::decode(&c.msg);
            (k, msg, c.history)
        })
        .collect();
    PassResult {
        dag,
        profile,
        pass: p.name,
        depth_max: p.depth_max,
        depth,
        budget: p.budget,
        n_inits: p.inits.len(),
        states: stats.states,
        transitions: stats.transitions,
        per_depth: stats.per_depth,
        capped: stats.capped,
        cex,
        counters: m.counters.into_inner(),
        wall: t0.elapsed().as_secs_f64(),
    }
}

fn history_case(dag: Dag, profile: u8, every_height: bool, history: &[Op]) -> Value {
    json!({"dag": dag, "profile": profile, "profile_name": PROFILES[profile as usize].name, "probe_every_height": every_height, "history": history})
}

/// Re-run one operation history from the root with every check on.
fn replay_history(case: &Value) -> Result<(), String> {
    let dag: Dag = serde_json::from_value(case["dag"].clone()).map_err(|e| format!("bad case: {e}"))?;
    let profile = case["profile"].as_u64().ok_or("bad case: profile")? as u8;
    let history: Vec<Op> = serde_json::from_value(case["history"].clone()).map_err(|e| format!("bad case: {e}"))?;
    let opts = Opts { differential: true, probe: true, persist: Persist::FullTo(u8::MAX), probe_every_height: case["probe_every_height"].as_bool().unwrap_or(true) };
    let m = Model::new(dag, profile, vec![], opts, None);
    let mut s = St::Root;
    for (n, op) in history.iter().enumerate() {
        let next = m.step(&s, op).map_err(|e| {
            let (k, msg) = Viol::decode(&e);
            format!("[{k}] at event {} {:?}: {msg}", n + 1, op)
        })?;
        let Some(next) = next else { return Err("machinery: event produced no state".into()) };
        m.check(&next).map_err(|e| {
            let (k, msg) = Viol::decode(&e);
            format!("[{k}] in the state after event {} {:?}: {msg}", n + 1, op)
        })?;
        s = next;
    }
    Ok(())
}

pub fn replay(kind: &str, case: &Value) -> Result<(), String> {
    persist::configure_sqlite();
    match kind {
        "history" => replay_history(case),
        "lattice" => {
            let p: persist::Point = serde_json::from_value(case.clone()).map_err(|e| format!("bad case: {e}"))?;
            persist::check_point(&p).map(|_| ()).map_err(|v| format!("[{}] {}", v.key, v.msg))
        }
        "rollback-lattice" => {
            let p: persist::RbPoint = serde_json::from_value(case.clone()).map_err(|e| format!("bad case: {e}"))?;
            persist::check_rollback_point(&p).map(|_| ()).map_err(|v| format!("[{}] {}", v.key, v.msg))
        }
        "guard" => persist::check_commit_guard(case["status"].as_u64().unwrap_or(0) as u8).map(|_| ()).map_err(|v| format!("[{}] {}", v.key, v.msg)),
        "conformance" => persist::conformance_values(case["n"].as_u64().unwrap_or(0) as usize).map(|_| ()).map_err(|v| format!("[{}] {}", v.key, v.msg)),
        _ => Err(format!("unknown replay kind {kind}")),
    }
}

/// Deep-pass initial states: every transaction Signed (k = 1 + 5 + 25), and the same with the
/// first transaction still awaiting its external signature.
const DEEP_INITS: [u8; 2] = [31, 30];

pub fn run(args: &Args) -> i32 {
    persist::configure_sqlite();
    let run = Run::new(args, "model_checking");
    let quick = args.tier == Tier::Quick;
    run.set_rule(
        "states are distinct by the full Debug rendering of the real MigrationState plus the chain environment (tip, on-chain heights, mempool, \
         unrecorded broadcasts, events since terminal); a transition is one event executed on the real implementation; lattice cases are \
         distinct by (status, tx state, mark, failure report, lock, kind, plan shape)",
    );
    run.assume("oracle reading: 'terminal statuses are never left' follows the documentation of MigrationStatus::Complete / truncate_to_height: Complete is chain-derived and reverts to InProgress when a rollback un-mines one of its transactions; every other exit from a terminal status is a violation");
    run.assume("a consumer may record an acknowledged broadcast late (after other events, including the scan having seen the transaction mined); it never records a broadcast for a transaction that was not handed out and acknowledged");
    run.assume("the chain beyond the wallet's scanned tip is invisible to the engine, so the environment keeps chain tip = scanned tip and models the wallet being behind by the estimate lead of the dueness targets (0 or 2 blocks)");
    run.assume("Rebuild is observed as a report only: executing it needs spend authority and real transaction construction, which are outside this check's alphabet; a proof may be stored a second time on a row that is Proved, Broadcast or Mined (a late second prover started while the row was Signed; store_proved_transaction / ProvedTransaction::apply do not restrict the row's state); mining is derived by advance_migration from the store (the documented driver shape), the consumer does not call mark_mined");
    run.assume("per advance_migration call at most one transaction's oracle answer deviates from the default (marks accumulate over calls); deviating answers are explored only for transactions the engine actually asks about in that call (for every other victim the call is identical by construction) and only at lead 0");
    run.assume("the RNG passed to advance_migration is a script owned by the explorer (anchor age 1 or 2 on the overdue-shift redraw); other draws are not explored");
    run.assume("liveness probe: 'reported' = the drive API returns a step other than Waiting/Complete, or transaction_statuses shows Unsatisfiable/Expired/AwaitingReevaluation; waiting on an in-flight unexpired transaction or on an external signature is not a silent hold; a Waiting whose outlook names a later height is followed to that height");
    run.assume("wallet-driven rollback: the stored migration after WalletWrite::truncate_to_height must equal MigrationState::truncate_to_height(achieved) of the saved state, except that the store's truncation walk documents the policy-terminal statuses (failed/superseded/cancelled) as left untouched, so for those the expected stored state is the saved one; rewind_to_chain_state ends in the same truncate_to_height_internal and is not driven separately; MockBackend has no rollback entry point");
    run.assume(&format!("the explored space: event sequences of the stated depth in which at most {} events follow the migration reaching a terminal status (every event is still executed and checked from every terminal state that is expanded)", model::TERM_FOLLOW));

    // ---------------------------------------------------------------- lifecycle exploration
    let profiles: Vec<u8> = match std::env::var("C18_PROFILES").ok() {
        Some(s) => s.split(',').filter_map(|x| x.parse().ok()).collect(),
        None => (0..PROFILES.len() as u8).collect(),
    };
    let dags: Vec<Dag> = match std::env::var("C18_DAGS").ok() {
        Some(s) => s.split(',').filter_map(|x| x.parse::<usize>().ok()).map(|i| DAGS[i]).collect(),
        None => DAGS.to_vec(),
    };
    let deep_depth = env_usize("C18_DEEP").unwrap_or(args.tier.pick(8, 12));
    let broad_depth = env_usize("C18_BROAD").unwrap_or(args.tier.pick(3, 5));
    let budget = env_usize("C18_BUDGET").map(|x| x as u64).unwrap_or(args.tier.pick(35_000, 500_000));
    let budget_broad = env_usize("C18_BUDGET").map(|x| x as u64).unwrap_or(args.tier.pick(50_000, 500_000));
    let max_wall = env_usize("C18_MAX_WALL").map(|x| x as f64).unwrap_or(args.tier.pick(45.0, 540.0));
    // Explored-state persistence: quick saves one representative per shape class; thorough saves
    // every distinct MigrationState reached within the stated number of events (the size of the
    // quick-tier space) and one representative per shape class beyond.
    let (persist_deep, persist_broad) = match std::env::var("C18_PERSIST").ok().as_deref() {
        Some("off") => (Persist::Off, Persist::Off),
        Some("full") => (Persist::FullTo(u8::MAX), Persist::FullTo(u8::MAX)),
        Some("class") => (Persist::ShapeClass, Persist::ShapeClass),
        _ => args.tier.pick((Persist::ShapeClass, Persist::ShapeClass), (Persist::FullTo(6), Persist::FullTo(2))),
    };
    let passes = vec![
        Pass { name: "deep", inits: DEEP_INITS.to_vec(), depth_max: deep_depth, budget, max_wall, persist: persist_deep },
        Pass { name: "broad", inits: (0..125u8).collect(), depth_max: broad_depth, budget: budget_broad, max_wall, persist: persist_broad },
    ];
    let persist_mode = persist_deep;
    let opts = Opts { differential: true, probe: true, persist: persist_mode, probe_every_height: !quick };
    // Quick runs the two non-topological chain orders under the two profiles with mixed / tight
    // expiries only (the ones under which a dependency can die while its dependents live);
    // thorough runs every shape under every profile.
    let groups: Vec<(Dag, u8)> = dags
        .iter()
        .flat_map(|d| profiles.iter().map(move |p| (*d, *p)))
        .filter(|(d, p)| !(quick && matches!(d, Dag::ChainReversed | Dag::ChainMixed) && !matches!(p, 1 | 3)))
        .collect();
    let tasks: Vec<(Dag, u8, Pass)> = groups.iter().flat_map(|(d, p)| passes.iter().map(move |ps| (*d, *p, ps.clone()))).collect();
    let results: Vec<PassResult> = tasks.par_iter().map(|(d, p, ps)| explore_pass(*d, *p, ps, opts)).collect();

    let mut outcomes: BTreeMap<String, u64> = BTreeMap::new();
    let mut per_group = Vec::new();
    let mut best: BTreeMap<String, (usize, usize, String, Value)> = BTreeMap::new();
    let (mut adv_calls, mut mock_calls, mut probes, mut persists, mut wallet_rollbacks) = (0u64, 0u64, 0u64, 0u64, 0u64);
    for (gi, r) in results.iter().enumerate() {
        run.add_graph(r.states, r.transitions, r.transitions);
        run.eval_distinct(r.states);
        for (k, n) in &r.counters.outcomes {
            *outcomes.entry(k.clone()).or_insert(0) += n;
        }
        adv_calls += r.counters.advance_calls;
        mock_calls += r.counters.mock_calls;
        probes += r.counters.probe_runs;
        persists += r.counters.persist_runs;
        wallet_rollbacks += r.counters.wallet_rollbacks;
        if let Some(c) = &r.capped {
            run.cap_hit(&format!("{:?}/{}/{}: {c}; states {}, states expanded per depth {:?}", r.dag, PROFILES[r.profile as usize].name, r.pass, r.states, r.per_depth));
        }
        per_group.push(json!({
            "dag": r.dag, "profile": PROFILES[r.profile as usize].name, "pass": r.pass, "initial_states": r.n_inits,
            "depth_events": r.depth, "depth_attempted": r.depth_max, "state_budget": r.budget,
            "states": r.states, "transitions": r.transitions, "states_expanded_per_depth": r.per_depth, "capped": r.capped, "wall_s": r.wall,
        }));
        for (k, msg, h) in &r.cex {
            if k == "machinery" {
                mc_core::machinery_error(&format!("C18: {msg} (history {h:?})"));
            }
            let better = match best.get(k) {
                None => true,
                Some((len, gidx, _, _)) => (h.len(), gi) < (*len, *gidx),
            };
            if better {
                best.insert(k.clone(), (h.len(), gi, msg.clone(), history_case(r.dag, r.profile, opts.probe_every_height, h)));
            }
        }
    }
    for (k, (_, _, msg, case)) in best {
        run.fail("history", k, msg, case);
    }
    run.section(
        "lifecycle",
        json!({
            "depth_rule": "per pass, the largest depth <= depth_attempted whose complete breadth-first search has fewer than state_budget states (found by a counting search over the same transition system)",
            "passes": per_group,
            "advance_migration_calls_on_scripted_store": adv_calls,
            "advance_migration_calls_on_mockbackend": mock_calls,
            "liveness_probes": probes,
            "sqlite_roundtrips_of_explored_states": persists,
            "wallet_driven_rollbacks_of_explored_rollback_events": wallet_rollbacks,
            "explored_state_persistence": {"deep": format!("{persist_deep:?}"), "broad": format!("{persist_broad:?}")},
            "terminal_follow_events": model::TERM_FOLLOW,
            "heights": {"initial_tip": model::T0, "anchor_grid": model::INTERVAL, "tip_max": model::TIP_MAX, "rollback_floor": model::FLOOR,
                        "profiles": PROFILES.iter().map(|p| json!({"name": p.name, "scheduled": p.sched, "expiry": p.expiry, "transfer_anchor_boundary": p.boundary})).collect::<Vec<_>>()},
            "alphabet_rationale": [
                "scheduled 22/24/26 against tips 20..33 in +1 steps and jumps: both sides of `scheduled_height <= effective` (next_broadcastable, prove_ready)",
                "lead 0/2: scanned vs effective targets differ; with expiry 24 the doomed window `scanned <= expiry < effective` is entered and left",
                "expiry 0 and scheduled+2/+4: `expiry != 0` and both sides of `expiry < target` (tip = expiry gives target = expiry + 1)",
                "transfer anchor boundary 8 / 12 with PROVABLE_ANCHOR_DEPTH 10: both sides of `boundary + 10 < scanned` (12 settles only at scanned target 23)",
                "anchor grid 4 => transfer-delay mean 1 => overdue tolerance 1: one block late is served, two blocks late shifts the schedule and redraws boundaries (ages 1 and 2)",
                "crossing shares 20/30/50 and 20/80 against the 20% replan threshold: equality (no early replan) and above (early replan) of `100*unsat > percent*total`",
                "BroadcastFail(tip) / (tip+2): both sides of `as_of_height < reported_tip` (adjudicated at once / held at Reevaluate until scanned)",
                "Rollback to tip-1, tip-2 and mined-1: a transaction mined exactly at the height stays mined, one above is un-mined; marks and reports on either side of the height",
                "every StepSatisfiability variant and every UnsatisfiableCause as oracle answer; in-flight rows get the two causes the sweep acts on",
                "initial states: all 5^3 per-transaction lifecycle combinations, mined heights 17/18/19 below the initial tip"
            ],
            "events": ["Advance{lead in {0,2}, oracle in {AllOk, NotYet(i), Spent(i), InputsInvalidated(i), AnchorInvalidated(i)}, anchor age in {1,2}, response}",
                       "responses: Prove => ProveAll | ProveFirst | Ignore; Broadcast => BroadcastOk | BroadcastOkNotRecorded | BroadcastFail(tip) | BroadcastFail(tip+2) | Ignore; Replan => Supersede | Ignore; others => Ignore",
                       "RecordLate(i)", "Mine(i)", "Tip{+1 | to next scheduled | past next expiry}", "Rollback(h in {tip-1, tip-2, mined-1})", "Cancel", "Supersede", "ApplySignature(i)", "ReProve(i): a second proof stored on a row that is Proved (with or without a standing failure report), Broadcast or Mined"],
        }),
    );
    run.sample(json!({"history_example": history_case(Dag::Chain, 0, !quick, &[
        Op::Init(31),
        Op::Advance { lead: 2, oracle: store::Oracle::AllOk, age: 1, resp: model::Resp::ProveAll },
        Op::Advance { lead: 2, oracle: store::Oracle::AllOk, age: 1, resp: model::Resp::BroadcastOkNotRecorded },
        Op::Mine(0),
        Op::Advance { lead: 0, oracle: store::Oracle::AllOk, age: 1, resp: model::Resp::Ignore },
        Op::RecordLate(0),
    ])}));
    let t_lifecycle = run.elapsed();

    // ---------------------------------------------------------------- persistence lattice
    let plans: Vec<u8> = if quick { vec![0, 3] } else { (0..persist::N_PLANS).collect() };
    let points = persist::all_points(&plans);
    // SQLite serialises in-process work on global mutexes; a small pool is as fast as a large one.
    let pool = rayon::ThreadPoolBuilder::new().num_threads(8).build().unwrap_or_else(|e| mc_core::machinery_error(&format!("C18: thread pool: {e}")));
    let lat: Vec<(usize, Result<&'static str, Viol>)> = pool.install(|| points.par_iter().enumerate().map(|(i, p)| (i, persist::check_point(p))).collect());
    run.eval_distinct(points.len() as u64);
    // One failure per violation key: the first lattice point (in enumeration order) that shows it;
    // the number of points showing it is part of the message.
    let mut lat_fail: BTreeMap<String, (usize, String, usize)> = BTreeMap::new();
    for (i, r) in lat {
        match r {
            Ok(o) => *outcomes.entry(o.to_string()).or_insert(0) += 1,
            Err(v) => {
                if v.key == "machinery" {
                    mc_core::machinery_error(&format!("C18 lattice: {}", v.msg));
                }
                let e = lat_fail.entry(v.key.clone()).or_insert((i, v.msg.clone(), 0));
                e.2 += 1;
                if i < e.0 {
                    e.0 = i;
                    e.1 = v.msg.clone();
                }
            }
        }
    }
    for (k, (i, msg, n)) in lat_fail {
        run.fail("lattice", k, format!("{msg} [first of {n} lattice points: {}]", points[i].label()), serde_json::to_value(&points[i]).unwrap());
    }
    run.sample(json!({"lattice_point_example": points[points.len() / 2], "label": points[points.len() / 2].label()}));
    // Wallet-driven rollback commutes with the in-memory rollback, on the rollback lattice.
    let rb_points = persist::rollback_points();
    let rb: Vec<(usize, Result<&'static str, Viol>)> = pool.install(|| rb_points.par_iter().enumerate().map(|(i, p)| (i, persist::check_rollback_point(p))).collect());
    run.eval_distinct(rb_points.len() as u64);
    let mut rb_fail: BTreeMap<String, (usize, String, usize)> = BTreeMap::new();
    for (i, r) in rb {
        match r {
            Ok(o) => *outcomes.entry(format!("lattice:{o}")).or_insert(0) += 1,
            Err(v) => {
                if v.key == "machinery" {
                    mc_core::machinery_error(&format!("C18 rollback lattice: {}", v.msg));
                }
                let e = rb_fail.entry(v.key.clone()).or_insert((i, v.msg.clone(), 0));
                e.2 += 1;
                if i < e.0 {
                    e.0 = i;
                    e.1 = v.msg.clone();
                }
            }
        }
    }
    for (k, (i, msg, n)) in rb_fail {
        run.fail("rollback-lattice", k, format!("{msg} [first of {n} rollback-lattice points: {}]", rb_points[i].label()), serde_json::to_value(&rb_points[i]).unwrap());
    }
    run.sample(json!({"rollback_lattice_point_example": rb_points[rb_points.len() / 3], "label": rb_points[rb_points.len() / 3].label()}));
    for status in 0..7u8 {
        run.eval_distinct(1);
        match persist::check_commit_guard(status) {
            Ok(o) => *outcomes.entry(o.to_string()).or_insert(0) += 1,
            Err(v) => {
                if v.key == "machinery" {
                    mc_core::machinery_error(&format!("C18 guard: {}", v.msg));
                }
                run.fail("guard", v.key, v.msg, json!({"status": status}))
            }
        }
    }
    let n_conf = args.tier.pick(48, 256);
    match persist::conformance_values(n_conf) {
        Ok(n) => *outcomes.entry("conformance-suite-on-generated-state".into()).or_insert(0) += n as u64,
        Err(v) => run.fail("conformance", v.key, v.msg, json!({"n": n_conf})),
    }
    run.section("persistence", json!({"rollback_lattice_points": rb_points.len(), "rollback_lattice": "status x {4 unmined states, Mined at H-1/H/H+1/H+2} x {no mark, mark at H-1..H+2} x {no report, report at H-1..H+2}; save, WalletWrite::truncate_to_height(H) on the wallet owning the store, load, compare with MigrationState::truncate_to_height(achieved)", "lattice_points": points.len(), "plan_shapes": plans, "commit_guard_statuses": 7, "generated_states_through_conformance_suite": n_conf}));
    let t_persist = run.elapsed();

    // ---------------------------------------------------------------- second engine
    if run.failure_count() == 0 {
        let sr_budget = env_usize("C18_SR_BUDGET").map(|x| x as u64).unwrap_or(args.tier.pick(4_000, 30_000));
        let sr_groups: Vec<(Dag, u8)> = if quick { dags.iter().enumerate().map(|(i, d)| (*d, profiles[i % profiles.len()])).collect() } else { groups.clone() };
        let cmp: Vec<Value> = sr_groups
            .par_iter()
            .map(|(d, p)| {
                let inits = DEEP_INITS.to_vec();
                let sr_depth = budget_depth(*d, *p, &inits, deep_depth, sr_budget);
                let m = Model::new(*d, *p, inits.clone(), PLAIN, None);
                let (st, _) = bfs(&m, vec![St::Root], &Limits { max_depth: sr_depth + 1, max_states: u64::MAX, max_wall_s: 1e9 }, 1);
                let c = sr::count(*d, *p, inits, sr_depth + 1);
                json!({"dag": d, "profile": PROFILES[*p as usize].name, "depth_events": sr_depth, "initial_states": DEEP_INITS,
                       "bfs_states": st.states, "stateright_unique_states": c.unique_states,
                       "bfs_transitions": st.transitions, "stateright_generated_minus_init": c.generated - 1, "stateright_max_depth": c.max_depth})
            })
            .collect();
        for c in &cmp {
            run.require(c["bfs_states"] == c["stateright_unique_states"], &format!("state counts of the two engines differ: {c}"));
            run.require(c["bfs_transitions"] == c["stateright_generated_minus_init"], &format!("transition counts of the two engines differ: {c}"));
        }
        run.section("second_engine", json!({"engine": "stateright 0.31 BFS, 1 thread per model", "comparisons": cmp}));
    } else {
        run.section("second_engine", json!({"skipped": "violations present; the primary search does not expand violating states, so counts are not comparable"}));
    }
    run.section("phase_wall_s", json!({"lifecycle": t_lifecycle, "persistence": t_persist - t_lifecycle, "second_engine": run.elapsed() - t_persist}));

    // ---------------------------------------------------------------- vacuity guards
    for (k, n) in &outcomes {
        run.outcome_n(k, *n);
    }
    if run.failure_count() == 0 && std::env::var("C18_DAGS").is_err() && std::env::var("C18_PROFILES").is_err() {
        for must in [
            "step:Prove", "step:Broadcast", "step:Rebuild", "step:Replan", "step:Reevaluate", "step:Waiting", "step:Complete",
            "engine:schedule-shift", "engine:anchor-redrawn", "engine:promote-unrecorded-broadcast", "engine:promote-mined", "engine:report-discharged",
            "engine:mark-InputsSpent", "engine:mark-InputsInvalidated", "engine:mark-AnchorInvalidated", "engine:mark-Inherited",
            "consumer:proof-stored-again-on-Proved", "consumer:proof-stored-again-on-Broadcast", "consumer:proof-stored-again-on-Mined", "consumer:proof-stored-again-under-report",
            "consumer:broadcast-ok-not-recorded", "consumer:late-record-on-Mined", "consumer:late-record-on-Proved", "consumer:late-record-on-Broadcast",
            "chain:rollback-unmines", "status:Complete->InProgress", "reached-terminal:Complete", "reached-terminal:Cancelled", "reached-terminal:Superseded",
            "probe-end:Waiting", "probe-end:Rebuild", "probe-end:Replan", "targets:estimate-ahead",
            "lattice:terminal+successor", "lattice:live-replaced-in-place", "lattice:wallet-rollback:rolled-back", "lattice:wallet-rollback:unchanged",
            "wallet-rollback:rolled-back", "wallet-rollback:unchanged", "guard:refused-live", "guard:admitted-after-terminal",
        ] {
            run.require(outcomes.contains_key(must), &format!("outcome '{must}' never observed"));
        }
    }
    run.require(run.outcomes_distinct() >= 12 || run.failure_count() > 0, "vacuous exploration");
    run.finish(&replay)
}
