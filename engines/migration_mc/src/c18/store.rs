//! The scripted store: a plain struct implementing the public `PoolMigrationRead` /
//! `PoolMigrationWrite` traits. It stores what it is given and answers the two chain questions
//! (`check_step_satisfiability`, `mined_height`) from the explorer's environment: the scanned tip,
//! the set of migration transactions on chain, and the explorer-chosen oracle variant for this call.
//!
//! The answer function follows the documented contract of the traits:
//! * `as_of_height` is always the store's fully-scanned height (the environment's tip);
//! * the answer precedence is the one `classify_input_observations` documents
//!   (InputsSpent > InputsInvalidated > Expired > NotYetSatisfiable > Satisfiable, AnchorInvalidated
//!   below Expired); the transaction-level expiry judgment is made at the store's own scanned target;
//! * `mined_height` reports a height only for a transaction that is on the (scanned) chain, and a
//!   transaction that is on chain is never reported "inputs spent" by something else (the two
//!   answers come from one view).

use std::cell::{Cell, RefCell};
use std::convert::Infallible;

use rand_core::{CryptoRng, RngCore};
use serde::{Deserialize, Serialize};
use zcash_pool_migration::engine::{
    MigrationState, MigrationTransaction, MigrationTransferId, MigrationTxState, PoolMigrationRead, PoolMigrationWrite,
    ProvedTransaction,
};
use zcash_pool_migration::satisfiability::{ReorgSettleDepth, StepSatisfiability, UnsatisfiableCause};
use zcash_protocol::consensus::BlockHeight;
use zcash_protocol::TxId;

/// The explorer's choice of what the store's oracle says in one `advance_migration` call: every
/// transaction answers the default (Satisfiable, or Expired where the store's own expiry judgment
/// says so) except one victim, which answers the named variant.
#[derive(Clone, Copy, Debug, PartialEq, Eq, Hash, Serialize, Deserialize)]
pub enum Oracle {
    AllOk,
    NotYet(u8),
    Spent(u8),
    InputsInvalidated(u8),
    AnchorInvalidated(u8),
}

impl Oracle {
    pub fn tag(&self) -> &'static str {
        match self {
            Oracle::AllOk => "ok",
            Oracle::NotYet(_) => "notyet",
            Oracle::Spent(_) => "spent",
            Oracle::InputsInvalidated(_) => "inputs_invalidated",
            Oracle::AnchorInvalidated(_) => "anchor_invalidated",
        }
    }
}

/// The store's answer for transaction `id` with expiry `expiry` at scanned tip `tip` under `oracle`.
/// A pure function of those four values, so the repository's `MockBackend` can be configured with
/// exactly the same answers before the call.
pub fn answer(id: u32, expiry: u32, tip: u32, oracle: Oracle) -> StepSatisfiability {
    let as_of_height = BlockHeight::from_u32(tip);
    // The store's transaction-level expiry judgment, at its own scanned target (tip + 1).
    let expired = expiry != 0 && expiry < tip + 1;
    let unsat = |cause| StepSatisfiability::Unsatisfiable { cause, as_of_height };
    let victim = |v: u8| u32::from(v) == id;
    match oracle {
        Oracle::Spent(v) if victim(v) => unsat(UnsatisfiableCause::InputsSpent { nullifiers: vec![nullifier(id)] }),
        Oracle::InputsInvalidated(v) if victim(v) => unsat(UnsatisfiableCause::InputsInvalidated { anchor: [0xA5; 32] }),
        _ if expired => unsat(UnsatisfiableCause::Expired),
        Oracle::AnchorInvalidated(v) if victim(v) => unsat(UnsatisfiableCause::AnchorInvalidated),
        Oracle::NotYet(v) if victim(v) => StepSatisfiability::NotYetSatisfiable { as_of_height },
        _ => StepSatisfiability::Satisfiable { as_of_height },
    }
}

pub fn nullifier(id: u32) -> [u8; 32] {
    let mut n = [0x11u8; 32];
    n[0] = id as u8 + 1;
    n
}

pub fn txid_of(id: u32) -> TxId {
    let mut b = [0xC0u8; 32];
    b[0] = id as u8;
    TxId::from_bytes(b)
}

pub struct Scripted {
    pub stored: Option<MigrationState>,
    pub replace_calls: Cell<u32>,
    pub tip: u32,
    /// (txid, height) of every migration transaction on the scanned chain.
    pub chain: Vec<(TxId, u32)>,
    pub oracle: Oracle,
    /// Ids the engine asked `check_step_satisfiability` about, with whether the row was in flight
    /// (`Broadcast`) when asked.
    pub queried: RefCell<Vec<(u32, bool)>>,
}

impl Scripted {
    pub fn new(stored: Option<MigrationState>, tip: u32, chain: Vec<(TxId, u32)>, oracle: Oracle) -> Self {
        Scripted { stored, replace_calls: Cell::new(0), tip, chain, oracle, queried: RefCell::new(Vec::new()) }
    }
}

impl PoolMigrationRead for Scripted {
    type Error = Infallible;

    fn get_migration(&self) -> Result<Option<MigrationState>, Self::Error> {
        // Pending-only, per the documented contract.
        Ok(self.stored.clone().filter(|s| !s.is_terminal()))
    }

    fn check_step_satisfiability(&self, tx: &MigrationTransaction, _settle: ReorgSettleDepth) -> Result<StepSatisfiability, Self::Error> {
        let id = u32::from(tx.id());
        self.queried.borrow_mut().push((id, matches!(tx.state(), MigrationTxState::Broadcast { .. })));
        Ok(answer(id, u32::from(tx.expiry_height()), self.tip, self.oracle))
    }

    fn mined_height(&self, txid: TxId) -> Result<Option<BlockHeight>, Self::Error> {
        Ok(self.chain.iter().find(|(t, h)| *t == txid && *h <= self.tip).map(|(_, h)| BlockHeight::from_u32(*h)))
    }
}

impl PoolMigrationWrite for Scripted {
    fn replace_migration(&mut self, state: &MigrationState) -> Result<(), Self::Error> {
        self.replace_calls.set(self.replace_calls.get() + 1);
        self.stored = Some(state.clone());
        Ok(())
    }

    fn update_transaction(&mut self, id: MigrationTransferId, state: MigrationTxState) -> Result<(), Self::Error> {
        if let Some(stored) = &mut self.stored {
            let txs: Vec<MigrationTransaction> = stored
                .transactions()
                .iter()
                .map(|t| {
                    if t.id() == id {
                        MigrationTransaction::from_parts(
                            t.id(),
                            t.kind(),
                            t.pczt().clone(),
                            t.depends_on().clone(),
                            t.scheduled_height(),
                            t.expiry_height(),
                            t.anchor_boundary(),
                            t.txid(),
                            state,
                            t.lock_owner(),
                            t.unsatisfiable(),
                            t.spend_nullifiers().clone(),
                            t.broadcast_failure_at(),
                        )
                    } else {
                        t.clone()
                    }
                })
                .collect();
            *stored = MigrationState::from_parts(
                stored.status(),
                stored.denominations().clone(),
                stored.preparation().clone(),
                txs,
                stored.anchor_bucket_interval(),
                stored.replan_threshold(),
            );
        }
        Ok(())
    }

    fn store_proved_transaction(&mut self, state: &mut MigrationState, proven: ProvedTransaction) -> Result<(), Self::Error> {
        proven.apply(state);
        self.replace_migration(state)
    }
}

/// The RNG handed to `advance_migration`. The engine uses it only for the anchor-boundary redraw
/// of the overdue shift, where each 64-bit word is a run of fair coin flips and the position of
/// the lowest set bit is the drawn anchor age. The explorer owns that choice: every word is
/// `1 << (age - 1)`, so the drawn age is exactly `age` (a candidate outside the admissible set is
/// redrawn by the engine; after 8 words the script falls back to age 1, which is always
/// admissible, so the engine's rejection loop terminates).
pub struct ScriptRng {
    pub age: u8,
    pub words: u32,
}

impl ScriptRng {
    pub fn new(age: u8) -> Self {
        ScriptRng { age: age.max(1), words: 0 }
    }
}

impl RngCore for ScriptRng {
    fn next_u32(&mut self) -> u32 {
        self.next_u64() as u32
    }
    fn next_u64(&mut self) -> u64 {
        self.words += 1;
        if self.words > 8 {
            1
        } else {
            1u64 << (self.age - 1)
        }
    }
    fn fill_bytes(&mut self, dest: &mut [u8]) {
        for c in dest.chunks_mut(8) {
            let w = self.next_u64().to_le_bytes();
            c.copy_from_slice(&w[..c.len()]);
        }
    }
    fn try_fill_bytes(&mut self, dest: &mut [u8]) -> Result<(), rand_core::Error> {
        self.fill_bytes(dest);
        Ok(())
    }
}

impl CryptoRng for ScriptRng {}
