//! Second engine: the same transition system under stateright's breadth-first checker (single
//! threaded, so its depth-bounded search visits the same layers). Only counts are taken from it;
//! the invariants are evaluated by the primary search.

use std::hash::{Hash, Hasher};

use mc_core::explore::Subject;
use stateright::{Checker, Model as SrModelTrait, Property};

use super::model::{state_key, Dag, Model, Op, Opts, Persist, St};

#[derive(Clone)]
pub struct SrState {
    key: Vec<u8>,
    st: St,
}
impl PartialEq for SrState {
    fn eq(&self, o: &Self) -> bool {
        self.key == o.key
    }
}
impl Hash for SrState {
    fn hash<H: Hasher>(&self, h: &mut H) {
        self.key.hash(h)
    }
}

pub struct SrModel {
    pub dag: Dag,
    pub profile: u8,
    pub inits: Vec<u8>,
}

const PLAIN: Opts = Opts { differential: false, probe: false, persist: Persist::Off, probe_every_height: false };

impl SrModel {
    fn model(&self) -> Model<'static> {
        Model::new(self.dag, self.profile, self.inits.clone(), PLAIN, None)
    }
}

impl SrModelTrait for SrModel {
    type State = SrState;
    type Action = Op;

    fn init_states(&self) -> Vec<SrState> {
        vec![SrState { key: state_key(&St::Root), st: St::Root }]
    }
    fn actions(&self, s: &SrState, out: &mut Vec<Op>) {
        out.extend(self.model().ops(&s.st, 0));
    }
    fn next_state(&self, s: &SrState, a: Op) -> Option<SrState> {
        match self.model().step(&s.st, &a) {
            Ok(Some(n)) => Some(SrState { key: state_key(&n), st: n }),
            _ => None,
        }
    }
    fn properties(&self) -> Vec<Property<Self>> {
        // One never-falsified property keeps the checker exploring the whole bounded space.
        vec![Property::always("explore", |_, _| true)]
    }
}

pub struct SrCounts {
    pub unique_states: u64,
    pub generated: u64,
    pub max_depth: usize,
}

/// `depth` is the primary search's depth bound (root = 0).
pub fn count(dag: Dag, profile: u8, inits: Vec<u8>, depth: usize) -> SrCounts {
    let c = SrModel { dag, profile, inits }.checker().target_max_depth(depth + 1).spawn_bfs().join();
    SrCounts { unique_states: c.unique_state_count() as u64, generated: c.state_count() as u64, max_depth: c.max_depth() }
}
