//! Persistence: the real SQLite store (`zcash_client_sqlite::pool_migration::orchard_ironwood::
//! PoolMigrations`) over a real wallet database (all schema migrations applied, one account), one
//! database per worker thread, emptied of migration rows between cases.

use std::cell::RefCell;

use mc_core::catch;
use rusqlite::Connection;
use serde::{Deserialize, Serialize};
use zcash_client_backend::data_api::testing::{TestBuilder, TestState};
use zcash_client_backend::data_api::Account as _;
use zcash_client_sqlite::pool_migration::orchard_ironwood::PoolMigrations;
use zcash_client_sqlite::testing::db::{TestDb, TestDbFactory};
use zcash_client_sqlite::util::SystemClock;
use zcash_client_sqlite::AccountUuid;
use zcash_pool_migration::build::AccountDerivation;
use zcash_pool_migration::denomination::DenominationPlan;
use zcash_pool_migration::engine::{
    commit_preparation, plan_migration, CommitError, MigrationBackend, MigrationCrypto, MigrationLockOwner, MigrationState,
    MigrationStatus, MigrationTransaction, MigrationTransferId, MigrationTxKind, MigrationTxState, PoolMigrationRead,
    PoolMigrationWrite, ProvedTransaction,
};
use zcash_pool_migration::preparation::{PrepInput, PrepOutput, PrepTransaction, PreparationPlan};
use zcash_pool_migration::satisfiability::{ReorgSettleDepth, ReplanThreshold, StepSatisfiability, UnsatisfiableKind};
use zcash_pool_migration::scheduling::{AnchorBucketInterval, SchedulingParams};
use zcash_pool_migration_memory::MockBackend;
use zcash_primitives::block::BlockHash;
use zcash_protocol::consensus::BlockHeight;
use zcash_protocol::local_consensus::LocalNetwork;
use zcash_protocol::value::Zatoshis;
use zcash_protocol::TxId;

use super::model::{viol, Viol};
use super::store::Scripted;

type Store<'c> = PoolMigrations<&'c mut Connection, LocalNetwork, SystemClock>;

struct Db {
    st: TestState<(), TestDb, LocalNetwork>,
    account: AccountUuid,
}

thread_local! {
    static DB: RefCell<Option<Db>> = const { RefCell::new(None) };
}

/// Harness tuning only: switch off SQLite's global allocation statistics (a process-wide mutex
/// taken on every allocation) before the library initialises, so worker threads with their own
/// in-memory databases do not serialise on it.
pub fn configure_sqlite() {
    static ONCE: std::sync::Once = std::sync::Once::new();
    ONCE.call_once(|| {
        // SAFETY: called once, before any connection is opened (SQLite is not yet initialised).
        let rc = unsafe { rusqlite::ffi::sqlite3_config(rusqlite::ffi::SQLITE_CONFIG_MEMSTATUS, 0i32) };
        if rc != rusqlite::ffi::SQLITE_OK && std::env::var("C18_TRACE").is_ok() {
            eprintln!("C18: sqlite3_config(MEMSTATUS) returned {rc}");
        }
    });
}

/// The bundled SQLite shares one page-cache group (one mutex) between all connections of the
/// process, so more than a few concurrent users only queue on it. Harness tuning only: at most
/// this many worker threads are inside SQLite at once.
const SQLITE_PERMITS: usize = 12;
static PERMITS: (std::sync::Mutex<usize>, std::sync::Condvar) = (std::sync::Mutex::new(usize::MAX), std::sync::Condvar::new());

struct Permit;
impl Permit {
    fn take() -> Permit {
        let mut n = PERMITS.0.lock().unwrap();
        if *n == usize::MAX {
            *n = std::env::var("C18_SQLITE_PERMITS").ok().and_then(|s| s.parse().ok()).unwrap_or(SQLITE_PERMITS);
        }
        while *n == 0 {
            n = PERMITS.1.wait(n).unwrap();
        }
        *n -= 1;
        Permit
    }
}
impl Drop for Permit {
    fn drop(&mut self) {
        *PERMITS.0.lock().unwrap() += 1;
        PERMITS.1.notify_one();
    }
}

const MIGRATION_TABLES: [&str; 8] = [
    "orchard_ironwood_migration_transaction_deps",
    "orchard_ironwood_migration_spend_nullifiers",
    "orchard_ironwood_migration_transactions",
    "orchard_ironwood_migration_prep_inputs",
    "orchard_ironwood_migration_prep_outputs",
    "orchard_ironwood_migration_prep_direct_funding",
    "orchard_ironwood_migration_crossing_values",
    "orchard_ironwood_migrations",
];

fn with_db<R>(f: impl FnOnce(&mut Connection, AccountUuid, LocalNetwork) -> R) -> R {
    let _permit = Permit::take();
    DB.with(|cell| {
        let mut g = cell.borrow_mut();
        if g.is_none() {
            let st = TestBuilder::new()
                .with_data_store_factory(TestDbFactory::default())
                .with_account_from_sapling_activation(BlockHash([0; 32]))
                .build();
            let account = st.test_account().expect("test account").account().id();
            *g = Some(Db { st, account });
        }
        let db = g.as_mut().unwrap();
        let net = *db.st.network();
        let account = db.account;
        let conn = db.st.wallet_mut().conn_mut();
        reset(conn);
        let r = f(conn, account, net);
        r
    })
}

/// Harness reset: remove every migration row (children first), so each case starts from an
/// account without any migration.
fn reset(conn: &Connection) {
    // Foreign keys are enforced on this connection, so deleting the parent rows cascades; the
    // children are deleted explicitly first only when something is there.
    let n: i64 = conn.query_row("SELECT COUNT(*) FROM orchard_ironwood_migrations", [], |r| r.get(0)).unwrap_or(1);
    if n == 0 {
        return;
    }
    for t in MIGRATION_TABLES {
        conn.execute(&format!("DELETE FROM {t}"), []).unwrap_or_else(|e| mc_core::machinery_error(&format!("C18: cannot reset {t}: {e}")));
    }
}

fn store<'c>(conn: &'c mut Connection, account: AccountUuid, net: LocalNetwork) -> Result<Store<'c>, Viol> {
    PoolMigrations::for_account(net, SystemClock, conn, account).map_err(|e| viol("machinery", format!("for_account failed: {e}")))
}

fn live_rows(conn: &Connection) -> i64 {
    conn.query_row(
        "SELECT COUNT(*) FROM orchard_ironwood_migrations WHERE status IN ('planning', 'committed', 'in_progress')",
        [],
        |r| r.get(0),
    )
    .unwrap_or(-1)
}
fn all_rows(conn: &Connection) -> i64 {
    conn.query_row("SELECT COUNT(*) FROM orchard_ironwood_migrations", [], |r| r.get(0)).unwrap_or(-1)
}

/// Names the first component in which a state read back differs from the one written, and
/// describes the difference.
fn diff2(a: &Option<MigrationState>, b: &MigrationState) -> (&'static str, String) {
    let Some(a) = a else { return ("nothing", "nothing was read back".to_string()) };
    if a.status() != b.status() {
        return ("status", format!("status {:?} != {:?}", a.status(), b.status()));
    }
    if a.denominations() != b.denominations() {
        return ("denominations", format!("denominations {:?} != {:?}", a.denominations(), b.denominations()));
    }
    if a.preparation() != b.preparation() {
        return ("preparation", format!("preparation plan {:?} != {:?}", a.preparation(), b.preparation()));
    }
    if a.anchor_bucket_interval() != b.anchor_bucket_interval() {
        return ("anchor_bucket_interval", format!("anchor grid {:?} != {:?}", a.anchor_bucket_interval(), b.anchor_bucket_interval()));
    }
    if a.replan_threshold() != b.replan_threshold() {
        return ("replan_threshold", format!("replan threshold {:?} != {:?}", a.replan_threshold(), b.replan_threshold()));
    }
    if a.transactions().len() != b.transactions().len() {
        return ("tx-count", format!("{} transactions != {}", a.transactions().len(), b.transactions().len()));
    }
    for (x, y) in a.transactions().iter().zip(b.transactions()) {
        let field = if x.id() != y.id() {
            "tx.id"
        } else if x.kind() != y.kind() {
            "tx.kind"
        } else if x.pczt() != y.pczt() {
            "tx.pczt"
        } else if x.depends_on() != y.depends_on() {
            "tx.depends_on"
        } else if x.scheduled_height() != y.scheduled_height() {
            "tx.scheduled_height"
        } else if x.expiry_height() != y.expiry_height() {
            "tx.expiry_height"
        } else if x.anchor_boundary() != y.anchor_boundary() {
            "tx.anchor_boundary"
        } else if x.txid() != y.txid() {
            "tx.txid"
        } else if x.state() != y.state() {
            "tx.state"
        } else if x.lock_owner() != y.lock_owner() {
            "tx.lock_owner"
        } else if x.unsatisfiable() != y.unsatisfiable() {
            "tx.unsatisfiable"
        } else if x.spend_nullifiers() != y.spend_nullifiers() {
            "tx.spend_nullifiers"
        } else if x.broadcast_failure_at() != y.broadcast_failure_at() {
            "tx.broadcast_failure_at"
        } else if x != y {
            "tx.other"
        } else {
            continue;
        };
        return (field, format!("transaction {} differs in {field}: read back {x:?}, written {y:?}", u32::from(y.id())));
    }
    ("other", "states differ".to_string())
}

fn diff(a: &Option<MigrationState>, b: &MigrationState) -> String {
    diff2(a, b).1
}

/// replace_migration(S) then get_migration / latest_migration on an account with no migration.
/// `full` also reads the path that is redundant for the state (latest_migration of a live
/// migration goes through the same row reader as get_migration) and counts the live rows.
fn save_load(conn: &mut Connection, account: AccountUuid, net: LocalNetwork, s: &MigrationState, ctx: &str, full: bool) -> Result<(), Viol> {
    {
        let mut st = store(conn, account, net)?;
        catch(|| st.replace_migration(s))
            .map_err(|p| viol(format!("persist:{ctx}:replace-panic"), format!("replace_migration panicked: {p}")))?
            .map_err(|e| viol(format!("persist:{ctx}:replace-refused"), format!("replace_migration refused a representable state: {e}")))?;
        let got = catch(|| st.get_migration())
            .map_err(|p| viol(format!("persist:{ctx}:get-panic"), format!("get_migration panicked: {p}")))?
            .map_err(|e| viol(format!("persist:{ctx}:get-error"), format!("get_migration failed after replace_migration: {e}")))?;
        if s.is_terminal() {
            if got.is_some() {
                return Err(viol(format!("persist:{ctx}:terminal-still-pending"), format!("a {:?} migration is still reported by get_migration", s.status())));
            }
        } else if got.as_ref() != Some(s) {
            let (f, m) = diff2(&got, s);
            return Err(viol(format!("persist:{ctx}:get!=saved:{f}"), format!("get_migration after replace_migration: {m}")));
        }
        if full || s.is_terminal() {
            let latest = catch(|| st.latest_migration())
                .map_err(|p| viol(format!("persist:{ctx}:latest-panic"), format!("latest_migration panicked: {p}")))?
                .map_err(|e| viol(format!("persist:{ctx}:latest-error"), format!("latest_migration failed: {e}")))?;
            if latest.as_ref() != Some(s) {
                let (f, m) = diff2(&latest, s);
                return Err(viol(format!("persist:{ctx}:latest!=saved:{f}"), format!("latest_migration after replace_migration: {m}")));
            }
        }
    }
    if full {
        let live = live_rows(conn);
        let want = if s.is_terminal() { 0 } else { 1 };
        if live != want {
            return Err(viol(format!("persist:{ctx}:live-rows"), format!("{live} non-terminal rows for the account after saving a {:?} migration (expected {want})", s.status())));
        }
    }
    Ok(())
}

/// Persistence check applied to every explored `MigrationState`.
pub fn roundtrip_explored(s: &MigrationState) -> Result<(), Viol> {
    with_db(|conn, account, net| save_load(conn, account, net, s, "explored", false))
}

// ------------------------------------------------------------------------------------------
// The shape lattice of representable states
// ------------------------------------------------------------------------------------------

pub const STATUSES: [MigrationStatus; 7] = [
    MigrationStatus::Planning,
    MigrationStatus::Committed,
    MigrationStatus::InProgress,
    MigrationStatus::Complete,
    MigrationStatus::Failed,
    MigrationStatus::Superseded,
    MigrationStatus::Cancelled,
];
const KINDS: [Option<UnsatisfiableKind>; 5] = [
    None,
    Some(UnsatisfiableKind::InputsSpent),
    Some(UnsatisfiableKind::InputsInvalidated),
    Some(UnsatisfiableKind::AnchorInvalidated),
    Some(UnsatisfiableKind::Inherited),
];
pub const N_PLANS: u8 = 4;

#[derive(Clone, Debug, Serialize, Deserialize)]
pub struct Point {
    pub status: u8,
    pub state: u8,
    pub mark: u8,
    pub report: bool,
    pub lock: bool,
    pub transfer: bool,
    pub plan: u8,
}

impl Point {
    pub fn label(&self) -> String {
        format!(
            "{}/{}/mark={}/report={}/lock={}/{}/plan{}",
            STATUSES[self.status as usize].wire_name(),
            super::model::INIT_NAMES[self.state as usize],
            KINDS[self.mark as usize].map(|k| k.as_ref().to_string()).unwrap_or_else(|| "none".into()),
            self.report,
            self.lock,
            if self.transfer { "transfer" } else { "preparation" },
            self.plan
        )
    }
}

fn z(v: u64) -> Zatoshis {
    Zatoshis::const_from_u64(v)
}
fn bh(h: u32) -> BlockHeight {
    BlockHeight::from_u32(h)
}
fn txid(i: u8, fill: u8) -> TxId {
    let mut b = [fill; 32];
    b[31] = i;
    TxId::from_bytes(b)
}

fn lattice_tx(i: u8, state: u8, mark: u8, report: bool, lock: bool, transfer: bool, deps: Vec<u32>) -> MigrationTransaction {
    // Heights on the edges of the column type as well as ordinary ones.
    let heights = [0u32, 1, 2_000_000, u32::MAX - 1, u32::MAX];
    let h = |n: u8| bh(heights[(n as usize) % heights.len()]);
    let id = txid(i, [0x00, 0xFF, 0x5A][(i as usize + state as usize) % 3]);
    let st = match state {
        0 => MigrationTxState::AwaitingSignature,
        1 => MigrationTxState::Signed,
        2 => MigrationTxState::Proved,
        3 => MigrationTxState::Broadcast { txid: id },
        _ => MigrationTxState::Mined { txid: id, height: h(i + mark) },
    };
    let kind = if transfer { MigrationTxKind::Transfer { crossing: i as usize } } else { MigrationTxKind::Preparation { layer: i as usize, index: (state as usize) % 2 } };
    MigrationTransaction::from_parts(
        MigrationTransferId::new(u32::from(i)),
        kind,
        // pczt bytes: empty, one byte, and a longer blob with zero bytes inside
        match (i + state) % 3 {
            0 => vec![],
            1 => vec![0x00],
            _ => (0..200u16).map(|b| (b % 7) as u8).collect(),
        },
        deps.into_iter().map(MigrationTransferId::new).collect(),
        h(state + 1),
        h(mark + 2),
        if transfer { Some(h(state + mark)) } else { None },
        id,
        st,
        if lock { Some(MigrationLockOwner::from_bytes([0xE0 | i; 32])) } else { None },
        KINDS[mark as usize].map(|k| (h(mark + i + 3), k)),
        // A non-mined row must carry a non-empty nullifier cache (an empty one is documented
        // corruption); a mined row may carry none.
        if state == 4 && i == 0 { vec![] } else { (0..=i).map(|n| [0x30 + n; 32]).collect() },
        if report { Some(h(i + 4)) } else { None },
    )
}

fn lattice_plan(plan: u8) -> (DenominationPlan, PreparationPlan, AnchorBucketInterval, ReplanThreshold) {
    let w = |index: usize, v: u64| PrepInput::Wallet { index, value: z(v) };
    let ptx = |i: Vec<PrepInput>, o: Vec<PrepOutput>| PrepTransaction::from_parts(i, o);
    let custom = |n: u32| AnchorBucketInterval::custom(std::num::NonZeroU32::new(n).unwrap());
    match plan {
        0 => (
            DenominationPlan::from_stored_parts(vec![], Zatoshis::ZERO, None, Zatoshis::ZERO, Zatoshis::ZERO, Zatoshis::ZERO).unwrap(),
            PreparationPlan::from_parts(vec![], vec![]),
            AnchorBucketInterval::ZIP_318,
            ReplanThreshold::DEFAULT,
        ),
        1 => (
            DenominationPlan::from_stored_parts(vec![z(1)], z(0), Some(z(0)), z(0), z(1), z(1)).unwrap(),
            PreparationPlan::from_parts(vec![vec![ptx(vec![w(0, 1)], vec![PrepOutput::Funding(z(1))])]], vec![]),
            custom(1),
            ReplanThreshold::new(0).unwrap(),
        ),
        2 => (
            // crossing + buffer exactly MAX_MONEY
            DenominationPlan::from_stored_parts(
                vec![z(2_099_999_999_990_000), z(5)],
                z(10_000),
                Some(z(2_100_000_000_000_000)),
                z(2_100_000_000_000_000),
                z(2_100_000_000_000_000),
                z(2_100_000_000_000_000),
            )
            .unwrap(),
            PreparationPlan::from_parts(vec![], vec![(0, z(2_100_000_000_000_000)), (usize::MAX >> 1, z(0))]),
            custom(u32::MAX),
            ReplanThreshold::new(100).unwrap(),
        ),
        _ => (
            DenominationPlan::from_stored_parts(vec![z(20_000), z(30_000), z(50_000)], z(10_000), None, z(45_000), z(400_000), z(100_000)).unwrap(),
            PreparationPlan::from_parts(
                vec![
                    vec![
                        ptx(vec![w(0, 200_000), w(3, 7)], vec![PrepOutput::Intermediate(z(150_000)), PrepOutput::Change(z(5)), PrepOutput::Funding(z(30_000))]),
                        ptx(vec![w(1, 100_000)], vec![PrepOutput::Funding(z(40_000))]),
                    ],
                    vec![ptx(
                        vec![PrepInput::Prior { layer: 0, transaction: 0, output: 0, value: z(150_000) }, PrepInput::Prior { layer: 0, transaction: 1, output: 0, value: z(40_000) }],
                        vec![PrepOutput::Funding(z(60_000)), PrepOutput::Change(z(1))],
                    )],
                ],
                vec![(2, z(30_000)), (5, z(40_000))],
            ),
            custom(4),
            ReplanThreshold::new(37).unwrap(),
        ),
    }
}

pub fn lattice_state(p: &Point) -> MigrationState {
    let (den, prep, grid, thr) = lattice_plan(p.plan);
    // Dependency lists in topological order (dependencies have lower ids) for one half of the
    // lattice and dependents-first (a reversed chain: 0 needs 1 needs 2) for the other: the
    // constructors and the stores accept any order.
    let deps: [Vec<u32>; 3] = if p.lock { [vec![1], vec![2], vec![]] } else { [vec![], vec![0], vec![1, 0]] };
    let [d0, d1, d2] = deps;
    let txs = vec![
        lattice_tx(0, p.state, p.mark, p.report, p.lock, p.transfer, d0),
        lattice_tx(1, (p.state + 1) % 5, (p.mark + 2) % 5, !p.report, !p.lock, !p.transfer, d1),
        lattice_tx(2, (p.state + 3) % 5, (p.mark + 4) % 5, p.report, !p.lock, true, d2),
    ];
    MigrationState::from_parts(STATUSES[p.status as usize], den, prep, txs, grid, thr)
}

/// A fixed, simple, non-terminal successor migration.
fn successor() -> MigrationState {
    let (den, prep, grid, thr) = lattice_plan(1);
    MigrationState::from_parts(MigrationStatus::Committed, den, prep, vec![lattice_tx(0, 1, 0, false, false, true, vec![])], grid, thr)
}

pub fn all_points(plans: &[u8]) -> Vec<Point> {
    let mut v = Vec::new();
    for status in 0..7u8 {
        for state in 0..5u8 {
            for mark in 0..5u8 {
                for report in [false, true] {
                    for lock in [false, true] {
                        for transfer in [false, true] {
                            for &plan in plans {
                                v.push(Point { status, state, mark, report, lock, transfer, plan });
                            }
                        }
                    }
                }
            }
        }
    }
    v
}

/// The full persistence protocol on one representable state. Returns an outcome class.
pub fn check_point(p: &Point) -> Result<&'static str, Viol> {
    let s = lattice_state(p);
    with_db(|conn, account, net| {
        {
            let st = store(conn, account, net)?;
            let empty = st.get_migration().map_err(|e| viol("persist:lattice:get-error", format!("get_migration on an empty account: {e}")))?;
            let latest = st.latest_migration().map_err(|e| viol("persist:lattice:latest-error", format!("latest_migration on an empty account: {e}")))?;
            if empty.is_some() || latest.is_some() {
                return Err(viol("persist:lattice:empty-not-none", "an account without a migration reports one"));
            }
        }
        save_load(conn, account, net, &s, "lattice", true)?;
        let first_uuid = {
            let st = store(conn, account, net)?;
            let l = st.list_migrations().map_err(|e| viol("persist:lattice:list-error", format!("list_migrations failed: {e}")))?;
            if l.len() != 1 || l[0].status() != s.status() {
                return Err(viol("persist:lattice:list", format!("list_migrations after one save returned {} entries / status {:?}", l.len(), l.first().map(|m| m.status()))));
            }
            l[0].id()
        };
        if !s.is_terminal() {
            // update_transaction, differentially against the two in-memory stores.
            let mut mock = MockBackend::new(vec![], 0);
            let _ = mock.replace_migration(&s);
            let mut scripted = Scripted::new(Some(s.clone()), 0, vec![], super::store::Oracle::AllOk);
            let row = &s.transactions()[0];
            for n in 0..5u8 {
                let new = match n {
                    0 => MigrationTxState::AwaitingSignature,
                    1 => MigrationTxState::Signed,
                    2 => MigrationTxState::Proved,
                    3 => MigrationTxState::Broadcast { txid: row.txid() },
                    _ => MigrationTxState::Mined { txid: row.txid(), height: bh(77) },
                };
                let mut st = store(conn, account, net)?;
                st.update_transaction(row.id(), new).map_err(|e| viol("persist:lattice:update-refused", format!("update_transaction({new:?}) failed: {e}")))?;
                let _ = mock.update_transaction(row.id(), new);
                let _ = scripted.update_transaction(row.id(), new);
                let a = st.get_migration().map_err(|e| viol("persist:lattice:get-error", format!("get_migration after update_transaction: {e}")))?;
                let b = mock.get_migration().unwrap_or_else(|e| match e {});
                let c = scripted.get_migration().unwrap_or_else(|e| match e {});
                if b != c {
                    return Err(viol("differential:update_transaction:mock", format!("MockBackend and the scripted store disagree after update_transaction({new:?})")));
                }
                if a != b {
                    return Err(viol(
                        "differential:update_transaction:sqlite",
                        format!("SQLite store and MockBackend disagree after update_transaction({new:?}): {}", b.as_ref().map(|b| diff(&a, b)).unwrap_or_default()),
                    ));
                }
            }
            // store_proved_transaction on every row in turn (whatever its state: the method and
            // ProvedTransaction::apply accept any). Documented effect on a row not yet broadcast: the proven bytes
            // replace the stored ones, the lock owner carried by the proof is recorded, the row
            // becomes Proved — and nothing else changes (mark, failure report, schedule ...). The
            // expectation is rebuilt from the parts, not by calling the code under test.
            for i in 0..s.transactions().len() {
                let mut st = store(conn, account, net)?;
                st.replace_migration(&s).map_err(|e| viol("persist:lattice:replace-refused", format!("re-persisting failed: {e}")))?;
                let bytes = vec![0x70, i as u8, 0x00, 0xEE];
                let expected = {
                    let txs = s
                        .transactions()
                        .iter()
                        .enumerate()
                        .map(|(n, t)| {
                            // A row that is already Broadcast or Mined is left exactly as it is
                            // (the late proof is dropped; a row never moves backwards).
                            if n != i || matches!(t.state(), MigrationTxState::Broadcast { .. } | MigrationTxState::Mined { .. }) {
                                return t.clone();
                            }
                            MigrationTransaction::from_parts(
                                t.id(),
                                t.kind(),
                                bytes.clone(),
                                t.depends_on().clone(),
                                t.scheduled_height(),
                                t.expiry_height(),
                                t.anchor_boundary(),
                                t.txid(),
                                MigrationTxState::Proved,
                                None,
                                t.unsatisfiable(),
                                t.spend_nullifiers().clone(),
                                t.broadcast_failure_at(),
                            )
                        })
                        .collect();
                    MigrationState::from_parts(s.status(), s.denominations().clone(), s.preparation().clone(), txs, s.anchor_bucket_interval(), s.replan_threshold())
                };
                let mut mem = s.clone();
                let proven = ProvedTransaction::from_parts(s.transactions()[i].id(), bytes.clone());
                catch(|| st.store_proved_transaction(&mut mem, proven))
                    .map_err(|p| viol("persist:lattice:store-proved-panic", format!("store_proved_transaction panicked: {p}")))?
                    .map_err(|e| viol("persist:lattice:store-proved-refused", format!("store_proved_transaction failed: {e}")))?;
                if mem != expected {
                    let (f, m) = diff2(&Some(mem), &expected);
                    return Err(viol(
                        format!("persist:store-proved:state-touched-beyond-proof:{f}"),
                        format!("store_proved_transaction on row {i} must only install the proven bytes, the Proved state and the lock owner; the in-memory state (vs expected): {m}"),
                    ));
                }
                let got = st.get_migration().map_err(|e| viol("persist:lattice:get-error", format!("get_migration after store_proved_transaction: {e}")))?;
                if got.as_ref() != Some(&expected) {
                    let (f, m) = diff2(&got, &expected);
                    return Err(viol(
                        format!("persist:store-proved:stored-touched-beyond-proof:{f}"),
                        format!("after store_proved_transaction on row {i} the stored migration (vs expected): {m}"),
                    ));
                }
            }
            // Restore the original for the second-migration part.
            let mut st = store(conn, account, net)?;
            st.replace_migration(&s).map_err(|e| viol("persist:lattice:replace-refused", format!("re-persisting failed: {e}")))?;
            drop(st);
            // The database itself refuses a second non-terminal row for the account.
            for status in ["planning", "committed", "in_progress"] {
                let r = conn.execute(
                    "INSERT INTO orchard_ironwood_migrations
                        (account_id, status, note_split_fee_buffer, note_split_prep_fees, note_split_total_input, note_split_total_migratable, uuid)
                     VALUES ((SELECT id FROM accounts LIMIT 1), ?, 0, 0, 0, 0, X'00112233445566778899AABBCCDDEEFF')",
                    [status],
                );
                if r.is_ok() {
                    return Err(viol(
                        format!("persist:second-live-row-accepted:{}+{status}", s.status().wire_name()),
                        format!("the database accepted a second non-terminal ({status}) migration row beside a {:?} one", s.status()),
                    ));
                }
            }
        }
        // A second migration through the store.
        let s2 = successor();
        {
            let mut st = store(conn, account, net)?;
            st.replace_migration(&s2).map_err(|e| viol("persist:lattice:successor-refused", format!("persisting a successor after a {:?} migration failed: {e}", s.status())))?;
            let got = st.get_migration().map_err(|e| viol("persist:lattice:get-error", format!("get_migration: {e}")))?;
            if got.as_ref() != Some(&s2) {
                return Err(viol("persist:lattice:successor-not-current", format!("after persisting a successor, get_migration: {}", diff(&got, &s2))));
            }
            let latest = st.latest_migration().map_err(|e| viol("persist:lattice:latest-error", format!("latest_migration: {e}")))?;
            if latest.as_ref() != Some(&s2) {
                return Err(viol("persist:lattice:successor-not-latest", format!("after persisting a successor, latest_migration: {}", diff(&latest, &s2))));
            }
            let l = st.list_migrations().map_err(|e| viol("persist:lattice:list-error", format!("list_migrations failed: {e}")))?;
            if s.is_terminal() {
                // The terminal record is retained history beside its successor.
                if l.len() != 2 {
                    return Err(viol("persist:lattice:history-lost", format!("{} records after a terminal migration and its successor (expected 2)", l.len())));
                }
                let old = st.get_migration_by_id(first_uuid).map_err(|e| viol("persist:lattice:by-id-error", format!("get_migration_by_id: {e}")))?;
                if old.as_ref() != Some(&s) {
                    return Err(viol("persist:lattice:history-changed", format!("the retained terminal record: {}", diff(&old, &s))));
                }
            } else if l.len() != 1 || l[0].id() != first_uuid {
                // A live migration is re-persisted in place: one record, same identity.
                return Err(viol("persist:lattice:live-identity", format!("{} records after re-persisting a live migration, identity kept: {}", l.len(), l.first().map(|m| m.id() == first_uuid).unwrap_or(false))));
            }
        }
        if live_rows(conn) != 1 {
            return Err(viol("persist:lattice:live-rows", format!("{} non-terminal rows after the successor was persisted", live_rows(conn))));
        }
        let _ = all_rows(conn);
        Ok(if s.is_terminal() { "lattice:terminal+successor" } else { "lattice:live-replaced-in-place" })
    })
}

// ------------------------------------------------------------------------------------------
// The engine's commit guard over the SQLite store
// ------------------------------------------------------------------------------------------

struct GuardBackend<'c> {
    store: Store<'c>,
}
impl MigrationBackend for GuardBackend<'_> {
    type Error = String;
    fn spendable_orchard_note_values(&self) -> Result<Vec<Zatoshis>, String> {
        Ok(vec![])
    }
    fn chain_tip_height(&self) -> Result<BlockHeight, String> {
        Ok(bh(100))
    }
    fn scheduling_params(&self) -> SchedulingParams {
        SchedulingParams::ZIP_318
    }
}
impl MigrationCrypto for GuardBackend<'_> {
    type Error = String;
    fn orchard_fvk(&self) -> Option<&orchard::keys::FullViewingKey> {
        None
    }
    fn account_derivation(&self) -> Result<Option<AccountDerivation>, String> {
        Ok(None)
    }
    fn resolve_wallet_note(&self, _index: usize) -> Result<orchard::note::Note, String> {
        Err("no notes".into())
    }
}
impl PoolMigrationRead for GuardBackend<'_> {
    type Error = String;
    fn get_migration(&self) -> Result<Option<MigrationState>, String> {
        self.store.get_migration().map_err(|e| e.to_string())
    }
    fn check_step_satisfiability(&self, tx: &MigrationTransaction, settle: ReorgSettleDepth) -> Result<StepSatisfiability, String> {
        self.store.check_step_satisfiability(tx, settle).map_err(|e| e.to_string())
    }
    fn mined_height(&self, txid: TxId) -> Result<Option<BlockHeight>, String> {
        self.store.mined_height(txid).map_err(|e| e.to_string())
    }
}
impl PoolMigrationWrite for GuardBackend<'_> {
    fn replace_migration(&mut self, state: &MigrationState) -> Result<(), String> {
        self.store.replace_migration(state).map_err(|e| e.to_string())
    }
    fn update_transaction(&mut self, id: MigrationTransferId, state: MigrationTxState) -> Result<(), String> {
        self.store.update_transaction(id, state).map_err(|e| e.to_string())
    }
    fn store_proved_transaction(&mut self, state: &mut MigrationState, proven: ProvedTransaction) -> Result<(), String> {
        self.store.store_proved_transaction(state, proven).map_err(|e| e.to_string())
    }
}

/// `commit_preparation` over the SQLite store holding a migration of status `status`: refused
/// (`MigrationInProgress`) exactly when the stored migration is non-terminal. The backend offers no
/// viewing key, so a commit that passes the guard stops at `NoOrchardViewingKey` before building.
pub fn check_commit_guard(status: u8) -> Result<&'static str, Viol> {
    let p = Point { status, state: 1, mark: 0, report: false, lock: false, transfer: true, plan: 3 };
    let s = lattice_state(&p);
    let params = zcash_pool_migration_memory::regtest_network(true);
    let planner = MockBackend::new(vec![78 * 100_000_000], 100);
    let mut rng = <rand_chacha::ChaCha8Rng as rand_core::SeedableRng>::seed_from_u64(13);
    let plan = plan_migration(&params, &planner, &mut rng).map_err(|_| viol("machinery", "plan_migration failed for the guard fixture"))?;
    let sk = zcash_pool_migration_memory::spending_key(13);
    with_db(|conn, account, net| {
        {
            let mut st = store(conn, account, net)?;
            st.replace_migration(&s).map_err(|e| viol("persist:guard:replace-refused", format!("replace_migration: {e}")))?;
        }
        let mut backend = GuardBackend { store: store(conn, account, net)? };
        let r = catch(|| commit_preparation(&params, bh(zcash_pool_migration_memory::TARGET_HEIGHT), &mut backend, &sk, &plan, &mut rng, ReplanThreshold::DEFAULT))
            .map_err(|p| viol("panic:commit_preparation", p))?;
        match (s.is_terminal(), r) {
            (false, Err(CommitError::MigrationInProgress)) => Ok("guard:refused-live"),
            (true, Err(CommitError::NoOrchardViewingKey)) => Ok("guard:admitted-after-terminal"),
            (live, other) => Err(viol(
                format!("commit-guard:{}", s.status().wire_name()),
                format!("commit_preparation over a stored {:?} migration (terminal: {}) returned {:?}", s.status(), live, other.map(|_| "Ok(state)").map_err(|e| e.to_string())),
            )),
        }
    })
}

// ------------------------------------------------------------------------------------------
// The repository's own strategies and conformance suite as an additional value source
// ------------------------------------------------------------------------------------------

/// Draw `n` states from `zcash_pool_migration::testing::arb_migration_state` with a fixed-seed
/// runner (a deterministic value source; nothing is decided by sampling) and run the repository's
/// store conformance suite on the SQLite store for each.
pub fn conformance_values(n: usize) -> Result<usize, Viol> {
    use proptest::strategy::{Strategy, ValueTree};
    use proptest::test_runner::TestRunner;
    use zcash_pool_migration::testing::{arb_migration_state, assert_put_get_roundtrip, assert_put_replaces, assert_update_transaction, first_transaction_id};
    let mut runner = TestRunner::deterministic();
    let strat = arb_migration_state();
    let mut prev: Option<MigrationState> = None;
    for i in 0..n {
        let s = strat.new_tree(&mut runner).map_err(|e| viol("machinery", format!("strategy failed: {e}")))?.current();
        let r = with_db(|conn, account, net| {
            let mut st = store(conn, account, net)?;
            catch(|| assert_put_get_roundtrip(&mut st, &s)).map_err(|p| viol("persist:conformance:put-get", format!("generated state #{i}: {p}")))?;
            if let Some(id) = first_transaction_id(&s) {
                catch(|| assert_update_transaction(&mut st, &s, id, MigrationTxState::Proved)).map_err(|p| viol("persist:conformance:update", format!("generated state #{i}: {p}")))?;
            }
            Ok::<(), Viol>(())
        });
        r?;
        if let Some(first) = &prev {
            // put-replaces is only defined for a live first migration (a terminal one is retained).
            if !first.is_terminal() {
                with_db(|conn, account, net| {
                    let mut st = store(conn, account, net)?;
                    catch(|| assert_put_replaces(&mut st, first, &s)).map_err(|p| viol("persist:conformance:put-replaces", format!("generated states #{} then #{i}: {p}", i - 1)))
                })?;
            }
        }
        prev = Some(s);
    }
    Ok(n)
}

// ------------------------------------------------------------------------------------------
// Wallet-driven rollback commutes with the in-memory rollback
// ------------------------------------------------------------------------------------------
//
// The SQLite store is never told about a reorg directly: `WalletWrite::truncate_to_height` (and
// `rewind_to_chain_state`, which ends in the same `truncate_to_height_internal`) rolls every stored
// migration back inside the wallet's own transaction, at the height the wallet ACHIEVED. The
// oracle: the migration loaded back after the wallet-level truncation equals
// `MigrationState::truncate_to_height(achieved)` applied to the state that was saved — except for
// the policy-terminal statuses (failed / superseded / cancelled), which the store's truncation walk
// documents as left untouched ("record decisions, not chain state, and stay put").

use zcash_client_backend::data_api::WalletWrite as _;
use zcash_client_sqlite::testing::BlockCache;

/// Number of empty blocks the rollback wallet has scanned (heights lo ..= lo + RB_BLOCKS - 1).
const RB_BLOCKS: u32 = 26;

struct RbDb {
    st: TestState<BlockCache, TestDb, LocalNetwork>,
    account: AccountUuid,
    snap: Connection,
    lo: u32,
    hi: u32,
}

thread_local! {
    static RB: RefCell<Option<RbDb>> = const { RefCell::new(None) };
}

fn with_rb<R>(f: impl FnOnce(&mut RbDb) -> R) -> R {
    let _permit = Permit::take();
    RB.with(|cell| {
        let mut g = cell.borrow_mut();
        if g.is_none() {
            let mut st = TestBuilder::new()
                .with_data_store_factory(TestDbFactory::default())
                .with_block_cache(BlockCache::new())
                .with_account_from_sapling_activation(BlockHash([0; 32]))
                .build();
            let account = st.test_account().expect("test account").account().id();
            let lo = u32::from(st.sapling_activation_height());
            let hi = u32::from(st.generate_and_scan_empty_blocks(RB_BLOCKS as usize));
            let mut snap = Connection::open_in_memory().expect("snapshot db");
            {
                let b = rusqlite::backup::Backup::new(st.wallet().conn(), &mut snap).expect("backup init");
                b.run_to_completion(1 << 20, std::time::Duration::from_millis(0), None).expect("backup");
            }
            *g = Some(RbDb { st, account, snap, lo, hi });
        }
        f(g.as_mut().unwrap())
    })
}

fn rb_restore(db: &mut RbDb) {
    let conn = db.st.wallet_mut().conn_mut();
    conn.flush_prepared_statement_cache();
    let b = rusqlite::backup::Backup::new(&db.snap, conn).expect("restore init");
    b.run_to_completion(1 << 20, std::time::Duration::from_millis(0), None).expect("restore");
}

/// `s` with every height moved up by `off` (an expiry of 0, "never", stays 0). The lifecycle logic
/// only compares heights, so the translated state behaves exactly like the original.
pub fn shift_heights(s: &MigrationState, off: u32) -> MigrationState {
    let up = |h: BlockHeight| bh(u32::from(h) + off);
    let txs = s
        .transactions()
        .iter()
        .map(|t| {
            let state = match t.state() {
                MigrationTxState::Mined { txid, height } => MigrationTxState::Mined { txid, height: up(height) },
                other => other,
            };
            MigrationTransaction::from_parts(
                t.id(),
                t.kind(),
                t.pczt().clone(),
                t.depends_on().clone(),
                up(t.scheduled_height()),
                if u32::from(t.expiry_height()) == 0 { t.expiry_height() } else { up(t.expiry_height()) },
                t.anchor_boundary().map(up),
                t.txid(),
                state,
                t.lock_owner(),
                t.unsatisfiable().map(|(h, k)| (up(h), k)),
                t.spend_nullifiers().clone(),
                t.broadcast_failure_at().map(up),
            )
        })
        .collect();
    MigrationState::from_parts(s.status(), s.denominations().clone(), s.preparation().clone(), txs, s.anchor_bucket_interval(), s.replan_threshold())
}

fn policy_terminal(s: MigrationStatus) -> bool {
    matches!(s, MigrationStatus::Failed | MigrationStatus::Superseded | MigrationStatus::Cancelled)
}

/// Save `saved` (heights already in the wallet's scanned range), truncate the WALLET to `h`, load
/// the migration back and compare with the in-memory rollback at the achieved height.
fn wallet_rollback_at(db: &mut RbDb, saved: &MigrationState, h: u32, ctx: &str) -> Result<&'static str, Viol> {
    rb_restore(db);
    let net = *db.st.network();
    let account = db.account;
    {
        let mut st = store(db.st.wallet_mut().conn_mut(), account, net)?;
        st.replace_migration(saved).map_err(|e| viol(format!("persist:{ctx}:replace-refused"), format!("replace_migration before the wallet truncation: {e}")))?;
    }
    let achieved = catch(|| db.st.wallet_mut().truncate_to_height(bh(h)))
        .map_err(|p| viol(format!("persist:{ctx}:wallet-truncate-panic"), format!("WalletWrite::truncate_to_height panicked: {p}")))?
        .map_err(|e| viol("machinery", format!("the wallet refused to truncate to {h}: {e:?}")))?;
    let mut expected = saved.clone();
    if !policy_terminal(saved.status()) {
        expected.truncate_to_height(achieved);
    }
    let st = store(db.st.wallet_mut().conn_mut(), account, net)?;
    let latest = st.latest_migration().map_err(|e| viol(format!("persist:{ctx}:wallet-rollback:latest-error"), format!("latest_migration after the wallet truncation: {e}")))?;
    if latest.as_ref() != Some(&expected) {
        let (f, m) = diff2(&latest, &expected);
        return Err(viol(
            format!("persist:{ctx}:wallet-rollback!=in-memory-rollback:{f}"),
            format!(
                "after replace_migration and WalletWrite::truncate_to_height({h}) (achieved {}), the stored migration differs from MigrationState::truncate_to_height({}) of the saved state (read back vs expected): {m}",
                u32::from(achieved),
                u32::from(achieved)
            ),
        ));
    }
    let pending = st.get_migration().map_err(|e| viol(format!("persist:{ctx}:wallet-rollback:get-error"), format!("get_migration after the wallet truncation: {e}")))?;
    let want = (!expected.is_terminal()).then(|| expected.clone());
    if pending != want {
        return Err(viol(
            format!("persist:{ctx}:wallet-rollback:pending-read"),
            format!("get_migration after the wallet truncation returns {} although the rolled-back migration is {:?}", if pending.is_some() { "a migration" } else { "nothing" }, expected.status()),
        ));
    }
    Ok(if expected == *saved { "wallet-rollback:unchanged" } else { "wallet-rollback:rolled-back" })
}

/// The Rollback event of the explored model, through the real wallet: `pre` is the model state
/// before the rollback (model heights, all >= `model_floor`), `h` the model height rolled back to.
pub fn wallet_rollback_explored(pre: &MigrationState, h: u32, model_floor: u32) -> Result<&'static str, Viol> {
    with_rb(|db| {
        let off = db.lo + 1 - model_floor.min(db.lo + 1);
        if h + off < db.lo || h + off > db.hi {
            return Err(viol("machinery", format!("rollback height {h} outside the rollback wallet's scanned range")));
        }
        wallet_rollback_at(db, &shift_heights(pre, off), h + off, "explored")
    })
}

/// One point of the rollback lattice: every chain-derived height of the state is placed at
/// H + d for d in {-1, 0, +1, +2} around the truncation height H.
#[derive(Clone, Debug, Serialize, Deserialize)]
pub struct RbPoint {
    pub status: u8,
    /// 0..3: AwaitingSignature, Signed, Proved, Broadcast; 4..7: Mined at H-1, H, H+1, H+2.
    pub state: u8,
    /// 0: no mark; 1..4: mark resting at H-1, H, H+1, H+2 (kinds rotate).
    pub mark: u8,
    /// 0: no failure report; 1..4: reported tip H-1, H, H+1, H+2.
    pub report: u8,
}

impl RbPoint {
    pub fn label(&self) -> String {
        let d = |n: u8| ["H-1", "H", "H+1", "H+2"][(n - 1) as usize % 4];
        format!(
            "{}/{}/mark@{}/report@{}",
            STATUSES[self.status as usize].wire_name(),
            if self.state < 4 { super::model::INIT_NAMES[self.state as usize].to_string() } else { format!("Mined@{}", d(self.state - 3)) },
            if self.mark == 0 { "none" } else { d(self.mark) },
            if self.report == 0 { "none" } else { d(self.report) }
        )
    }
}

pub fn rollback_points() -> Vec<RbPoint> {
    let mut v = Vec::new();
    for status in 0..7u8 {
        for state in 0..8u8 {
            for mark in 0..5u8 {
                for report in 0..5u8 {
                    v.push(RbPoint { status, state, mark, report });
                }
            }
        }
    }
    v
}

fn rb_tx(i: u8, state: u8, mark: u8, report: u8, h: u32, deps: Vec<u32>) -> MigrationTransaction {
    let at = |n: u8| bh(h + u32::from(n) - 2); // n in 1..=4 -> H-1 ..= H+2
    let id = txid(i, 0x7A);
    let st = match state {
        0 => MigrationTxState::AwaitingSignature,
        1 => MigrationTxState::Signed,
        2 => MigrationTxState::Proved,
        3 => MigrationTxState::Broadcast { txid: id },
        n => MigrationTxState::Mined { txid: id, height: at(n - 3) },
    };
    let transfer = (i + state) % 2 == 0;
    MigrationTransaction::from_parts(
        MigrationTransferId::new(u32::from(i)),
        if transfer { MigrationTxKind::Transfer { crossing: i as usize } } else { MigrationTxKind::Preparation { layer: 0, index: i as usize } },
        vec![0x52, i],
        deps.into_iter().map(MigrationTransferId::new).collect(),
        bh(h + 3),
        bh(h + 40),
        if transfer { Some(at(1 + (state + mark) % 4)) } else { None },
        id,
        st,
        None,
        if mark == 0 { None } else { Some((at(mark), KINDS[1 + ((mark + i) % 4) as usize].expect("a kind"))) },
        vec![[0x60 + i; 32]],
        if report == 0 { None } else { Some(at(report)) },
    )
}

pub fn rollback_state(p: &RbPoint, h: u32) -> MigrationState {
    let (den, prep, grid, thr) = lattice_plan(3);
    let txs = vec![rb_tx(0, p.state, p.mark, p.report, h, vec![]), rb_tx(1, (p.state + 3) % 8, (p.mark + 2) % 5, (p.report + 1) % 5, h, vec![0])];
    MigrationState::from_parts(STATUSES[p.status as usize], den, prep, txs, grid, thr)
}

pub fn check_rollback_point(p: &RbPoint) -> Result<&'static str, Viol> {
    with_rb(|db| {
        let h = db.lo + 10;
        wallet_rollback_at(db, &rollback_state(p, h), h, "lattice")
    })
}
