//! The explored model: configurations, environment, events, the transition function (every event
//! is executed on the real `MigrationState` / `advance_migration` code) and the invariants.

use std::cell::RefCell;
use std::collections::{BTreeMap, HashSet};

use mc_core::catch;
use mc_core::explore::Subject;
use serde::{Deserialize, Serialize};
use zcash_pool_migration::denomination::DenominationPlan;
use zcash_pool_migration::engine::{
    MigrationState, MigrationStatus, MigrationTransaction, MigrationTransferId, MigrationTxKind, MigrationTxState,
    PoolMigrationRead, PoolMigrationWrite, ProvedTransaction,
};
use zcash_pool_migration::preparation::{PrepInput, PrepOutput, PrepTransaction, PreparationPlan};
use zcash_pool_migration::satisfiability::{
    advance_migration, Advance, AdvanceConfig, DuenessTargets, ReorgSettleDepth, ReplanThreshold, UnsatisfiableKind,
};
use zcash_pool_migration::scheduling::{AnchorBucketInterval, PROVABLE_ANCHOR_DEPTH};
use zcash_pool_migration::state::{AdvanceStep, Blocker};
use zcash_pool_migration_memory::MockBackend;
use zcash_protocol::consensus::BlockHeight;
use zcash_protocol::value::Zatoshis;

use super::store::{answer, nullifier, txid_of, Oracle, ScriptRng, Scripted};

/// Scanned tip of every initial state. Scheduled/expiry heights are T0 + {2,4,6,8}.
pub const T0: u32 = 20;
/// Anchor grid. With the default ZIP 318 ratio this gives a transfer-delay mean of 66*4/144 -> 1
/// block, i.e. an overdue-shift tolerance of exactly 1 block, so "one block late" and "two blocks
/// late" lie on either side of the shift trigger.
pub const INTERVAL: u32 = 4;
/// The tip never moves above this height (bound of the height dimension).
pub const TIP_MAX: u32 = 33;
/// Rollbacks never go below this height.
pub const FLOOR: u32 = 15;
pub const N: usize = 3;

#[derive(Clone, Copy, Debug, PartialEq, Eq, Hash, Serialize, Deserialize)]
pub enum Dag {
    Chain,
    Fork,
    Join,
    Independent,
    PrepTwoTransfers,
    /// The 3-chain listed DEPENDENTS-FIRST: the vector / id order is the reverse of a topological
    /// order (transfer, then the layer-1 preparation it needs, then the layer-0 root).
    /// `MigrationState::from_parts` and the stores accept any order.
    ChainReversed,
    /// The 3-chain in a mixed order: transfer (needs id 2), layer-0 root, layer-1 preparation
    /// (needs id 1) — one edge points forward in the vector and one backward.
    ChainMixed,
}
pub const DAGS: [Dag; 7] = [Dag::Chain, Dag::Fork, Dag::Join, Dag::Independent, Dag::PrepTwoTransfers, Dag::ChainReversed, Dag::ChainMixed];

pub struct ProfileDef {
    pub name: &'static str,
    pub sched: [u32; N],
    pub expiry: [u32; N],
    /// Anchor boundary of every transfer (a grid height). 8 is settled at T0 (8+10 < 21); 12 settles
    /// only once the scanned target reaches 23.
    pub boundary: u32,
}
pub const PROFILES: [ProfileDef; 4] = [
    ProfileDef { name: "spread/no-expiry", sched: [22, 24, 26], expiry: [0, 0, 0], boundary: 8 },
    ProfileDef { name: "spread/tight-expiry", sched: [22, 24, 26], expiry: [24, 26, 28], boundary: 12 },
    ProfileDef { name: "tied/mixed-expiry", sched: [22, 22, 22], expiry: [26, 24, 0], boundary: 8 },
    ProfileDef { name: "reversed/mixed-expiry", sched: [26, 24, 22], expiry: [28, 0, 24], boundary: 12 },
];

fn z(v: u64) -> Zatoshis {
    Zatoshis::const_from_u64(v)
}
fn bh(h: u32) -> BlockHeight {
    BlockHeight::from_u32(h)
}
pub fn tid(i: usize) -> MigrationTransferId {
    MigrationTransferId::new(i as u32)
}

pub struct Shape {
    pub kinds: [MigrationTxKind; N],
    pub deps: [Vec<usize>; N],
    pub crossings: Vec<u64>,
}

pub fn shape(dag: Dag) -> Shape {
    use MigrationTxKind::{Preparation as P, Transfer as T};
    match dag {
        Dag::Chain => Shape {
            kinds: [P { layer: 0, index: 0 }, P { layer: 1, index: 0 }, T { crossing: 0 }],
            deps: [vec![], vec![0], vec![1]],
            crossings: vec![100_000],
        },
        Dag::Fork => Shape {
            kinds: [P { layer: 0, index: 0 }, P { layer: 1, index: 0 }, T { crossing: 0 }],
            deps: [vec![], vec![0], vec![0]],
            crossings: vec![100_000],
        },
        Dag::Join => Shape {
            kinds: [P { layer: 0, index: 0 }, P { layer: 0, index: 1 }, T { crossing: 0 }],
            deps: [vec![], vec![], vec![0, 1]],
            crossings: vec![100_000],
        },
        // Shares 20% / 30% / 50% of planned value: exactly at, and above, the default 20% replan
        // threshold (strict comparison).
        Dag::Independent => Shape {
            kinds: [T { crossing: 0 }, T { crossing: 1 }, T { crossing: 2 }],
            deps: [vec![], vec![], vec![]],
            crossings: vec![20_000, 30_000, 50_000],
        },
        Dag::PrepTwoTransfers => Shape {
            kinds: [P { layer: 0, index: 0 }, T { crossing: 0 }, T { crossing: 1 }],
            deps: [vec![], vec![0], vec![0]],
            crossings: vec![20_000, 80_000],
        },
        Dag::ChainReversed => Shape {
            kinds: [T { crossing: 0 }, P { layer: 1, index: 0 }, P { layer: 0, index: 0 }],
            deps: [vec![1], vec![2], vec![]],
            crossings: vec![100_000],
        },
        Dag::ChainMixed => Shape {
            kinds: [T { crossing: 0 }, P { layer: 0, index: 0 }, P { layer: 1, index: 0 }],
            deps: [vec![2], vec![], vec![1]],
            crossings: vec![100_000],
        },
    }
}

const FEE_BUFFER: u64 = 10_000;

fn preparation_plan(dag: Dag) -> PreparationPlan {
    let w = |index: usize, v: u64| PrepInput::Wallet { index, value: z(v) };
    let prior = |layer, transaction, output, v: u64| PrepInput::Prior { layer, transaction, output, value: z(v) };
    let ptx = |i: Vec<PrepInput>, o: Vec<PrepOutput>| PrepTransaction::from_parts(i, o);
    match dag {
        Dag::Chain | Dag::ChainReversed | Dag::ChainMixed => PreparationPlan::from_parts(
            vec![
                vec![ptx(vec![w(0, 150_000)], vec![PrepOutput::Intermediate(z(130_000)), PrepOutput::Change(z(5_000))])],
                vec![ptx(vec![prior(0, 0, 0, 130_000)], vec![PrepOutput::Funding(z(110_000))])],
            ],
            vec![],
        ),
        Dag::Fork => PreparationPlan::from_parts(
            vec![
                vec![ptx(vec![w(0, 250_000)], vec![PrepOutput::Funding(z(110_000)), PrepOutput::Intermediate(z(120_000))])],
                vec![ptx(vec![prior(0, 0, 1, 120_000)], vec![PrepOutput::Change(z(105_000))])],
            ],
            vec![],
        ),
        Dag::Join => PreparationPlan::from_parts(
            vec![vec![
                ptx(vec![w(0, 70_000)], vec![PrepOutput::Funding(z(55_000))]),
                ptx(vec![w(1, 70_000), w(2, 1_000)], vec![PrepOutput::Funding(z(55_000))]),
            ]],
            vec![],
        ),
        Dag::Independent => PreparationPlan::from_parts(vec![], vec![(0, z(30_000)), (1, z(40_000)), (2, z(60_000))]),
        Dag::PrepTwoTransfers => PreparationPlan::from_parts(
            vec![vec![ptx(vec![w(0, 140_000)], vec![PrepOutput::Funding(z(30_000)), PrepOutput::Funding(z(90_000)), PrepOutput::Change(z(5_000))])]],
            vec![],
        ),
    }
}

pub fn interval() -> AnchorBucketInterval {
    AnchorBucketInterval::custom(std::num::NonZeroU32::new(INTERVAL).unwrap())
}

/// Per-transaction initial lifecycle state, indexed 0..5.
pub const INIT_NAMES: [&str; 5] = ["AwaitingSignature", "Signed", "Proved", "Broadcast", "Mined"];

/// Height an initially-mined transaction `i` was mined at (below T0, pairwise distinct so a
/// rollback can un-mine them selectively).
pub fn init_mined_height(i: usize) -> u32 {
    17 + i as u32
}

pub fn init_digits(k: u8) -> [u8; N] {
    [k % 5, (k / 5) % 5, (k / 25) % 5]
}

#[derive(Clone, Debug, PartialEq, Eq, Hash)]
pub struct Env {
    /// The wallet's fully scanned tip (= the chain tip the wallet knows).
    pub tip: u32,
    /// Height at which transaction i is on the scanned chain.
    pub chain: [Option<u32>; N],
    /// Transaction i was accepted by the network at some point (it can be mined).
    pub mempool: [bool; N],
    /// A broadcast of i was acknowledged by the node but the consumer's record has not landed yet.
    pub unrecorded: [bool; N],
}

/// The per-transaction fields of a MigrationState that an event can change. Everything else (ids,
/// kinds, dependencies, expiries, txids, nullifier caches, lock owners, the two plans, the grid and
/// the threshold) is constant within a search and lives in the model's template.
#[derive(Clone, Debug, PartialEq, Eq)]
pub struct CTx {
    pub state: MigrationTxState,
    pub sched: BlockHeight,
    pub boundary: Option<BlockHeight>,
    pub mark: Option<(BlockHeight, UnsatisfiableKind)>,
    pub report: Option<BlockHeight>,
    /// Which bytes the stored PCZT holds: 0 = as committed, 1 = externally signed, 2 = proven.
    pub pczt: u8,
}

/// A MigrationState in compact form: lossless relative to the model's template (verified after
/// every transition: expanding the compact form must give back exactly the state the real code
/// produced). The search keeps states in this form only to bound memory; every event runs on the
/// expanded, real `MigrationState`.
#[derive(Clone, Debug, PartialEq, Eq)]
pub struct Compact {
    pub status: MigrationStatus,
    pub txs: [CTx; N],
}

pub fn pczt_bytes(tag: u8, i: usize) -> Vec<u8> {
    vec![[0x50, 0x60, 0x70][tag as usize], i as u8]
}

pub fn to_compact(ms: &MigrationState) -> Result<Compact, String> {
    let t = ms.transactions();
    if t.len() != N {
        return Err(format!("{} transactions", t.len()));
    }
    let one = |i: usize| -> Result<CTx, String> {
        let x = &t[i];
        let pczt = (0..3u8).find(|tag| pczt_bytes(*tag, i) == *x.pczt()).ok_or_else(|| format!("unknown pczt bytes {:?}", x.pczt()))?;
        Ok(CTx { state: x.state(), sched: x.scheduled_height(), boundary: x.anchor_boundary(), mark: x.unsatisfiable(), report: x.broadcast_failure_at(), pczt })
    };
    Ok(Compact { status: ms.status(), txs: [one(0)?, one(1)?, one(2)?] })
}

pub fn expand(template: &MigrationState, c: &Compact) -> MigrationState {
    let txs = template
        .transactions()
        .iter()
        .enumerate()
        .map(|(i, t)| {
            let x = &c.txs[i];
            MigrationTransaction::from_parts(
                t.id(),
                t.kind(),
                pczt_bytes(x.pczt, i),
                t.depends_on().clone(),
                x.sched,
                t.expiry_height(),
                x.boundary,
                t.txid(),
                x.state,
                t.lock_owner(),
                x.mark,
                t.spend_nullifiers().clone(),
                x.report,
            )
        })
        .collect();
    MigrationState::from_parts(c.status, template.denominations().clone(), template.preparation().clone(), txs, template.anchor_bucket_interval(), template.replan_threshold())
}

#[derive(Clone)]
pub struct Live {
    pub c: Compact,
    pub env: Env,
    /// Number of events executed since the migration became terminal (0 while it is live or has
    /// just become terminal). A terminal migration is followed for TERM_FOLLOW further events.
    pub term_age: u8,
    /// Number of events since the initial state (bookkeeping only: not part of the state key; a
    /// breadth-first search reaches every state first at its least depth).
    pub depth: u8,
}

/// How many events a terminal migration is followed for. Every event enabled in a terminal state
/// is still executed (and checked) from every terminal state that is expanded; only the depth of
/// the exploration *behind* a terminal status is bounded.
pub const TERM_FOLLOW: u8 = 2;

#[derive(Clone)]
pub enum St {
    Root,
    Live(Live),
}

pub fn initial(dag: Dag, profile: u8, k: u8) -> (MigrationState, Env) {
    let sh = shape(dag);
    let pr = &PROFILES[profile as usize];
    let digits = init_digits(k);
    let mut env = Env { tip: T0, chain: [None; N], mempool: [false; N], unrecorded: [false; N] };
    let mut txs = Vec::new();
    for i in 0..N {
        let txid = txid_of(i as u32);
        let state = match digits[i] {
            0 => MigrationTxState::AwaitingSignature,
            1 => MigrationTxState::Signed,
            2 => MigrationTxState::Proved,
            3 => {
                env.mempool[i] = true;
                MigrationTxState::Broadcast { txid }
            }
            _ => {
                env.mempool[i] = true;
                env.chain[i] = Some(init_mined_height(i));
                MigrationTxState::Mined { txid, height: bh(init_mined_height(i)) }
            }
        };
        let boundary = match sh.kinds[i] {
            MigrationTxKind::Transfer { .. } => Some(bh(pr.boundary)),
            MigrationTxKind::Preparation { .. } => None,
        };
        txs.push(MigrationTransaction::from_parts(
            tid(i),
            sh.kinds[i],
            // a row that starts out proved (or later) holds the proven bytes
            pczt_bytes(if digits[i] >= 2 { 2 } else { 0 }, i),
            sh.deps[i].iter().map(|d| tid(*d)).collect(),
            bh(pr.sched[i]),
            bh(pr.expiry[i]),
            boundary,
            txid,
            state,
            None,
            None,
            vec![nullifier(i as u32)],
            None,
        ));
    }
    let all_mined = digits.iter().all(|d| *d == 4);
    let any_started = digits.iter().any(|d| *d >= 3);
    let status = if all_mined {
        MigrationStatus::Complete
    } else if any_started {
        MigrationStatus::InProgress
    } else {
        MigrationStatus::Committed
    };
    let total: u64 = sh.crossings.iter().sum();
    let denominations = DenominationPlan::from_stored_parts(
        sh.crossings.iter().map(|c| z(*c)).collect(),
        z(FEE_BUFFER),
        Some(z(1_234)),
        z(15_000),
        z(total + 100_000),
        z(total),
    )
    .expect("crossing + buffer in range");
    let ms = MigrationState::from_parts(status, denominations, preparation_plan(dag), txs, interval(), ReplanThreshold::DEFAULT);
    (ms, env)
}

#[derive(Clone, Copy, Debug, PartialEq, Eq, Hash, Serialize, Deserialize)]
pub enum Resp {
    /// The consumer does nothing with the returned step (it needs no action, or the consumer
    /// stopped before acting).
    Ignore,
    ProveAll,
    ProveFirst,
    BroadcastOk,
    BroadcastOkNotRecorded,
    /// The node rejected the broadcast; the consumer reports the node's tip = scanned tip + n.
    BroadcastFail(u8),
    Supersede,
}

#[derive(Clone, Copy, Debug, PartialEq, Eq, Hash, Serialize, Deserialize)]
pub enum TipKind {
    Plus1,
    ToNextScheduled,
    PastNextExpiry,
}

#[derive(Clone, Debug, PartialEq, Eq, Hash, Serialize, Deserialize)]
pub enum Op {
    Init(u8),
    /// Call `advance_migration` at targets (tip+1, tip+1+lead) with the given oracle variant and
    /// anchor-age script, then let the consumer respond to the returned step.
    Advance { lead: u8, oracle: Oracle, age: u8, resp: Resp },
    /// The consumer's record of an acknowledged broadcast lands late.
    RecordLate(u8),
    /// A block at tip+1 includes transaction i; the wallet scans it.
    Mine(u8),
    Tip { kind: TipKind, to: u32 },
    /// Chain reorganisation: the wallet truncates to this height and calls `truncate_to_height`.
    Rollback(u32),
    Cancel,
    Supersede,
    ApplySignature(u8),
    /// A proof for a row that is already Proved (or already Broadcast / Mined) is stored again (`store_proved_transaction` with a
    /// second `ProvedTransaction` for the same row): a second prover that was started from a state
    /// in which the row was still Signed (the prove functions refuse any other state) finishes late,
    /// e.g. after a slow first prover was given up on and the Prove step was served again. Neither
    /// `store_proved_transaction` nor `ProvedTransaction::apply` restricts the row's state.
    ReProve(u8),
}

pub struct Viol {
    pub key: String,
    pub msg: String,
}
impl Viol {
    fn new(key: impl Into<String>, msg: impl Into<String>) -> Viol {
        Viol { key: key.into(), msg: msg.into() }
    }
    pub fn encode(&self) -> String {
        format!("{}||{}", self.key, self.msg)
    }
    pub fn decode(s: &str) -> (String, String) {
        match s.split_once("||") {
            Some((k, m)) => (k.to_string(), m.to_string()),
            None => ("machinery".to_string(), s.to_string()),
        }
    }
}

pub fn rank(s: &MigrationTxState) -> u8 {
    match s {
        MigrationTxState::AwaitingSignature => 0,
        MigrationTxState::Signed => 1,
        MigrationTxState::Proved => 2,
        MigrationTxState::Broadcast { .. } => 3,
        MigrationTxState::Mined { .. } => 4,
    }
}
pub fn state_name(s: &MigrationTxState) -> &'static str {
    INIT_NAMES[rank(s) as usize]
}
fn is_mined(s: &MigrationTxState) -> bool {
    matches!(s, MigrationTxState::Mined { .. })
}

pub struct AdvOut {
    pub ms: MigrationState,
    pub adv: Advance,
    pub queried: Vec<(u32, bool)>,
    pub rng_words: u32,
    pub targets: DuenessTargets,
}

pub fn targets_of(tip: u32, lead: u8) -> DuenessTargets {
    DuenessTargets::new(bh(tip + 1), bh(tip + 1 + u32::from(lead)))
}

fn chain_list(env: &Env) -> Vec<(zcash_protocol::TxId, u32)> {
    (0..N).filter_map(|i| env.chain[i].map(|h| (txid_of(i as u32), h))).collect()
}

#[derive(Default)]
pub struct Counters {
    pub outcomes: BTreeMap<String, u64>,
    pub advance_calls: u64,
    pub mock_calls: u64,
    pub probe_runs: u64,
    pub probe_memo_hits: u64,
    pub persist_runs: u64,
    pub wallet_rollbacks: u64,
}

/// Options shared by the sweep and by replay.
#[derive(Clone, Copy, PartialEq, Eq, Debug)]
pub enum Persist {
    Off,
    /// One representative (the first reached, breadth first) of every shape class of explored
    /// MigrationStates: status, and per transaction (lifecycle state, mark kind, failure report
    /// present, schedule shifted, anchor boundary redrawn).
    ShapeClass,
    /// Every distinct explored MigrationState reached within this many events of the initial
    /// state; one representative per shape class beyond.
    FullTo(u8),
}

#[derive(Clone, Copy)]
pub struct Opts {
    pub differential: bool,
    pub probe: bool,
    pub persist: Persist,
    /// Probe every height up to the horizon (true) or only {tip, each scheduled/expiry/settle
    /// height and its successor, horizon} (false).
    pub probe_every_height: bool,
}

pub struct Model<'a> {
    pub dag: Dag,
    pub profile: u8,
    pub inits: Vec<u8>,
    pub opts: Opts,
    pub counters: RefCell<Counters>,
    template: MigrationState,
    probe_memo: RefCell<HashSet<u128>>,
    rollback_seen: RefCell<HashSet<u128>>,
    /// MigrationStates (or shape classes) already saved and loaded; shared by the passes of a group.
    pub persist_seen: Option<&'a RefCell<HashSet<u128>>>,
}

impl<'a> Model<'a> {
    pub fn new(dag: Dag, profile: u8, inits: Vec<u8>, opts: Opts, persist_seen: Option<&'a RefCell<HashSet<u128>>>) -> Self {
        Model { dag, profile, inits, opts, counters: RefCell::new(Counters::default()), template: initial(dag, profile, 31).0, probe_memo: RefCell::new(HashSet::new()), rollback_seen: RefCell::new(HashSet::new()), persist_seen }
    }

    pub fn ms(&self, l: &Live) -> MigrationState {
        expand(&self.template, &l.c)
    }

    /// Compact a state the real code produced, verifying that nothing is lost.
    fn compact(&self, ms: &MigrationState) -> Result<Compact, Viol> {
        let c = to_compact(ms).map_err(|e| Viol::new("machinery", format!("state outside the compact form: {e}")))?;
        if expand(&self.template, &c) != *ms {
            return Err(Viol::new("machinery", format!("the compact form loses information about {ms:?}")));
        }
        Ok(c)
    }

    pub fn init_live(&self, k: u8) -> Result<Live, Viol> {
        let (ms, env) = initial(self.dag, self.profile, k);
        Ok(Live { c: self.compact(&ms)?, env, term_age: 0, depth: 0 })
    }

    fn outcome(&self, name: &str) {
        *self.counters.borrow_mut().outcomes.entry(name.to_string()).or_insert(0) += 1;
    }

    /// Execute one `advance_migration` call on the real code against the scripted store, check the
    /// per-call invariants, and (optionally) run the repository's `MockBackend` side by side.
    pub fn run_advance(&self, ms: &MigrationState, env: &Env, lead: u8, oracle: Oracle, age: u8, check: bool, diff: bool) -> Result<AdvOut, Viol> {
        let targets = targets_of(env.tip, lead);
        let config = AdvanceConfig::new(ReorgSettleDepth::new(PROVABLE_ANCHOR_DEPTH));
        let mut store = Scripted::new(Some(ms.clone()), env.tip, chain_list(env), oracle);
        let mut state = ms.clone();
        let mut rng = ScriptRng::new(age);
        self.counters.borrow_mut().advance_calls += 1;
        let r = catch(|| advance_migration(&mut store, &mut state, targets, &config, &mut rng));
        let adv = match r {
            Err(p) => return Err(Viol::new("panic:advance_migration", format!("advance_migration panicked: {p}"))),
            Ok(Err(e)) => match e {},
            Ok(Ok(a)) => a,
        };
        let out = AdvOut { ms: state, adv, queried: store.queried.borrow().clone(), rng_words: rng.words, targets };
        if !check {
            return Ok(out);
        }
        // Documented: "whenever a check recorded anything, the state is written back with
        // replace_migration BEFORE the step is returned, so the store already agrees with the
        // returned state".
        if out.ms != *ms && store.stored.as_ref() != Some(&out.ms) {
            return Err(Viol::new(
                "persist:advance-left-store-behind",
                format!("advance_migration changed the state but the store does not hold the returned state (replace calls {})", store.replace_calls.get()),
            ));
        }
        if store.replace_calls.get() > 0 && store.stored.as_ref() != Some(&out.ms) {
            return Err(Viol::new("persist:advance-wrote-other-state", "advance_migration persisted a state different from the one it returned"));
        }
        check_step(&out.ms, out.adv.step(), targets)?;
        if self.opts.differential && diff {
            self.counters.borrow_mut().mock_calls += 1;
            let mut mock = MockBackend::new(vec![], env.tip);
            let _ = mock.replace_migration(ms);
            for t in ms.transactions() {
                let id = u32::from(t.id());
                mock.satisfiability.insert(t.id(), answer(id, u32::from(t.expiry_height()), env.tip, oracle));
            }
            for (txid, h) in chain_list(env) {
                mock.mined.insert(txid, bh(h));
            }
            let mut mstate = ms.clone();
            let mut mrng = ScriptRng::new(age);
            let mr = catch(|| advance_migration(&mut mock, &mut mstate, targets, &config, &mut mrng));
            let madv = match mr {
                Err(p) => return Err(Viol::new("panic:advance_migration(mock)", format!("advance_migration over MockBackend panicked: {p}"))),
                Ok(Err(e)) => match e {},
                Ok(Ok(a)) => a,
            };
            if madv != out.adv || mstate != out.ms {
                return Err(Viol::new(
                    "differential:advance",
                    format!("scripted store and MockBackend disagree: step {:?} vs {:?}; states equal: {}", out.adv, madv, mstate == out.ms),
                ));
            }
            let a = store.get_migration().unwrap_or_else(|e| match e {});
            let b = mock.get_migration().unwrap_or_else(|e| match e {});
            if a != b {
                return Err(Viol::new("differential:stored", "scripted store and MockBackend hold different migrations after advance_migration"));
            }
        }
        Ok(out)
    }

    fn resps(step: &AdvanceStep) -> Vec<Resp> {
        match step {
            AdvanceStep::Prove { transactions } => {
                let mut v = vec![Resp::ProveAll, Resp::Ignore];
                if transactions.len() > 1 {
                    v.push(Resp::ProveFirst);
                }
                v
            }
            AdvanceStep::Broadcast { .. } => {
                vec![Resp::BroadcastOk, Resp::BroadcastOkNotRecorded, Resp::BroadcastFail(0), Resp::BroadcastFail(2), Resp::Ignore]
            }
            AdvanceStep::Replan => vec![Resp::Supersede, Resp::Ignore],
            _ => vec![Resp::Ignore],
        }
    }

    fn advance_menu(&self, ms: &MigrationState, env: &Env, out: &mut Vec<Op>) {
        for lead in [0u8, 2] {
            let base = match self.run_advance(ms, env, lead, Oracle::AllOk, 1, false, false) {
                Ok(b) => b,
                // A panic here is re-observed (and reported) by the op itself.
                Err(_) => {
                    out.push(Op::Advance { lead, oracle: Oracle::AllOk, age: 1, resp: Resp::Ignore });
                    continue;
                }
            };
            for resp in Self::resps(base.adv.step()) {
                out.push(Op::Advance { lead, oracle: Oracle::AllOk, age: 1, resp });
            }
            // The anchor-age draw matters only when the engine consumed randomness.
            if base.rng_words > 0 {
                if let Ok(alt) = self.run_advance(ms, env, lead, Oracle::AllOk, 2, false, false) {
                    if alt.ms != base.ms || alt.adv != base.adv {
                        for resp in Self::resps(alt.adv.step()) {
                            out.push(Op::Advance { lead, oracle: Oracle::AllOk, age: 2, resp });
                        }
                    }
                }
            }
            if lead != 0 {
                continue;
            }
            // Oracle variants: only a transaction the engine actually asks about can make a
            // difference; for every other victim the call is identical to AllOk by construction.
            let mut victims: Vec<(u32, bool)> = Vec::new();
            for q in &base.queried {
                if !victims.contains(q) {
                    victims.push(*q);
                }
            }
            for (id, in_flight) in victims {
                let v = id as u8;
                // The in-flight sweep acts only on InputsSpent / AnchorInvalidated; AnchorInvalidated
                // is defined for broadcast-unmined transactions only.
                let variants: Vec<Oracle> = if in_flight {
                    vec![Oracle::Spent(v), Oracle::AnchorInvalidated(v)]
                } else {
                    vec![Oracle::NotYet(v), Oracle::Spent(v), Oracle::InputsInvalidated(v)]
                };
                for oracle in variants {
                    match self.run_advance(ms, env, 0, oracle, 1, false, false) {
                        Ok(o) => {
                            if o.ms == base.ms && o.adv == base.adv {
                                continue;
                            }
                            for resp in Self::resps(o.adv.step()) {
                                out.push(Op::Advance { lead: 0, oracle, age: 1, resp });
                            }
                        }
                        Err(_) => out.push(Op::Advance { lead: 0, oracle, age: 1, resp: Resp::Ignore }),
                    }
                }
            }
        }
    }

    fn chain_ops(&self, ms: &MigrationState, env: &Env, out: &mut Vec<Op>) {
        let txs = ms.transactions();
        for i in 0..N {
            if env.unrecorded[i] {
                out.push(Op::RecordLate(i as u8));
            }
        }
        for i in 0..N {
            let t = &txs[i];
            let exp = u32::from(t.expiry_height());
            let deps_on_chain = t.depends_on().iter().all(|d| env.chain[u32::from(*d) as usize].is_some());
            if env.mempool[i] && env.chain[i].is_none() && deps_on_chain && (exp == 0 || env.tip + 1 <= exp) && env.tip < TIP_MAX {
                out.push(Op::Mine(i as u8));
            }
        }
        let mut tips: Vec<u32> = Vec::new();
        let mut push_tip = |kind: TipKind, to: u32, out: &mut Vec<Op>| {
            if to > env.tip && to <= TIP_MAX && !tips.contains(&to) {
                tips.push(to);
                out.push(Op::Tip { kind, to });
            }
        };
        push_tip(TipKind::Plus1, env.tip + 1, out);
        // Scanned target == the next scheduled height of a not-yet-broadcast transaction.
        if let Some(h) = txs.iter().filter(|t| rank(&t.state()) <= 2).map(|t| u32::from(t.scheduled_height())).filter(|h| *h > env.tip + 1).min() {
            push_tip(TipKind::ToNextScheduled, h - 1, out);
        }
        // Scanned target one past the next expiry of an unmined transaction.
        if let Some(e) = txs.iter().filter(|t| !is_mined(&t.state())).map(|t| u32::from(t.expiry_height())).filter(|e| *e != 0 && *e >= env.tip + 1).min() {
            push_tip(TipKind::PastNextExpiry, e, out);
        }
        let mut rb: Vec<u32> = vec![];
        let mut cand: Vec<u32> = vec![env.tip.saturating_sub(1), env.tip.saturating_sub(2)];
        for h in env.chain.iter().flatten() {
            cand.push(h - 1);
        }
        for h in cand {
            if h >= FLOOR && h < env.tip && !rb.contains(&h) {
                rb.push(h);
            }
        }
        rb.sort();
        for h in rb {
            out.push(Op::Rollback(h));
        }
        out.push(Op::Cancel);
        out.push(Op::Supersede);
        for i in 0..N {
            if matches!(txs[i].state(), MigrationTxState::AwaitingSignature) {
                out.push(Op::ApplySignature(i as u8));
            }
        }
        for i in 0..N {
            // A late second proof can land on a row that is Proved, or that has meanwhile been
            // broadcast or mined.
            if rank(&txs[i].state()) >= 2 {
                out.push(Op::ReProve(i as u8));
            }
        }
    }

    /// The successor of `l` under `op`, with every transition invariant checked.
    pub fn apply(&self, l: &Live, op: &Op) -> Result<Live, Viol> {
        let pre_owned = self.ms(l);
        let pre = &pre_owned;
        let mut env = l.env.clone();
        let mut rolled_to: Option<u32> = None;
        let post: MigrationState = match op {
            Op::Init(_) => return Err(Viol::new("machinery", "Init applied to a live state")),
            Op::Advance { lead, oracle, age, resp } => {
                let out = self.run_advance(pre, &env, *lead, *oracle, *age, true, true)?;
                self.outcome(&format!("step:{:?}", out.adv.step().kind()));
                if *oracle != Oracle::AllOk {
                    self.outcome(&format!("oracle:{}", oracle.tag()));
                }
                if *lead > 0 {
                    self.outcome("targets:estimate-ahead");
                }
                self.note_engine_effects(pre, &out.ms);
                let mut state = out.ms.clone();
                let mut store = Scripted::new(Some(state.clone()), env.tip, vec![], Oracle::AllOk);
                match (out.adv.step(), resp) {
                    (_, Resp::Ignore) => {}
                    (AdvanceStep::Prove { transactions }, Resp::ProveAll | Resp::ProveFirst) => {
                        let n = if *resp == Resp::ProveFirst { 1 } else { transactions.len() };
                        for t in transactions.iter().take(n) {
                            let proven = ProvedTransaction::from_parts(t.id(), vec![0x70, u32::from(t.id()) as u8]);
                            catch(|| store.store_proved_transaction(&mut state, proven))
                                .map_err(|p| Viol::new("panic:store_proved_transaction", p))?
                                .unwrap_or_else(|e| match e {});
                        }
                        self.outcome("consumer:proof-stored");
                    }
                    (AdvanceStep::Broadcast { id }, Resp::BroadcastOk) => {
                        let i = u32::from(*id) as usize;
                        env.mempool[i] = true;
                        env.unrecorded[i] = false;
                        catch(|| state.mark_broadcast(*id)).map_err(|p| Viol::new("panic:mark_broadcast", p))?;
                        self.outcome("consumer:broadcast-recorded");
                    }
                    (AdvanceStep::Broadcast { id }, Resp::BroadcastOkNotRecorded) => {
                        let i = u32::from(*id) as usize;
                        env.mempool[i] = true;
                        env.unrecorded[i] = true;
                        self.outcome("consumer:broadcast-ok-not-recorded");
                    }
                    (AdvanceStep::Broadcast { id }, Resp::BroadcastFail(n)) => {
                        catch(|| state.report_broadcast_failure(*id, bh(env.tip + u32::from(*n))))
                            .map_err(|p| Viol::new("panic:report_broadcast_failure", p))?;
                        self.outcome(if *n == 0 { "consumer:broadcast-fail@tip" } else { "consumer:broadcast-fail@ahead" });
                    }
                    (AdvanceStep::Replan, Resp::Supersede) => {
                        catch(|| state.mark_superseded()).map_err(|p| Viol::new("panic:mark_superseded", p))?;
                        self.outcome("consumer:superseded-on-replan");
                    }
                    (s, r) => return Err(Viol::new("machinery", format!("response {r:?} does not fit step {s:?}"))),
                }
                // Storing proofs touches the bytes, the lifecycle state and the lock owner only.
                if matches!(resp, Resp::ProveAll | Resp::ProveFirst) {
                    check_determinations_kept(&out.ms, &state, "ProofStored")?;
                }
                state
            }
            Op::RecordLate(i) => {
                let i = *i as usize;
                if !env.unrecorded[i] {
                    return Err(Viol::new("machinery", "RecordLate without an unrecorded broadcast"));
                }
                env.unrecorded[i] = false;
                let mut state = pre.clone();
                self.outcome(&format!("consumer:late-record-on-{}", state_name(&pre.transactions()[i].state())));
                catch(|| state.mark_broadcast(tid(i))).map_err(|p| Viol::new("panic:mark_broadcast", p))?;
                state
            }
            Op::Mine(i) => {
                let i = *i as usize;
                env.tip += 1;
                env.chain[i] = Some(env.tip);
                self.outcome("chain:mine");
                pre.clone()
            }
            Op::Tip { kind, to } => {
                if *to <= env.tip || *to > TIP_MAX {
                    return Err(Viol::new("machinery", "bad tip move"));
                }
                env.tip = *to;
                self.outcome(&format!("chain:tip-{kind:?}"));
                pre.clone()
            }
            Op::Rollback(h) => {
                if *h >= env.tip {
                    return Err(Viol::new("machinery", "rollback to a height not below the tip"));
                }
                env.tip = *h;
                for c in env.chain.iter_mut() {
                    if c.is_some_and(|m| m > *h) {
                        *c = None;
                    }
                }
                rolled_to = Some(*h);
                let mut state = pre.clone();
                catch(|| state.truncate_to_height(bh(*h))).map_err(|p| Viol::new("panic:truncate_to_height", p))?;
                state
            }
            Op::Cancel => {
                let mut state = pre.clone();
                catch(|| state.mark_cancelled()).map_err(|p| Viol::new("panic:mark_cancelled", p))?;
                state
            }
            Op::Supersede => {
                let mut state = pre.clone();
                catch(|| state.mark_superseded()).map_err(|p| Viol::new("panic:mark_superseded", p))?;
                state
            }
            Op::ReProve(i) => {
                let i = *i as usize;
                if rank(&pre.transactions()[i].state()) < 2 {
                    return Err(Viol::new("machinery", "ReProve on a row that was never proved"));
                }
                let mut state = pre.clone();
                let mut store = Scripted::new(Some(state.clone()), env.tip, vec![], Oracle::AllOk);
                let proven = ProvedTransaction::from_parts(tid(i), pczt_bytes(2, i));
                catch(|| store.store_proved_transaction(&mut state, proven)).map_err(|p| Viol::new("panic:store_proved_transaction", p))?.unwrap_or_else(|e| match e {});
                if store.stored.as_ref() != Some(&state) {
                    return Err(Viol::new("persist:store_proved-left-store-behind", "store_proved_transaction did not persist the state it returned"));
                }
                self.outcome(&if pre.transactions()[i].broadcast_failure_at().is_some() {
                    "consumer:proof-stored-again-under-report".to_string()
                } else {
                    format!("consumer:proof-stored-again-on-{}", state_name(&pre.transactions()[i].state()))
                });
                state
            }
            Op::ApplySignature(i) => {
                let mut state = pre.clone();
                let ok = catch(|| state.apply_signature(tid(*i as usize), vec![0x60, *i])).map_err(|p| Viol::new("panic:apply_signature", p))?;
                if !ok {
                    return Err(Viol::new("lifecycle:apply_signature-refused", "apply_signature refused a transaction that is AwaitingSignature"));
                }
                state
            }
        };
        check_lifecycle(pre, &post, op, rolled_to)?;
        if let (Some(h), true) = (rolled_to, self.opts.persist != Persist::Off) {
            // The same rollback through the real wallet: save the pre-state, truncate the WALLET
            // that owns the store, load the migration back.
            // A rollback acts on each transaction independently (plus the status), so the
            // representatives are chosen per transaction class: the event goes through the wallet
            // when it shows a (status, lifecycle state, position of mined height / mark / report
            // relative to the rollback height, clamped to -1..=+2) combination not seen before in
            // this search. Replay runs it always.
            let rel = |x: u32| (i64::from(x) - i64::from(h)).clamp(-1, 2);
            let mut fresh = self.persist_seen.is_none();
            for t in pre.transactions() {
                let class = format!(
                    "{:?}|{}{:?}{:?}{:?}",
                    pre.status(),
                    rank(&t.state()),
                    t.state().mined_height().map(|m| rel(u32::from(m))),
                    t.unsatisfiable().map(|(m, _)| rel(u32::from(m))),
                    t.broadcast_failure_at().map(|m| rel(u32::from(m)))
                );
                if self.persist_seen.is_some() && self.rollback_seen.borrow_mut().insert(mc_core::key128(class.as_bytes())) {
                    fresh = true;
                }
            }
            if fresh {
                self.counters.borrow_mut().wallet_rollbacks += 1;
                let o = super::persist::wallet_rollback_explored(pre, h, FLOOR)?;
                self.outcome(o);
            }
        }
        if let Some(h) = rolled_to {
            let unmined = pre.transactions().iter().filter(|t| t.state().mined_height().is_some_and(|m| u32::from(m) > h)).count();
            self.outcome(if unmined > 0 { "chain:rollback-unmines" } else { "chain:rollback-keeps" });
        }
        if post.status() != pre.status() {
            self.outcome(&format!("status:{:?}->{:?}", pre.status(), post.status()));
        }
        let term_age = if post.is_terminal() && pre.is_terminal() { l.term_age.saturating_add(1) } else { 0 };
        Ok(Live { c: self.compact(&post)?, env, term_age, depth: l.depth.saturating_add(1) })
    }

    fn note_engine_effects(&self, pre: &MigrationState, post: &MigrationState) {
        for (a, b) in pre.transactions().iter().zip(post.transactions()) {
            if a.scheduled_height() != b.scheduled_height() {
                self.outcome("engine:schedule-shift");
            }
            if a.anchor_boundary() != b.anchor_boundary() {
                self.outcome("engine:anchor-redrawn");
            }
            if a.unsatisfiable().is_none() {
                if let Some((_, k)) = b.unsatisfiable() {
                    self.outcome(&format!("engine:mark-{k:?}"));
                }
            }
            if a.broadcast_failure_at().is_some() && b.broadcast_failure_at().is_none() {
                self.outcome("engine:report-discharged");
            }
            if rank(&a.state()) == 2 && rank(&b.state()) == 4 {
                self.outcome("engine:promote-unrecorded-broadcast");
            }
            if rank(&a.state()) == 3 && rank(&b.state()) == 4 {
                self.outcome("engine:promote-mined");
            }
        }
    }

    /// Bounded liveness probe: advance the tip alone (no consumer action, no mining, every oracle
    /// answer the default) up to the horizon; the run must not end in Waiting/Complete while an
    /// unmined transaction is neither reported nor waiting on something that can still move.
    pub fn probe(&self, l: &Live, ms0: &MigrationState) -> Result<(), Viol> {
        if ms0.is_terminal() {
            return Ok(());
        }
        let memo_key = mc_core::key128(format!("{:?}|{}|{:?}", l.c, l.env.tip, l.env.chain).as_bytes());
        if !self.probe_memo.borrow_mut().insert(memo_key) {
            self.counters.borrow_mut().probe_memo_hits += 1;
            return Ok(());
        }
        self.counters.borrow_mut().probe_runs += 1;
        let mut ms = ms0.clone();
        let mut env = l.env.clone();
        // Every height a guard of the state compares a target against.
        let guard_heights = |ms: &MigrationState| -> Vec<u32> {
            let mut heights: Vec<u32> = vec![];
            for t in ms.transactions() {
                heights.push(u32::from(t.scheduled_height()));
                heights.push(u32::from(t.expiry_height()));
                if let Some(b) = t.anchor_boundary() {
                    heights.push(u32::from(b) + PROVABLE_ANCHOR_DEPTH + 1);
                }
                if let Some(r) = t.broadcast_failure_at() {
                    heights.push(u32::from(r));
                }
            }
            heights
        };
        let every = self.opts.probe_every_height;
        let visit_list = |ms: &MigrationState, from: u32, include_from: bool| -> (Vec<u32>, u32) {
            let heights = guard_heights(ms);
            let horizon = heights.iter().copied().max().unwrap_or(0) + 3;
            let lo = if include_from { from } else { from + 1 };
            let mut v: Vec<u32> = if every {
                (lo..=horizon).collect()
            } else {
                // One tip on each side of every height a guard compares against.
                let mut v: Vec<u32> = vec![];
                if include_from {
                    v.push(from);
                }
                if horizon >= lo {
                    v.push(horizon);
                }
                for h in &heights {
                    for d in [0u32, 1, 2] {
                        let t = (h + d).saturating_sub(1);
                        if t >= lo && t < horizon {
                            v.push(t);
                        }
                    }
                }
                v
            };
            v.sort();
            v.dedup();
            (v, horizon)
        };
        let probe_op = Op::Advance { lead: 0, oracle: Oracle::AllOk, age: 1, resp: Resp::Ignore };
        let mut last: Option<(Advance, DuenessTargets)> = None;
        let step_at = |tip: u32, ms: &mut MigrationState, env: &mut Env, last: &mut Option<(Advance, DuenessTargets)>| -> Result<(), Viol> {
            env.tip = tip;
            let out = self.run_advance(ms, env, 0, Oracle::AllOk, 1, true, false).map_err(|v| Viol::new(format!("probe/{}", v.key), format!("during tip-only probe at tip {tip}: {}", v.msg)))?;
            check_lifecycle(ms, &out.ms, &probe_op, None).map_err(|v| Viol::new(format!("probe/{}", v.key), format!("during tip-only probe at tip {tip}: {}", v.msg)))?;
            if trace_enabled() {
                eprintln!("probe tip {tip}: {:?}\n    txs {:?}", out.adv, out.ms.transactions().iter().map(|t| (state_name(&t.state()), u32::from(t.scheduled_height()), t.anchor_boundary().map(u32::from), t.unsatisfiable())).collect::<Vec<_>>());
            }
            // The late-Replan and Rebuild obligations hold at EVERY call of the probe (default
            // oracle answers, nothing set aside), not only at its end.
            if !out.ms.is_terminal() && matches!(out.adv.step(), AdvanceStep::Waiting | AdvanceStep::Complete) {
                let statuses = catch(|| out.ms.transaction_statuses(out.targets)).map_err(|p| Viol::new("panic:transaction_statuses", p))?;
                quiet_step_clauses(&statuses, out.adv.step(), tip)?;
            }
            *last = Some((out.adv.clone(), out.targets));
            *ms = out.ms;
            Ok(())
        };
        let quiet = |last: &Option<(Advance, DuenessTargets)>| matches!(last, Some((a, _)) if matches!(a.step(), AdvanceStep::Waiting | AdvanceStep::Complete));
        // Round 0 runs to the horizon of the probed state. An overdue shift on the way can move a
        // schedule or redraw an anchor boundary beyond it; while the run is quiet at its horizon
        // and the current state has guard heights still ahead, continue to the new horizon and
        // stop at the first step that is not Waiting/Complete.
        let mut round = 0;
        loop {
            let (visit, horizon) = visit_list(&ms, env.tip, round == 0);
            for tip in visit {
                step_at(tip, &mut ms, &mut env, &mut last)?;
                if ms.is_terminal() || (round > 0 && !quiet(&last)) {
                    break;
                }
            }
            if ms.is_terminal() || !quiet(&last) {
                break;
            }
            let (_, next_horizon) = visit_list(&ms, env.tip, false);
            if next_horizon <= env.tip.max(horizon) {
                break;
            }
            round += 1;
            if round == 8 {
                self.outcome("probe-end:inconclusive-after-8-horizons");
                return Ok(());
            }
        }
        let Some((adv, targets)) = last else { return Ok(()) };
        let step = adv.step().clone();
        self.outcome(&format!("probe-end:{:?}", step.kind()));
        if ms.is_terminal() || !matches!(step, AdvanceStep::Waiting | AdvanceStep::Complete) {
            return Ok(());
        }
        let statuses = catch(|| ms.transaction_statuses(targets)).map_err(|p| Viol::new("panic:transaction_statuses", p))?;
        quiet_step_clauses(&statuses, &step, env.tip)?;
        // 0 = silent, 1 = accounted for
        let mut ok = [false; N];
        let txs = ms.transactions();
        for _round in 0..N {
            for (i, s) in statuses.iter().enumerate() {
                if is_mined(&s.state()) {
                    ok[i] = true;
                    continue;
                }
                ok[i] = match s.blocked_on() {
                    Some(Blocker::Unsatisfiable) | Some(Blocker::Expired) | Some(Blocker::AwaitingReevaluation) => true,
                    Some(Blocker::Signature) => true,
                    None => matches!(s.state(), MigrationTxState::Broadcast { .. }),
                    Some(Blocker::Dependencies) => txs[i].depends_on().iter().any(|d| {
                        let d = u32::from(*d) as usize;
                        !is_mined(&statuses[d].state()) && ok[d] && !matches!(statuses[d].blocked_on(), Some(Blocker::Unsatisfiable) | Some(Blocker::Expired) | Some(Blocker::AwaitingReevaluation))
                    }),
                    _ => false,
                };
            }
        }
        for (i, s) in statuses.iter().enumerate() {
            if !ok[i] {
                return Err(Viol::new(
                    format!("liveness:silent-hold:{}:{:?}", state_name(&s.state()), s.blocked_on()),
                    format!(
                        "after advancing the tip alone to {} the drive API answers {:?} while transaction {} ({}, ready={}, blocked_on={:?}) is neither mined, reported (unsatisfiable/expired/reevaluation), in flight, nor waiting on something that is",
                        env.tip,
                        step.kind(),
                        i,
                        state_name(&s.state()),
                        s.ready(),
                        s.blocked_on()
                    ),
                ));
            }
        }
        Ok(())
    }
}

/// The two documented per-call obligations of a Waiting/Complete answer when every oracle answer is
/// the default and nothing was set aside (the situation of the tip-only probe). `statuses` is
/// `transaction_statuses` at the same targets.
fn quiet_step_clauses(statuses: &[zcash_pool_migration::state::TransactionStatus], step: &AdvanceStep, tip: u32) -> Result<(), Viol> {
    // Documented (AdvanceStep::Rebuild): "A migration is never stuck silently on an expired
    // transfer: this step is returned in preference to Waiting whenever one is holding up the
    // schedule." A transfer whose status is Expired (expired on scanned data, unmarked, no dead
    // dependency) is exactly a rebuild candidate.
    for (i, s) in statuses.iter().enumerate() {
        if !is_mined(&s.state()) && matches!(s.kind(), MigrationTxKind::Transfer { .. }) && s.blocked_on() == Some(Blocker::Expired) {
            return Err(Viol::new(
                "liveness:expired-transfer-not-surfaced",
                format!("with the tip alone advanced to {tip} the drive API answers {:?} although transfer {i} has expired unmined and is rebuildable", step.kind()),
            ));
        }
    }
    // Documented (next_step, late Replan slot): once EVERY unmined transaction is dead and nothing
    // was set aside, Replan is surfaced — "a migration never ends silently holding" dead value.
    let unmined: Vec<_> = statuses.iter().filter(|s| !is_mined(&s.state())).collect();
    if !unmined.is_empty() && unmined.iter().all(|s| matches!(s.blocked_on(), Some(Blocker::Unsatisfiable) | Some(Blocker::Expired))) {
        return Err(Viol::new(
            "liveness:dead-value-not-surfaced",
            format!(
                "with the tip alone advanced to {tip} the drive API answers {:?} (outlook none) although transaction_statuses shows every unmined transaction dead ({}): the stranded value is never surfaced as Replan — the migration silently holds value that can no longer move",
                step.kind(),
                unmined.iter().map(|s| format!("{}={:?}", u32::from(s.id()), s.blocked_on().unwrap())).collect::<Vec<_>>().join(", ")
            ),
        ));
    }
    Ok(())
}

/// Invariants on the step the drive API surfaces, against the state it returns.
pub fn check_step(ms: &MigrationState, step: &AdvanceStep, targets: DuenessTargets) -> Result<(), Viol> {
    let eff = u32::from(targets.effective());
    let find = |id: MigrationTransferId| ms.transactions().iter().find(|t| t.id() == id);
    let deps_mined = |t: &MigrationTransaction| t.depends_on().iter().all(|d| find(*d).is_some_and(|x| is_mined(&x.state())));
    if ms.is_terminal() && !matches!(step, AdvanceStep::Complete) {
        return Err(Viol::new(format!("offer:terminal:{:?}", step.kind()), format!("a terminal ({:?}) migration was offered {:?}", ms.status(), step)));
    }
    match step {
        AdvanceStep::Broadcast { id } => {
            let Some(t) = find(*id) else {
                return Err(Viol::new("offer:broadcast:unknown-id", format!("Broadcast names unknown transaction {id:?}")));
            };
            let exp = u32::from(t.expiry_height());
            let bad = if !matches!(t.state(), MigrationTxState::Proved) {
                Some(("not-proved", format!("state is {}", state_name(&t.state()))))
            } else if !deps_mined(t) {
                Some(("deps-unmined", "a dependency is not mined".to_string()))
            } else if u32::from(t.scheduled_height()) > eff {
                Some(("not-due", format!("scheduled {} > effective target {}", u32::from(t.scheduled_height()), eff)))
            } else if exp != 0 && exp < eff {
                Some(("expired", format!("expiry {exp} < target {eff}")))
            } else if t.broadcast_failure_at().is_some() {
                Some(("failure-report-standing", format!("broadcast failure reported at {:?}", t.broadcast_failure_at())))
            } else if t.unsatisfiable().is_some() {
                Some(("marked-unsatisfiable", format!("marked {:?}", t.unsatisfiable())))
            } else {
                None
            };
            if let Some((k, m)) = bad {
                return Err(Viol::new(format!("offer:broadcast:{k}"), format!("transaction {} offered for broadcast at targets {:?}: {m}", u32::from(*id), targets)));
            }
        }
        AdvanceStep::Prove { transactions } => {
            if transactions.is_empty() {
                return Err(Viol::new("offer:prove:empty", "Prove step with an empty batch"));
            }
            for (n, pt) in transactions.iter().enumerate() {
                if transactions[..n].iter().any(|o| o.id() == pt.id()) {
                    return Err(Viol::new("offer:prove:duplicate", format!("Prove batch names {:?} twice", pt.id())));
                }
                let Some(t) = find(pt.id()) else {
                    return Err(Viol::new("offer:prove:unknown-id", format!("Prove names unknown transaction {:?}", pt.id())));
                };
                if !matches!(t.state(), MigrationTxState::Signed) {
                    return Err(Viol::new("offer:prove:not-signed", format!("transaction {} offered for proving in state {}", u32::from(pt.id()), state_name(&t.state()))));
                }
                if !deps_mined(t) {
                    return Err(Viol::new("offer:prove:deps-unmined", format!("transaction {} offered for proving with an unmined dependency", u32::from(pt.id()))));
                }
                if t.unsatisfiable().is_some() {
                    return Err(Viol::new("offer:prove:marked-unsatisfiable", format!("transaction {} offered for proving while marked {:?}", u32::from(pt.id()), t.unsatisfiable())));
                }
            }
        }
        AdvanceStep::Rebuild { id } => {
            let Some(t) = find(*id) else {
                return Err(Viol::new("offer:rebuild:unknown-id", format!("Rebuild names unknown transaction {id:?}")));
            };
            if is_mined(&t.state()) || !matches!(t.kind(), MigrationTxKind::Transfer { .. }) {
                return Err(Viol::new("offer:rebuild:not-an-unmined-transfer", format!("Rebuild names transaction {} ({:?}, {})", u32::from(*id), t.kind(), state_name(&t.state()))));
            }
        }
        AdvanceStep::Complete => {
            if !ms.is_terminal() && !(ms.transactions().iter().all(|t| is_mined(&t.state())) && !ms.transactions().is_empty()) {
                return Err(Viol::new("offer:complete-while-live", "Complete returned for a non-terminal migration with an unmined transaction"));
            }
        }
        _ => {}
    }
    Ok(())
}

/// The event `opname` must not have changed any transaction's failure report or mark.
pub fn check_determinations_kept(pre: &MigrationState, post: &MigrationState, opname: &str) -> Result<(), Viol> {
    for (a, b) in pre.transactions().iter().zip(post.transactions()) {
        if a.broadcast_failure_at() != b.broadcast_failure_at() {
            return Err(Viol::new(
                format!("offer:failure-report-withdrawn-by:{opname}"),
                format!(
                    "{opname} changed the broadcast-failure report of transaction {} from {:?} to {:?}: a standing report (the 'no failure report' guard of the broadcast offer, the hold at Reevaluate) is withdrawn only by advance_migration's adjudication against the oracle, by mining, or by a rollback",
                    u32::from(a.id()),
                    a.broadcast_failure_at(),
                    b.broadcast_failure_at()
                ),
            ));
        }
        if a.unsatisfiable() != b.unsatisfiable() {
            return Err(Viol::new(
                format!("offer:mark-changed-by:{opname}"),
                format!("{opname} changed the unsatisfiability mark of transaction {} from {:?} to {:?}", u32::from(a.id()), a.unsatisfiable(), b.unsatisfiable()),
            ));
        }
    }
    Ok(())
}

/// Lifecycle invariants between the state before and after one event.
pub fn check_lifecycle(pre: &MigrationState, post: &MigrationState, op: &Op, rolled_to: Option<u32>) -> Result<(), Viol> {
    let opname = match op {
        Op::Advance { .. } => "Advance",
        Op::RecordLate(_) => "RecordLate",
        Op::Mine(_) => "Mine",
        Op::Tip { .. } => "Tip",
        Op::Rollback(_) => "Rollback",
        Op::Cancel => "Cancel",
        Op::Supersede => "Supersede",
        Op::ApplySignature(_) => "ApplySignature",
        Op::ReProve(_) => "ProofStoredAgain",
        Op::Init(_) => "Init",
    };
    // A standing broadcast-failure report is withdrawn only by advance_migration's adjudication,
    // by mining, or by a rollback below the reported tip; an unsatisfiability mark only by mining
    // or a rollback. Every other event leaves both alone.
    if !matches!(op, Op::Advance { .. } | Op::Rollback(_)) {
        check_determinations_kept(pre, post, opname)?;
    }
    if pre.transactions().len() != post.transactions().len() {
        return Err(Viol::new(format!("lifecycle:tx-set-changed:{opname}"), "the set of transactions changed"));
    }
    let mut demoted = false;
    for (a, b) in pre.transactions().iter().zip(post.transactions()) {
        if a.id() != b.id() || a.txid() != b.txid() || a.kind() != b.kind() || a.depends_on() != b.depends_on() || a.expiry_height() != b.expiry_height() {
            return Err(Viol::new(format!("lifecycle:identity-changed:{opname}"), format!("transaction {:?} changed id/txid/kind/dependencies/expiry", a.id())));
        }
        let (sa, sb) = (a.state(), b.state());
        match rolled_to {
            Some(h) => {
                let expect = match sa {
                    MigrationTxState::Mined { txid, height } if u32::from(height) > h => {
                        demoted = true;
                        MigrationTxState::Broadcast { txid }
                    }
                    other => other,
                };
                if sb != expect {
                    return Err(Viol::new(
                        format!("lifecycle:rollback:{}->{}", state_name(&sa), state_name(&sb)),
                        format!("Rollback({h}) moved transaction {} from {sa:?} to {sb:?}; a rollback un-mines exactly the transactions mined above the height (expected {expect:?})", u32::from(a.id())),
                    ));
                }
            }
            None => {
                if rank(&sb) < rank(&sa) {
                    return Err(Viol::new(
                        format!("lifecycle:rank-decrease:{opname}:{}->{}", state_name(&sa), state_name(&sb)),
                        format!("{opname} moved transaction {} backwards from {sa:?} to {sb:?} without a rollback", u32::from(a.id())),
                    ));
                }
                if let (MigrationTxState::Mined { height: ha, .. }, MigrationTxState::Mined { height: hb, .. }) = (sa, sb) {
                    if ha != hb {
                        return Err(Viol::new(format!("lifecycle:mined-height-changed:{opname}"), format!("transaction {} mined height changed {ha:?} -> {hb:?} without a rollback", u32::from(a.id()))));
                    }
                }
            }
        }
    }
    // Terminal statuses are absorbing. Documented exception (MigrationStatus::Complete,
    // truncate_to_height): Complete is chain-derived and reverts to InProgress when a rollback
    // un-mines one of its transactions.
    if pre.status().is_terminal() && post.status() != pre.status() {
        let documented = rolled_to.is_some() && demoted && pre.status() == MigrationStatus::Complete && post.status() == MigrationStatus::InProgress;
        if !documented {
            return Err(Viol::new(
                format!("terminal-left:{opname}:{:?}->{:?}", pre.status(), post.status()),
                format!("{opname} moved the migration out of terminal status {:?} to {:?}", pre.status(), post.status()),
            ));
        }
    }
    Ok(())
}

pub fn state_key(s: &St) -> Vec<u8> {
    match s {
        St::Root => b"root".to_vec(),
        // The compact form carries every field of the MigrationState an event can change (and is
        // verified lossless against the template after every transition); Env is everything else
        // a future can depend on.
        St::Live(l) => format!("{:?}|{:?}|{}", l.c, l.env, l.term_age).into_bytes(),
    }
}

impl<'a> Subject for Model<'a> {
    type State = St;
    type Op = Op;

    fn ops(&self, s: &St, _depth: usize) -> Vec<Op> {
        match s {
            St::Root => self.inits.iter().map(|k| Op::Init(*k)).collect(),
            St::Live(l) => {
                let mut out = Vec::new();
                if l.c.status.is_terminal() && l.term_age >= TERM_FOLLOW {
                    return out;
                }
                let ms = self.ms(l);
                self.advance_menu(&ms, &l.env, &mut out);
                self.chain_ops(&ms, &l.env, &mut out);
                out
            }
        }
    }

    fn step(&self, s: &St, op: &Op) -> Result<Option<St>, String> {
        match (s, op) {
            (St::Root, Op::Init(k)) => self.init_live(*k).map(|l| Some(St::Live(l))).map_err(|v| v.encode()),
            (St::Root, _) => Err(Viol::new("machinery", "only Init applies to the root").encode()),
            (St::Live(l), op) => self.apply(l, op).map(|n| Some(St::Live(n))).map_err(|v| v.encode()),
        }
    }

    fn key(&self, s: &St) -> Vec<u8> {
        state_key(s)
    }

    fn check(&self, s: &St) -> Result<(), String> {
        let St::Live(l) = s else { return Ok(()) };
        let ms = self.ms(l);
        if ms.is_terminal() {
            self.outcome(&format!("reached-terminal:{:?}", ms.status()));
        }
        // Documented (MigrationStatus::Complete: "Every crossing has been mined"; truncate_to_height
        // reverts Complete when a demotion leaves a transaction unmined): a Complete migration holds
        // no unmined transaction — otherwise it has ended (nothing is ever offered again) while
        // still holding value.
        if ms.status() == MigrationStatus::Complete {
            if let Some(t) = ms.transactions().iter().find(|t| !is_mined(&t.state())) {
                return Err(Viol::new(
                    format!("liveness:complete-with-unmined:{}", state_name(&t.state())),
                    format!("the migration is Complete (terminal: nothing is offered any more) while transaction {} is {}", u32::from(t.id()), state_name(&t.state())),
                )
                .encode());
            }
        }
        if self.opts.probe {
            self.probe(l, &ms).map_err(|v| v.encode())?;
        }
        if self.opts.persist != Persist::Off {
            let class = match self.opts.persist {
                Persist::FullTo(d) if l.depth <= d => format!("{:?}", ms),
                _ => {
                    let pr = &PROFILES[self.profile as usize];
                    let mut c = format!("{:?}", ms.status());
                    for (i, t) in ms.transactions().iter().enumerate() {
                        c.push_str(&format!(
                            "|{}{:?}{}{}{}",
                            rank(&t.state()),
                            t.unsatisfiable_kind(),
                            t.broadcast_failure_at().is_some(),
                            u32::from(t.scheduled_height()) != pr.sched[i],
                            t.anchor_boundary().is_some_and(|b| u32::from(b) != pr.boundary)
                        ));
                    }
                    c
                }
            };
            let fresh = match self.persist_seen {
                Some(seen) => seen.borrow_mut().insert(mc_core::key128(class.as_bytes())),
                None => true,
            };
            if fresh {
                self.counters.borrow_mut().persist_runs += 1;
                super::persist::roundtrip_explored(&ms).map_err(|v| v.encode())?;
            }
        }
        Ok(())
    }
}

fn trace_enabled() -> bool {
    static T: std::sync::OnceLock<bool> = std::sync::OnceLock::new();
    *T.get_or_init(|| std::env::var("C18_TRACE").is_ok())
}

pub fn viol(key: impl Into<String>, msg: impl Into<String>) -> Viol {
    Viol::new(key, msg)
}
