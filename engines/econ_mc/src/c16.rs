//! C16 — pool-migration denomination plans are canonical and conserve value.
//!
//! Enumerated: every balance within +-2 of every boundary expression
//! `q1(+q2(+q3)) + m*buffer + t*fee` over the 19 quanta of the 1-2-5 series between 0.01 and
//! 10 000 ZEC (multisets, non-increasing), every balance within +-2 of the fee-step chains
//! (`k` parts for `k` around every multiple of the 14 funding outputs one preparation transaction
//! mints and around the caps), and {0, 1, MAX_MONEY-1, MAX_MONEY}; x spendable-note counts
//! x caps x buffers x preparation fees x an alphabet of preparation-cost oracles (incl. stateful
//! and inconsistent ones) x two random generators. The real `plan_denominations` /
//! `CanonicalOneTwoFive::plan` run on every element.
//!
//! Oracle: an independent canonical split written from the documentation of
//! `denomination.rs` / `strategies.rs` (u128 arithmetic over a literal table of quanta), the
//! documented reconcile rule (drop smallest-first until the oracle's fee fits), exact
//! conservation, the residual bound, RNG independence, no panic.

use mc_core::{catch, Args, Run};
use rand_chacha::ChaCha8Rng;
use rand_core::{CryptoRng, RngCore, SeedableRng};
use rayon::prelude::*;
use serde_json::{json, Value};
use std::cell::RefCell;
use std::num::NonZeroUsize;
use zcash_pool_migration::denomination::{plan_denominations, CanonicalOneTwoFive, DenominationPlan, DenominationStrategy};
use zcash_protocol::value::{BalanceError, Zatoshis, MAX_MONEY};
use zcash_protocol::zip318::{is_canonical_denomination, largest_one_two_five};

// ---------------------------------------------------------------------------------------------
// Reference model (from the documentation; never calls the code under test)
// ---------------------------------------------------------------------------------------------

/// Zatoshi per ZEC.
const ZEC: u128 = 100_000_000;
/// ZIP 318 `MAX_RESIDUAL_VALUE` (0.01 ZEC) and `DENOM_CAP` (10 000 ZEC), written out.
const MIN_Q: u128 = ZEC / 100;
const MAX_Q: u128 = 10_000 * ZEC;
/// One padded preparation transaction has 16 actions: one input, one change slot, 14 funding notes.
const NOTES_PER_PREP_TX: u128 = 14;

/// The 19 canonical denominations, ascending, written out (0.01 ZEC .. 10 000 ZEC).
const QUANTA: [u128; 19] = [
    1_000_000, 2_000_000, 5_000_000, 10_000_000, 20_000_000, 50_000_000, 100_000_000, 200_000_000, 500_000_000, 1_000_000_000, 2_000_000_000,
    5_000_000_000, 10_000_000_000, 20_000_000_000, 50_000_000_000, 100_000_000_000, 200_000_000_000, 500_000_000_000, 1_000_000_000_000,
];

fn quanta() -> Vec<u128> {
    QUANTA.to_vec()
}

fn is_quantum(x: u128) -> bool {
    QUANTA.contains(&x)
}

fn optimistic_txs(notes: u128) -> u128 {
    notes.div_ceil(NOTES_PER_PREP_TX)
}

/// Whether the documented single-note exact-funding case applies.
fn exact_case(balance: u128, count: usize, cap: usize, buffer: u128) -> bool {
    count == 1 && cap >= 1 && balance >= buffer && is_quantum(balance - buffer)
}

/// The canonical split fixed by the balance and by whether a single note holds it: at each step the
/// largest denomination the remaining budget can fund, each part carrying its buffer, with one
/// preparation fee reserved per started group of 14 notes; a single note of exactly one
/// denomination plus its buffer funds that crossing directly with no fee reserve.
fn ref_split(q_desc: &[u128], balance: u128, count: usize, cap: usize, buffer: u128, fee: u128) -> Vec<u128> {
    if exact_case(balance, count, cap, buffer) {
        return vec![balance - buffer];
    }
    let mut parts: Vec<u128> = Vec::new();
    let mut committed = 0u128; // sum of (part + buffer)
    while parts.len() < cap {
        let k = parts.len() as u128;
        let pick = q_desc.iter().copied().find(|q| committed + q + buffer + optimistic_txs(k + 1) * fee <= balance);
        match pick {
            Some(q) => {
                committed += q + buffer;
                parts.push(q);
            }
            None => break,
        }
    }
    parts
}

// ---------------------------------------------------------------------------------------------
// Oracle alphabet
// ---------------------------------------------------------------------------------------------

pub const ORACLES: &[&str] = &["stub", "none", "zero", "over", "big", "usize_max", "refuse_once", "alternating", "flip_max"];

fn stateless(oracle: &str) -> bool {
    matches!(oracle, "stub" | "none" | "zero" | "over" | "big" | "usize_max")
}

/// The answer of oracle `kind` to its `call`-th query (0-based) about `len` prepared notes.
fn answer(kind: &str, call: usize, len: usize) -> Option<usize> {
    let stub = len.div_ceil(14);
    match kind {
        "stub" => Some(stub),
        "none" => None,
        "zero" => Some(0),
        "over" => Some(stub + 1),
        "big" => Some(1usize << 40),
        "usize_max" => Some(usize::MAX),
        "refuse_once" => (call > 0).then_some(stub),
        "alternating" => match call % 3 {
            0 => None,
            1 => Some(stub + 2),
            _ => Some(0),
        },
        "flip_max" => {
            if call % 2 == 0 {
                Some(usize::MAX)
            } else {
                Some(stub)
            }
        }
        _ => None,
    }
}

/// A generator that is not ChaCha: a counter stream. The plan must not depend on it.
struct CounterRng(u64);
impl RngCore for CounterRng {
    fn next_u32(&mut self) -> u32 {
        self.next_u64() as u32
    }
    fn next_u64(&mut self) -> u64 {
        self.0 = self.0.wrapping_mul(6364136223846793005).wrapping_add(1442695040888963407);
        self.0
    }
    fn fill_bytes(&mut self, dest: &mut [u8]) {
        for c in dest.chunks_mut(8) {
            let w = self.next_u64().to_le_bytes();
            c.copy_from_slice(&w[..c.len()]);
        }
    }
    fn try_fill_bytes(&mut self, dest: &mut [u8]) -> Result<(), rand_core::Error> {
        self.fill_bytes(dest);
        Ok(())
    }
}
impl CryptoRng for CounterRng {}

#[derive(Clone, Copy, Debug, PartialEq, Eq)]
pub struct Case {
    pub balance: u64,
    pub count: usize,
    pub cap: usize,
    pub buffer: u64,
    pub fee: u64,
    pub oracle: &'static str,
}

impl Case {
    fn key(&self) -> String {
        format!(
            "plan(balance={},count={},cap={},buffer={},fee={},oracle={})",
            self.balance, self.count, self.cap, self.buffer, self.fee, self.oracle
        )
    }
    fn json(&self) -> Value {
        json!({"balance": self.balance.to_string(), "count": self.count, "cap": self.cap, "buffer": self.buffer, "fee": self.fee, "oracle": self.oracle})
    }
}

/// The questions the strategy asked of the oracle: per question the number of prepared notes and
/// the answer given; plus the first question (if any) that was not about a prefix of the canonical
/// split, each part with its buffer.
#[derive(PartialEq, Default)]
struct Transcript {
    calls: Vec<(usize, Option<usize>)>,
    bad_question: Option<Vec<u64>>,
}

/// Run the real planner once. `via_wrapper` selects the `plan_denominations` wrapper or the
/// strategy's trait method; `rng_b` selects the second generator.
fn run_real(c: &Case, reference: &[u128], via_wrapper: bool, rng_b: bool) -> Result<(DenominationPlan, Transcript), String> {
    let total = Zatoshis::from_u64(c.balance).map_err(|e| format!("harness: balance: {e:?}"))?;
    let buffer = Zatoshis::from_u64(c.buffer).map_err(|e| format!("harness: buffer: {e:?}"))?;
    let fee = Zatoshis::from_u64(c.fee).map_err(|e| format!("harness: fee: {e:?}"))?;
    let cap = NonZeroUsize::new(c.cap).ok_or("harness: cap 0")?;
    let transcript: RefCell<Transcript> = RefCell::new(Transcript::default());
    let buffer128 = c.buffer as u128;
    let kind = c.oracle;
    let oracle = |notes: &[Zatoshis]| -> Option<usize> {
        let mut t = transcript.borrow_mut();
        let a = answer(kind, t.calls.len(), notes.len());
        t.calls.push((notes.len(), a));
        if t.bad_question.is_none() && (notes.len() > reference.len() || notes.iter().zip(reference).any(|(n, r)| n.into_u64() as u128 != r + buffer128)) {
            t.bad_question = Some(notes.iter().map(|z| z.into_u64()).collect());
        }
        a
    };
    let plan = catch(|| {
        if rng_b {
            let mut rng = CounterRng(0x5eed);
            if via_wrapper {
                plan_denominations(total, c.count, cap, buffer, fee, &oracle, &mut rng)
            } else {
                CanonicalOneTwoFive::with_max_notes(cap, buffer).plan(total, c.count, fee, &oracle, &mut rng)
            }
        } else {
            let mut rng = ChaCha8Rng::seed_from_u64(0);
            if via_wrapper {
                plan_denominations(total, c.count, cap, buffer, fee, &oracle, &mut rng)
            } else {
                CanonicalOneTwoFive::with_max_notes(cap, buffer).plan(total, c.count, fee, &oracle, &mut rng)
            }
        }
    })
    .map_err(|p| format!("panic: {p}"))?;
    Ok((plan, transcript.into_inner()))
}

/// Outcome classes (vacuity accounting).
pub const CLASSES: &[&str] = &["nosplit", "dropped-all", "truncated", "full", "full-at-cap", "exact-direct", "exact-dropped"];

/// Decide one case. `Ok(class index)` or a violation message.
pub fn check_case(q_desc: &[u128], c: &Case) -> Result<usize, String> {
    let (balance, buffer, fee) = (c.balance as u128, c.buffer as u128, c.fee as u128);
    let reference = ref_split(q_desc, balance, c.count, c.cap, buffer, fee);
    let exact = exact_case(balance, c.count, c.cap, buffer);

    let (plan, transcript) = run_real(c, &reference, true, false)?;
    let (plan_b, transcript_b) = run_real(c, &reference, false, true)?;
    if plan != plan_b {
        return Err(format!("plan depends on the random generator / entry point: {:?} vs {:?}", plan, plan_b));
    }
    if transcript != transcript_b {
        return Err("the oracle was asked different questions under a different random generator".into());
    }

    let crossings: Vec<u128> = plan.crossing_values().iter().map(|z| z.into_u64() as u128).collect();
    let outputs: Vec<u128> = catch(|| plan.migration_outputs()).map_err(|p| format!("panic in migration_outputs: {p}"))?.iter().map(|z| z.into_u64() as u128).collect();
    let change = plan.change().map(|z| z.into_u64() as u128);
    let prep_fees = plan.prep_fees().into_u64() as u128;

    // canonical, in range, non-increasing, within the cap
    for (i, &cv) in crossings.iter().enumerate() {
        if !is_quantum(cv) {
            return Err(format!("crossing #{i} = {cv} is not a canonical 1-2-5 denomination in [0.01, 10000] ZEC"));
        }
        if !is_canonical_denomination(plan.crossing_values()[i]) {
            return Err(format!("is_canonical_denomination rejects the canonical denomination {cv}"));
        }
    }
    if crossings.windows(2).any(|w| w[0] < w[1]) {
        return Err(format!("crossings increase: {:?}", crossings));
    }
    if crossings.len() > c.cap {
        return Err(format!("{} crossings exceed the cap {}", crossings.len(), c.cap));
    }
    // a prefix of the canonical split
    if crossings.len() > reference.len() || crossings[..] != reference[..crossings.len()] {
        return Err(format!("crossings {:?} are not a prefix of the canonical split {:?}", crossings, reference));
    }
    // accessors agree
    if outputs.len() != crossings.len() || outputs.iter().zip(&crossings).any(|(o, cv)| *o != cv + buffer) {
        return Err(format!("migration_outputs {:?} != crossing + buffer ({:?} + {})", outputs, crossings, buffer));
    }
    if plan.note_fee_buffer().into_u64() as u128 != buffer || plan.total_input().into_u64() as u128 != balance {
        return Err("note_fee_buffer / total_input do not echo the inputs".into());
    }
    if plan.total_migratable().into_u64() as u128 != crossings.iter().sum::<u128>() {
        return Err("total_migratable is not the sum of the crossing values".into());
    }
    // conservation
    let notes_sum: u128 = outputs.iter().sum();
    if notes_sum + prep_fees + change.unwrap_or(0) != balance {
        return Err(format!("notes {} + prep fees {} + change {:?} != balance {}", notes_sum, prep_fees, change, balance));
    }
    if change == Some(0) {
        return Err("change is Some(0); documented as None when the balance is consumed exactly".into());
    }
    // every question asked of the oracle is a prefix of the canonical split, each part with its buffer
    if let Some(q) = &transcript.bad_question {
        return Err(format!("oracle was asked about {:?}, not a prefix of the canonical notes {:?}+{}", q, reference, buffer));
    }
    // preparation fees: zero when nothing migrates; otherwise fee x an answer the oracle gave for
    // exactly the published notes
    if crossings.is_empty() {
        if prep_fees != 0 {
            return Err(format!("nothing migrates but {} preparation fees are reserved", prep_fees));
        }
    } else {
        let ok = transcript.calls.iter().any(|(len, a)| *len == crossings.len() && a.is_some_and(|n| n as u128 * fee == prep_fees));
        if !ok {
            return Err(format!("prep fees {} are not fee x any answer the oracle gave for the published {} notes", prep_fees, crossings.len()));
        }
    }
    // reconcile rule for a consistent oracle: the longest prefix whose answered cost fits the balance
    if stateless(c.oracle) {
        let mut expect = (0usize, 0u128);
        for k in (1..=reference.len()).rev() {
            let sum: u128 = reference[..k].iter().map(|r| r + buffer).sum();
            if let Some(n) = answer(c.oracle, 0, k) {
                if sum + n as u128 * fee <= balance {
                    expect = (k, n as u128 * fee);
                    break;
                }
            }
        }
        if (crossings.len(), prep_fees) != expect {
            return Err(format!(
                "reconcile: published {} notes with {} prep fees; the longest prefix of {:?} whose answered cost fits is {} notes with {} prep fees",
                crossings.len(), prep_fees, reference, expect.0, expect.1
            ));
        }
        if c.oracle == "stub" && !exact && crossings.len() != reference.len() {
            return Err("the count-only oracle charges what the split reserved, yet parts were dropped".into());
        }
    }
    // residual bound: cap not reached and preparation cost what the planner assumed
    let assumed = if exact { 0 } else { optimistic_txs(reference.len() as u128) * fee };
    if crossings.len() == reference.len() && prep_fees == assumed && crossings.len() < c.cap {
        let bound = MIN_Q + buffer + fee;
        if change.unwrap_or(0) >= bound {
            return Err(format!("residual {} >= smallest self-funding note + one preparation fee = {}", change.unwrap_or(0), bound));
        }
    }
    // stored-parts round trip (from_stored_parts is the inverse of the accessors)
    match DenominationPlan::from_stored_parts(plan.crossing_values().to_vec(), plan.note_fee_buffer(), plan.change(), plan.prep_fees(), plan.total_input(), plan.total_migratable()) {
        Ok(p) if p == plan => {}
        other => return Err(format!("from_stored_parts(accessors) = {:?}, expected the plan itself", other)),
    }

    Ok(if exact {
        if crossings.is_empty() {
            6
        } else {
            5
        }
    } else if reference.is_empty() {
        0
    } else if crossings.is_empty() {
        1
    } else if crossings.len() < reference.len() {
        2
    } else if crossings.len() == c.cap {
        4
    } else {
        3
    })
}

// ---------------------------------------------------------------------------------------------
// Side checks on the anchored helpers
// ---------------------------------------------------------------------------------------------

/// `largest_one_two_five(hi, floor)` against the documented meaning.
pub fn check_largest(hi: u64, floor: u64) -> Result<&'static str, String> {
    let mut expect = 0u128;
    let mut p = floor as u128;
    while p <= hi as u128 {
        for m in [1u128, 2, 5] {
            if m * p <= hi as u128 {
                expect = expect.max(m * p);
            }
        }
        p *= 10;
    }
    match catch(|| largest_one_two_five(hi, floor)) {
        Ok(v) if v as u128 == expect => Ok(if v == 0 { "largest:zero" } else { "largest:value" }),
        Ok(v) => Err(format!("largest_one_two_five({hi},{floor}) = {v}, expected {expect}")),
        Err(p) => Err(format!("panic: {p}")),
    }
}

pub fn check_canonical(v: u64) -> Result<&'static str, String> {
    let z = Zatoshis::from_u64(v).map_err(|e| format!("harness: {e:?}"))?;
    match catch(|| is_canonical_denomination(z)) {
        Ok(b) if b == is_quantum(v as u128) => Ok(if b { "canonical:yes" } else { "canonical:no" }),
        Ok(b) => Err(format!("is_canonical_denomination({v}) = {b}")),
        Err(p) => Err(format!("panic: {p}")),
    }
}

/// `from_stored_parts`: `Err(Overflow)` iff some crossing + buffer exceeds MAX_MONEY; an accepted
/// plan's `migration_outputs` never panics and equals crossing + buffer.
pub fn check_stored(crossings: &[u64], buffer: u64) -> Result<&'static str, String> {
    let z = |v: u64| Zatoshis::from_u64(v).map_err(|e| format!("harness: {e:?}"));
    let cv: Vec<Zatoshis> = crossings.iter().map(|v| z(*v)).collect::<Result<_, _>>()?;
    let overflow = crossings.iter().any(|c| *c as u128 + buffer as u128 > MAX_MONEY as u128);
    let b = z(buffer)?;
    let r = catch(|| DenominationPlan::from_stored_parts(cv.clone(), b, None, Zatoshis::ZERO, Zatoshis::ZERO, Zatoshis::ZERO)).map_err(|p| format!("panic: {p}"))?;
    match r {
        Err(BalanceError::Overflow) if overflow => Ok("stored:overflow"),
        Ok(p) if !overflow => {
            let outs = catch(|| p.migration_outputs()).map_err(|p| format!("panic in migration_outputs: {p}"))?;
            if outs.len() != crossings.len() || outs.iter().zip(crossings).any(|(o, c)| o.into_u64() != c + buffer) {
                return Err("migration_outputs of a stored plan != crossing + buffer".into());
            }
            Ok("stored:ok")
        }
        other => Err(format!("from_stored_parts({:?},{}) = {:?}, overflow expected: {}", crossings, buffer, other.map(|_| "Ok"), overflow)),
    }
}

// ---------------------------------------------------------------------------------------------
// Enumeration
// ---------------------------------------------------------------------------------------------

pub const COUNTS: &[usize] = &[0, 1, 2, 5];
pub const CAPS: &[usize] = &[1, 2, 3, 63, 64];
pub const BUFFERS: &[u64] = &[0, 15_000, 1_000_000];
pub const FEES: &[u64] = &[0, 1, 5_000, 80_000, 999_999];

/// The 18-part "all nines" chain 9999.99 ZEC -> 5000,2000,2000,500,...,0.02,0.02.
fn nines_chain() -> Vec<u128> {
    let mut v = Vec::new();
    let mut p = 1_000 * ZEC;
    while p >= MIN_Q {
        v.extend([5 * p, 2 * p, 2 * p]);
        p /= 10;
    }
    v
}

/// Balances for one (buffer, fee) pair.
fn balances(max_quanta: usize, exact_quanta: usize, delta: i128, max_m: u128, buffer: u64, fee: u64) -> Vec<u64> {
    let q = quanta();
    let (buffer, fee) = (buffer as i128, fee as i128);
    let mut out: Vec<u64> = vec![0, 1, MAX_MONEY - 1, MAX_MONEY];
    let mut push = |base: i128| {
        for d in -delta..=delta {
            let b = base + d;
            if (0..=MAX_MONEY as i128).contains(&b) {
                out.push(b as u64);
            }
        }
    };
    // sums of <= max_quanta quanta (multisets)
    let mut sums: Vec<i128> = Vec::new();
    fn rec(q: &[u128], start: usize, left: usize, acc: i128, sums: &mut Vec<i128>) {
        if left == 0 {
            return;
        }
        for i in start..q.len() {
            let s = acc + q[i] as i128;
            sums.push(s);
            rec(q, i, left - 1, s, sums);
        }
    }
    rec(&q, 0, max_quanta, 0, &mut sums);
    sums.sort();
    sums.dedup();
    for s in &sums {
        for m in 0..=max_m as i128 {
            for t in 0..=2i128 {
                push(s + m * buffer + t * fee);
            }
        }
    }
    // sums of exactly `exact_quanta` quanta: only the exactly funded ones (one buffer per part,
    // with and without the single preparation fee)
    if exact_quanta > max_quanta {
        let mut sums: Vec<i128> = Vec::new();
        fn rec_exact(q: &[u128], start: usize, left: usize, acc: i128, sums: &mut Vec<i128>) {
            if left == 0 {
                sums.push(acc);
                return;
            }
            for i in start..q.len() {
                rec_exact(q, i, left - 1, acc + q[i] as i128, sums);
            }
        }
        rec_exact(&q, 0, exact_quanta, 0, &mut sums);
        sums.sort();
        sums.dedup();
        for s in &sums {
            push(s + exact_quanta as i128 * buffer);
            push(s + exact_quanta as i128 * buffer + fee);
        }
    }
    // fee-step chains: exactly k parts, k around the multiples of 14 and around the caps
    let chain = nines_chain();
    for k in [13usize, 14, 15, 16, 27, 28, 29, 42, 43, 56, 57, 62, 63, 64, 65] {
        for j in [0usize, 3, chain.len()] {
            let j = j.min(k);
            let s: i128 = (k - j) as i128 * MAX_Q as i128 + chain[..j].iter().sum::<u128>() as i128;
            let txs = (k as i128 + 13) / 14;
            for t in [txs - 1, txs, txs + 1] {
                push(s + k as i128 * buffer + t * fee);
            }
        }
    }
    out.sort();
    out.dedup();
    out
}

fn parse_case(case: &Value) -> Result<Case, String> {
    let oracle = case["oracle"].as_str().unwrap_or("");
    let oracle = ORACLES.iter().copied().find(|o| *o == oracle).ok_or(format!("unknown oracle {oracle}"))?;
    Ok(Case {
        balance: case["balance"].as_str().and_then(|s| s.parse().ok()).ok_or("bad balance")?,
        count: case["count"].as_u64().ok_or("bad count")? as usize,
        cap: case["cap"].as_u64().ok_or("bad cap")? as usize,
        buffer: case["buffer"].as_u64().ok_or("bad buffer")?,
        fee: case["fee"].as_u64().ok_or("bad fee")?,
        oracle,
    })
}

pub fn replay(kind: &str, case: &Value) -> Result<(), String> {
    let num = |v: &Value| -> u64 { v.as_str().and_then(|s| s.parse().ok()).unwrap_or(0) };
    match kind {
        "plan" => {
            let mut q = quanta();
            q.reverse();
            check_case(&q, &parse_case(case)?).map(|_| ())
        }
        "largest" => check_largest(num(&case["hi"]), num(&case["floor"])).map(|_| ()),
        "canonical" => check_canonical(num(&case["v"])).map(|_| ()),
        "stored" => {
            let cv: Vec<u64> = case["crossings"].as_array().map(|a| a.iter().map(num).collect()).unwrap_or_default();
            check_stored(&cv, num(&case["buffer"])).map(|_| ())
        }
        _ => Err(format!("unknown kind {kind}")),
    }
}

pub fn run(args: &Args) -> i32 {
    let run = Run::new(args, "exploration");
    run.set_rule(
        "every (balance, spendable-note count, cap, buffer, preparation fee, oracle) with the balance within +-delta of a boundary expression \
         q1(+q2(+q3)) + m*buffer + t*fee over the 19 quanta (multisets; one more quantum for the exactly funded sums), or of a k-part fee-step chain (k around multiples of 14 and the caps), or in \
         {0,1,MAX_MONEY-1,MAX_MONEY}; each case runs the real planner twice (plan_denominations with ChaCha8, the strategy's plan() with a counter \
         generator); a case is distinct by the tuple (balances de-duplicated per buffer/fee pair); oracle = independent canonical split + reconcile \
         rule + conservation in u128",
    );
    run.assume("the reference split, the 14-notes-per-preparation-transaction reserve and the single-note exact-funding case are taken from the doc comments of denomination.rs and strategies.rs");
    run.assume("'preparation costs what the planner assumed' is read as: nothing was dropped and the reserved fees equal the optimistic reserve (zero in the exact-funding case); only then is the residual bound demanded");
    run.assume("for the stateful/inconsistent oracles (refuse_once, alternating, flip_max) the number of published parts is not predicted; prefix, conservation, fee-from-an-actual-answer, cap and no-panic are still demanded");
    let mut q_desc = quanta();
    q_desc.reverse();
    run.require(QUANTA[0] == MIN_Q && QUANTA[18] == MAX_Q, "quanta table spans 0.01..10000 ZEC");

    // side checks -----------------------------------------------------------------------------
    let mut n_side = 0u64;
    // at most a few failures per side check, so the bounded failure list keeps room for the plans
    let side_counts = RefCell::new(std::collections::BTreeMap::<&str, u32>::new());
    let side_fail = |kind: &'static str, key: String, msg: String, case: Value| {
        let mut g = side_counts.borrow_mut();
        let c = g.entry(kind).or_insert(0);
        if *c < 3 {
            *c += 1;
            run.fail(kind, key, msg, case);
        }
    };
    let mut series: Vec<u64> = vec![0, 1, 2, 3, u64::MAX - 1, u64::MAX];
    let mut p: u128 = 1;
    while p <= u64::MAX as u128 {
        for m in [1u128, 2, 5] {
            for d in -1i128..=1 {
                let v = (m * p) as i128 + d;
                if (0..=u64::MAX as i128).contains(&v) {
                    series.push(v as u64);
                }
            }
        }
        p *= 10;
    }
    series.sort();
    series.dedup();
    for &hi in &series {
        for floor in [1u64, 10, 1_000_000, 1_000_000_000_000, 10_000_000_000_000_000_000] {
            n_side += 1;
            match check_largest(hi, floor) {
                Ok(o) => run.outcome(o),
                Err(m) => side_fail("largest", format!("largest({hi},{floor})"), m, json!({"hi": hi.to_string(), "floor": floor.to_string()})),
            }
        }
        if hi <= MAX_MONEY {
            n_side += 1;
            match check_canonical(hi) {
                Ok(o) => run.outcome(o),
                Err(m) => side_fail("canonical", format!("canonical({hi})"), m, json!({"v": hi.to_string()})),
            }
        }
    }
    let edge: Vec<u64> = vec![0, 1, 1_000_000, 1_000_000_000_000, MAX_MONEY / 2, MAX_MONEY / 2 + 1, MAX_MONEY - 1, MAX_MONEY];
    for &a in &edge {
        for &b in &edge {
            for &buf in &edge {
                for cv in [vec![], vec![a], vec![a, b]] {
                    n_side += 1;
                    match check_stored(&cv, buf) {
                        Ok(o) => run.outcome(o),
                        Err(m) => side_fail("stored", format!("stored({:?},{buf})", cv), m, json!({"crossings": cv.iter().map(|v| v.to_string()).collect::<Vec<_>>(), "buffer": buf.to_string()})),
                    }
                }
            }
        }
    }
    run.eval_distinct(n_side);

    // main sweep ------------------------------------------------------------------------------
    let max_quanta = args.tier.pick(2, 3);
    let exact_quanta = args.tier.pick(3, 4);
    let delta = args.tier.pick(2, 3);
    let max_m = args.tier.pick(3, 4);
    let wall_cap = args.tier.pick(50.0, 900.0);
    run.section(
        "alphabet",
        json!({"quanta": 19, "max_quanta_per_expression": max_quanta, "quanta_in_exactly_funded_sums": exact_quanta, "delta": delta, "max_buffers_m": max_m, "max_fees_t": 2,
               "counts": COUNTS, "caps": CAPS, "buffers": BUFFERS, "fees": FEES, "oracles": ORACLES, "generators": ["ChaCha8(seed 0) via plan_denominations", "counter LCG via CanonicalOneTwoFive::plan"]}),
    );
    let mut total_balances = 0u64;
    let hist = std::sync::Mutex::new(vec![0u64; ORACLES.len() * CLASSES.len()]);
    let capped = std::sync::atomic::AtomicBool::new(false);
    let plan_failures = std::sync::atomic::AtomicU32::new(0);
    for &buffer in BUFFERS {
        for &fee in FEES {
            let bals = balances(max_quanta, exact_quanta, delta as i128, max_m as u128, buffer, fee);
            total_balances += bals.len() as u64;
            bals.par_chunks(64).for_each(|chunk| {
                if run.elapsed() > wall_cap {
                    capped.store(true, std::sync::atomic::Ordering::Relaxed);
                    return;
                }
                let mut local = vec![0u64; ORACLES.len() * CLASSES.len()];
                let mut n = 0u64;
                for &balance in chunk {
                    for &count in COUNTS {
                        for &cap in CAPS {
                            for (oi, &oracle) in ORACLES.iter().enumerate() {
                                let c = Case { balance, count, cap, buffer, fee, oracle };
                                n += 1;
                                match check_case(&q_desc, &c) {
                                    Ok(class) => local[oi * CLASSES.len() + class] += 1,
                                    Err(m) => {
                                        // keep room in the bounded failure list for the side checks
                                        if plan_failures.fetch_add(1, std::sync::atomic::Ordering::Relaxed) < 30 {
                                            run.fail("plan", c.key(), m, c.json())
                                        }
                                    }
                                }
                            }
                        }
                    }
                }
                run.eval_distinct(n);
                let mut h = hist.lock().unwrap();
                for (a, b) in h.iter_mut().zip(&local) {
                    *a += b;
                }
            });
        }
    }
    if capped.load(std::sync::atomic::Ordering::Relaxed) {
        run.cap_hit(&format!("wall cap {wall_cap}s hit during the balance sweep; remaining chunks skipped"));
    }
    run.section("balances_enumerated", json!(total_balances));
    let h = hist.into_inner().unwrap();
    for (oi, o) in ORACLES.iter().enumerate() {
        for (ci, c) in CLASSES.iter().enumerate() {
            if h[oi * CLASSES.len() + ci] > 0 {
                run.outcome_n(&format!("{o}:{c}"), h[oi * CLASSES.len() + ci]);
            }
        }
    }
    run.sample(json!({"balance": "10000000000", "count": 2, "cap": 64, "buffer": 15000, "fee": 80000, "oracle": "usize_max", "expected": "empty plan (an absurd cost never fits), no panic"}));
    run.sample(json!({"balance": "100015000", "count": 1, "cap": 3, "buffer": 15000, "fee": 80000, "oracle": "zero", "expected": "[1 ZEC], no prep fee, no change (single-note exact funding)"}));
    run.sample(json!({"balance": "100015000", "count": 2, "cap": 3, "buffer": 15000, "fee": 80000, "oracle": "stub", "expected": "[0.5, 0.2, 0.2] ZEC with one prep fee"}));
    run.require(
        run.outcomes_distinct() >= 30 || run.failure_count() > 0,
        "fewer than 30 distinct (oracle, plan class) outcomes observed",
    );
    let seen = |o: &str, c: &str| -> bool {
        let oi = ORACLES.iter().position(|x| *x == o).expect("oracle name");
        let ci = CLASSES.iter().position(|x| *x == c).expect("class name");
        h[oi * CLASSES.len() + ci] > 0
    };
    for (o, c) in [("stub", "full"), ("stub", "full-at-cap"), ("stub", "nosplit"), ("stub", "exact-dropped"), ("zero", "exact-direct"), ("over", "truncated"), ("none", "dropped-all"), ("refuse_once", "truncated")] {
        run.require(seen(o, c) || run.failure_count() > 0, &format!("outcome {o}:{c} never observed"));
    }
    run.finish(&replay)
}
