//! C07 — fee and change computation conserves value and pays the ZIP 317 fee.
//!
//! Enumerated (bounded, exhaustive): multisets of inputs and requested outputs over the four pools
//! with values from a boundary alphabet, crossed with change-strategy configurations (strategy,
//! split policy, wallet metadata, dust policy, fallback pool, memo, transparent-change policy,
//! ephemeral balance, target height around NU5 / NU6.2 / NU6.3, anchor on/off the ZIP 318 grid);
//! plus `FeeRule::fee_required` itself on a lattice of sizes and counts. Every case runs the real
//! `compute_balance` / `fee_required` of /repo; the oracle (c07/model.rs) is exact i128 arithmetic
//! written from ZIP 317 and the documentation.

mod harness;
mod model;
mod space;

use mc_core::{Args, Run, Tier};
use model::*;
use rayon::prelude::*;
use serde_json::{json, Value};
use std::collections::BTreeMap;

/// Decide one balance case against prepared views (used by the sweep and by replay).
fn check_with(net: &zcash_protocol::local_consensus::LocalNetwork, case: &Case, iv: &harness::InViews, ov: &harness::OutViews) -> Result<&'static str, String> {
    let obs = harness::observe(net, &case.cfg, iv, ov);
    let facts = Facts::new(case);
    judge(case, &facts, &obs).map_err(|m| format!("{m} [observed {:?}]", obs))
}

pub fn check_case(case: &Case) -> Result<&'static str, String> {
    let net = harness::network();
    check_with(&net, case, &harness::in_views(&case.ins), &harness::out_views(&case.outs))
}

pub fn check_fee_case(c: &FeeCase) -> Result<&'static str, String> {
    let net = harness::network();
    let obs = harness::observe_fee(&net, c);
    judge_fee(c, &obs).map_err(|m| format!("{m} [observed {:?}]", obs))
}

pub fn replay(kind: &str, case: &Value) -> Result<(), String> {
    match kind {
        "balance" => {
            let c: Case = serde_json::from_value(case.clone()).map_err(|e| format!("bad case: {e}"))?;
            check_case(&c).map(|_| ())
        }
        "fee" => {
            let c: FeeCase = serde_json::from_value(case.clone()).map_err(|e| format!("bad case: {e}"))?;
            check_fee_case(&c).map(|_| ())
        }
        _ => Err(format!("unknown kind {kind}")),
    }
}

#[derive(Default)]
struct Local {
    n: u64,
    outcomes: BTreeMap<&'static str, u64>,
    first: BTreeMap<&'static str, String>,
    /// violation messages reduced to their class (text before the first digit / bracket)
    fail_classes: BTreeMap<String, (u64, String)>,
    skipped_inputs: u64,
}

/// Wall-clock cap of the balance sweep (reported as a cap when hit).
const WALL_CAP_S: f64 = 540.0;

fn class_of(msg: &str) -> String {
    msg.chars().take_while(|c| !c.is_ascii_digit() && *c != '[' && *c != '{' && *c != '(').collect::<String>().trim().to_string()
}

impl Local {
    fn merge(mut self, o: Local) -> Local {
        self.n += o.n;
        self.skipped_inputs += o.skipped_inputs;
        for (k, v) in o.outcomes {
            *self.outcomes.entry(k).or_insert(0) += v;
        }
        for (k, v) in o.first {
            self.first.entry(k).or_insert(v);
        }
        for (k, v) in o.fail_classes {
            self.fail_classes.entry(k).or_insert((0, v.1)).0 += v.0;
        }
        self
    }
    fn violation(&mut self, msg: &str, key: impl FnOnce() -> String) {
        self.n += 1;
        let e = self.fail_classes.entry(class_of(msg)).or_insert_with(|| (0, key()));
        e.0 += 1;
    }
    fn record(&mut self, label: &'static str, key: impl FnOnce() -> String) {
        self.n += 1;
        let e = self.outcomes.entry(label).or_insert(0);
        if *e == 0 {
            self.first.insert(label, key());
        }
        *e += 1;
    }
}

fn fee_lattice(run: &Run, tier: Tier) -> Local {
    // sizes on each side of the 150- and 34-byte units, the 297-byte P2SH used by the balance sweep,
    // the consensus maximum input size, and "unknown"
    let in_sizes: [Option<u64>; 8] = [Some(0), Some(1), Some(149), Some(150), Some(151), Some(297), Some(10_049), None];
    let out_sizes: [u64; 8] = [0, 1, 9, 32, 34, 35, 44, 10_009];
    let max_t = tier.pick(2, 3);
    let in_sets = space::multisets(in_sizes.len(), max_t);
    let out_sets = space::multisets(out_sizes.len(), max_t);
    let small: Vec<u64> = vec![0, 1, 2, 3, 5];
    // counts whose fee is on each side of MAX_MONEY, and far beyond it (no sum of four reaches 2^64)
    let limit = (MAX_MONEY / MARGINAL) as u64;
    let large: Vec<u64> = vec![0, 1, limit - 1, limit, limit + 1, 1u64 << 61];
    let rules: Vec<u8> = (0..(2 + NONSTANDARD.len() as u8)).collect();
    let eval = |loc: &mut Local, c: FeeCase| match check_fee_case(&c) {
        Ok(l) => loc.record(l, || format!("{:?}", c)),
        Err(m) => {
            loc.violation(&m, || format!("{:?}", c));
            run.fail("fee", format!("fee:{}", serde_json::to_string(&c).unwrap()), m, serde_json::to_value(&c).unwrap());
        }
    };
    let a = in_sets
        .par_iter()
        .fold(Local::default, |mut loc, ti| {
            let t_in: Vec<Option<u64>> = ti.iter().map(|i| in_sizes[*i as usize]).collect();
            for to in &out_sets {
                let t_out: Vec<u64> = to.iter().map(|i| out_sizes[*i as usize]).collect();
                for &s_in in &small {
                    for &s_out in &small {
                        for &o_act in &small {
                            for &i_act in &small {
                                for rule in [0u8, 1] {
                                    eval(&mut loc, FeeCase { rule, t_in: t_in.clone(), t_out: t_out.clone(), s_in, s_out, o_act, i_act, height: NU6_3 });
                                }
                            }
                        }
                    }
                }
            }
            loc
        })
        .reduce(Local::default, Local::merge);
    // large counts and non-standard parameter sets, with a few transparent shapes
    let t_shapes: Vec<(Vec<Option<u64>>, Vec<u64>)> = vec![(vec![], vec![]), (vec![Some(150)], vec![34]), (vec![Some(151), Some(150)], vec![35]), (vec![None], vec![34])];
    let b = large
        .par_iter()
        .fold(Local::default, |mut loc, &s_in| {
            for &s_out in &large {
                for &o_act in &large {
                    for &i_act in &large {
                        for (t_in, t_out) in &t_shapes {
                            for &rule in &rules {
                                for height in [NU5 - 1, NU6_3] {
                                    eval(&mut loc, FeeCase { rule, t_in: t_in.clone(), t_out: t_out.clone(), s_in, s_out, o_act, i_act, height });
                                }
                            }
                        }
                    }
                }
            }
            loc
        })
        .reduce(Local::default, Local::merge);
    // non-standard parameter sets on the small lattice with one transparent item each side
    let c = small
        .par_iter()
        .fold(Local::default, |mut loc, &s_in| {
            for &s_out in &small {
                for &o_act in &small {
                    for &i_act in &small {
                        for ti in in_sizes {
                            for to in out_sizes {
                                for &rule in &rules[2..] {
                                    eval(&mut loc, FeeCase { rule, t_in: vec![ti], t_out: vec![to], s_in, s_out, o_act, i_act, height: NU6_3 });
                                }
                            }
                        }
                    }
                }
            }
            loc
        })
        .reduce(Local::default, Local::merge);
    a.merge(b).merge(c)
}

/// Change-boundary slice. The value of one input is *derived* so that the total change lands on
/// the comparisons of the split / dust logic: for a MultiOutputChangeStrategy that wants n in {2,3,4}
/// change outputs, a dust threshold T, a minimum split value v in {1, T/4, T, 2T}, every candidate
/// number of change outputs m <= n, every change pool p and every gap g between two fee estimates
/// of the same request (fee with a outputs minus fee with b outputs, 0 <= b < a <= n, and 0, both
/// signs), and for flows with an Ironwood output the anchor on and one block off the grid, the input
/// is chosen such that
///     total_in - outputs - ZIP317(shape with m change outputs in p) = m*B + g + d,
/// B in {T, v}, d in {-1, 0, +1}. The fees are the reference model's; the derived values only decide
/// which cases exist, the verdict is the ordinary oracle's.
fn boundary_slice(run: &Run, tier: Tier, net: &zcash_protocol::local_consensus::LocalNetwork) -> Local {
    let item = |pool: u8, value: u64| Item { pool, kind: 0, value };
    let var_pools = [S, O, I, T];
    let other_values: &[u64] = match tier {
        Tier::Quick => &[15_000],
        Tier::Thorough => &[5_001, 15_000, 1_000_000],
    };
    let mut others: Vec<Option<Item>> = vec![None];
    for pool in [S, O, I, T] {
        for &v in other_values {
            others.push(Some(item(pool, v)));
        }
    }
    let mut out_shapes: Vec<Vec<Item>> = vec![vec![]];
    for pool in [T, S, O, I] {
        out_shapes.push(vec![item(pool, 10_000)]);
    }
    // would-be canonical ZIP 318 crossings (with an Orchard variable input and an on-grid anchor):
    // a single Ironwood payment of canonical denomination, and the off-denomination control. Crossed
    // with the reduced-split bands below this reaches "exactly 2 .. target-1 Orchard change outputs"
    // beside an unpadded-or-not Ironwood bundle (the fee re-costing branch).
    out_shapes.push(vec![item(I, 1_000_000)]);
    out_shapes.push(vec![item(I, 1_000_001)]);
    if tier == Tier::Thorough {
        out_shapes.push(vec![item(I, 100_000_000)]);
        out_shapes.push(vec![item(I, 1_000_000), item(T, 10_000)]);
        out_shapes.push(vec![item(S, 10_000), item(I, 10_000)]);
        out_shapes.push(vec![item(T, 10_000), item(O, 0)]);
        out_shapes.push(vec![item(S, 60_000), item(S, 0)]);
    }
    let mut cfgs: Vec<Cfg> = vec![];
    for n in [2u8, 3, 4] {
        for action in 0..3u8 {
            for thr in [None, Some(5_000u64), Some(1_000_000)] {
                let t = thr.unwrap_or(MARGINAL as u64);
                for min in [1, t / 4, t, 2 * t] {
                    for memo in [false, true] {
                        if memo && tier == Tier::Quick {
                            continue;
                        }
                        for height in [NU5 - 1, NU6_3 - 1, NU6_3] {
                            let mut c = space::baseline();
                            c.multi = true;
                            c.split_target = n;
                            c.split_min = Some(min);
                            c.meta = Some(0);
                            c.dust_action = action;
                            c.dust_threshold = thr;
                            c.memo = memo;
                            c.height = height;
                            cfgs.push(c);
                        }
                    }
                }
            }
        }
    }
    let mut shapes: Vec<(u8, Option<Item>, Vec<Item>)> = vec![];
    for vp in var_pools {
        for o in &others {
            for outs in &out_shapes {
                shapes.push((vp, *o, outs.clone()));
            }
        }
    }
    let cfgs = &cfgs;
    shapes
        .par_iter()
        .fold(Local::default, |mut loc, (vp, other, outs)| {
            let mut ins = vec![item(*vp, 1_000_000)];
            ins.extend(other.iter().copied());
            let other_sum: i128 = other.map_or(0, |o| o.value as i128);
            let min_h = space::flow_min_height(&ins, outs);
            let ov = harness::out_views(outs);
            let mut case = Case { ins: ins.clone(), outs: outs.clone(), cfg: space::baseline() };
            let has_i_out = outs.iter().any(|o| o.pool == I);
            let rems: &[u32] = if has_i_out { &[0, 1] } else { &[0] };
            for (cfg, rem) in cfgs.iter().flat_map(|c| rems.iter().map(move |r| (c, *r))) {
                if cfg.height < min_h {
                    continue;
                }
                case.cfg = *cfg;
                case.cfg.anchor_rem = rem;
                case.ins[0].value = 1_000_000;
                let f = Facts::new(&case);
                let n = cfg.split_target as i128;
                let bases = [f.threshold, cfg.split_min.unwrap_or(0) as i128];
                let mut xs: Vec<u64> = vec![];
                for p in [S, O, I] {
                    let man = |c: i128| match p {
                        S => Manifest { s: c, ..Default::default() },
                        O => Manifest { o: c, ..Default::default() },
                        _ => Manifest { i: c, ..Default::default() },
                    };
                    let fees: Vec<i128> = (0..=n).map(|c| f.fee(man(c))).collect();
                    let mut gaps: Vec<i128> = vec![0];
                    for a in 0..=n as usize {
                        for b in 0..a {
                            gaps.push(fees[a] - fees[b]);
                            gaps.push(fees[b] - fees[a]);
                        }
                    }
                    gaps.sort();
                    gaps.dedup();
                    for m in 1..=n {
                        for base in bases {
                            for &g in &gaps {
                                for d in -1..=1 {
                                    let change = m * base + g + d;
                                    if change < 0 {
                                        continue;
                                    }
                                    let x = f.sum_out_all + fees[m as usize] + change - other_sum;
                                    if x >= 1 && x <= MAX_MONEY {
                                        xs.push(x as u64);
                                    }
                                }
                            }
                        }
                    }
                }
                xs.sort();
                xs.dedup();
                for x in xs {
                    case.ins[0].value = x;
                    let iv = harness::in_views(&case.ins);
                    match check_with(net, &case, &iv, &ov) {
                        Ok(l) => loc.record(l, || case.key()),
                        Err(m) => {
                            let new_class = !loc.fail_classes.contains_key(&class_of(&m));
                            loc.violation(&m, || case.key());
                            if new_class || run.failure_count() < 8 {
                                run.fail("balance", case.key(), m, serde_json::to_value(&case).unwrap());
                            }
                        }
                    }
                }
            }
            loc
        })
        .reduce(Local::default, Local::merge)
}

pub fn run(args: &Args) -> i32 {
    let run = Run::new(args, "exploration");
    let tier = args.tier;
    run.set_rule(
        "balance cases: (multiset of inputs, multiset of requested outputs, configuration); inputs/outputs are (pool, transparent script kind, value) items over the \
         boundary alphabets, enumerated as non-decreasing index vectors so every multiset occurs once; three slices: value-rich (all core-alphabet flows x CV), \
         out-of-range (every flow containing a MAX_MONEY-scale value x CO), configuration-rich (lean-alphabet flows x CC minus CV); flows whose payments exceed the \
         inputs by more than 1.1e6 zatoshi get only the default-dust-policy part of CV; a configuration is used for a flow only if every pool the flow touches and the fallback pool exist at the target height; anchors off the grid only for flows with an Ironwood output. \
         change-boundary slice: (variable input pool, optional fixed second input, requested outputs) x multi-output strategies with target 2/3/4, dust policy, \
         min split value {1, T/4, T, 2T}, where the variable input's value is derived so that the total change is m*T or m*minsplit, +-1, plus/minus every gap between two \
         fee estimates of the request, for every m <= target and every change pool; output shapes include a single Ironwood payment of canonical (10^6) and off-denomination (10^6+1) value with the anchor on/off the grid (split_min never equals the 100000 used elsewhere, so no case repeats). \
         fee cases: (rule, transparent input sizes, output sizes, sapling spends/outputs, orchard actions, ironwood actions) over a size/count lattice. \
         Every case is distinct by construction and executes the real code once",
    );
    run.assume("DustOutputPolicy threshold None delegates to the strategy; the ZIP 317 strategies use the marginal fee (5000) as the default dust threshold");
    run.assume("zero-valued change is always allowed (documented for Reject and AddDustToFee)");
    run.assume("AddDustToFee keeps sub-threshold change as a change output when it exceeds 10 x MINIMUM_FEE (documented defence against a too-high threshold); otherwise the folded amount is below the threshold");
    run.assume("when transparent change is allowed and the change is exactly zero the P2PKH change output is omitted but the fee still covers it (documented: a zero-valued transparent output would be unspendable)");
    run.assume("InsufficientFunds.required is outputs + the ZIP 317 fee of a shape the strategy may build (no change, or up to the policy's target number of change outputs in one pool), or inputs + dust shortfall under Reject; a change output is not needed only when nothing shielded is requested, no memo is set and the minimum fee exactly consumes the balance");
    run.assume("requests paying into Orchard after NU6.3 are rejected upstream (Step::from_parts) and are excluded from the turnstile clause only");
    run.assume("Ironwood bundle is unpadded exactly for a canonical crossing as documented on Step::is_canonical_crossing (without the fee condition); Orchard counts spends+outputs from NU6.3; Sapling outputs pad to 2; all other bundles pad to 2 actions");
    run.assume("a ZIP 320 ephemeral output is an entry of proposed_change(), so Step::change_count_in_pool(TRANSPARENT) counts it and a step with one is not a canonical crossing (padded Ironwood bundle)");
    run.assume("the dust threshold applies to every change output (the property's wording), not to the sum of a split change");
    run.assume("Orchard padding is not a parameter of the public strategies (always DEFAULT); action counts near usize::MAX are outside the domain (counts are lengths of in-memory collections)");
    run.assume("a transparent input of unknown P2SH size must produce an error; which error is not constrained beyond UnknownP2shInputs naming exactly those inputs");

    let net = harness::network();
    let in_items = space::in_items();
    let out_items = space::out_items();
    let in_sets = space::multisets(in_items.len(), tier.pick(2, 3));
    let out_sets = space::multisets(out_items.len(), 2);
    let cv = space::cfgs_value(tier);
    let cv_hopeless: Vec<Cfg> = cv.iter().copied().filter(|c| c.dust_action == 0 && c.dust_threshold.is_none() && !c.memo && c.anchor_rem == 0).collect();
    let co = space::cfgs_overflow();
    let cc = space::cfgs_config(tier, &cv);
    run.section("alphabet", json!({
        "input_values_core": space::V_IN_CORE, "output_values_core": space::V_OUT_CORE, "out_of_range_values": space::V_BIG,
        "input_values_lean": space::V_IN_LEAN, "output_values_lean": space::V_OUT_LEAN,
        "input_items": in_items.len(), "output_items": out_items.len(),
        "input_multisets": in_sets.len(), "output_multisets": out_sets.len(),
        "configs_value_slice": cv.len(), "configs_value_slice_hopeless_flows": cv_hopeless.len(), "configs_out_of_range_slice": co.len(), "configs_config_slice": cc.len(),
        "heights": space::HEIGHTS_ALL, "activation": {"nu5": NU5, "nu6_2": NU6_2, "nu6_3": NU6_3},
    }));

    run.section("shortcuts_covered", json!([
        "zip317.rs ceildiv(t_in,150)/ceildiv(t_out,34): sizes 0,1,149,150,151,297,10049 / 0,1,9,32,34,35,44,10009 and their sums; P2PKH input reported as 150; 44-byte output = 2 units",
        "zip317.rs max(grace, logical) and marginal*count overflow: counts 0..5 and MAX_MONEY/5000 -1/0/+1, 2^61",
        "common.rs value <= marginal_fee (dust input): 1, 5000 | 5001",
        "common.rs total_in cmp total_out+min_fee (Less/Equal/Greater) and total_in - total_out with the larger fee: inputs 10000/15000 against outputs 0/5000 and 2..6-action fees",
        "common.rs total_change < dust threshold (None->5000, 0, 5000, 10^6) and total_change == 0",
        "common.rs fee_with_dust > total_fee + 10*MINIMUM_FEE: threshold 10^6 with change on both sides of 100000",
        "common.rs split_count < target_change_count (fee recomputation): targets 1,2,4 x note counts none,0,1,5 x change on both sides of 10^5 per output",
        "common.rs / fees.rs per-output change >= min_split_output_value and >= dust threshold, computed from the max-fee estimate while the final fee may be lower: change-boundary slice puts the total change on m*T and m*minsplit, +-1, +- every fee-estimate gap, for targets 2,3,4",
        "common.rs select_change_pool: every subset of pools with flows, fallback x3, NU6.3 on/off, max change <,==,> Orchard input total",
        "common.rs ironwood_is_canonical_crossing: 0/1/2 Orchard inputs, Ironwood inputs, 0/1/2 Ironwood outputs of canonical (10^6,10^8) and non-canonical values, anchor 0/1/143 mod 144, change in each pool, ephemeral output",
        "common.rs fully_transparent && no memo; TransparentChangeAllowed; zero transparent change omitted",
        "fees.rs TransactionBalance::new checked total; calculate_net_flows overflow: MAX_MONEY/2, MAX_MONEY-1 singly and in pairs",
        "orchard num_actions: cross-address disabled from NU6.3 (spends+outputs) vs max(spends,outputs); pad to 2 / 1; sapling outputs pad to 2",
    ]));
    let out_flows: Vec<Vec<Item>> = out_sets.iter().map(|s| s.iter().map(|i| out_items[*i as usize]).collect()).collect();
    let out_views: Vec<harness::OutViews> = out_flows.iter().map(|o| harness::out_views(o)).collect();
    // OutViews hold Script (Vec<u8>) only: shareable across threads by reference.
    let out_views = &out_views;
    let out_flows = &out_flows;

    let total = in_sets
        .par_iter()
        .fold(Local::default, |mut loc, is| {
            if run.elapsed() > WALL_CAP_S {
                loc.skipped_inputs += 1;
                return loc;
            }
            let ins: Vec<Item> = is.iter().map(|i| in_items[*i as usize]).collect();
            let iv = harness::in_views(&ins);
            let mut case = Case { ins: ins.clone(), outs: vec![], cfg: space::baseline() };
            for (oi, outs) in out_flows.iter().enumerate() {
                let ov = &out_views[oi];
                case.outs.clear();
                case.outs.extend_from_slice(outs);
                let min_h = space::flow_min_height(&ins, outs);
                let has_i_out = outs.iter().any(|o| o.pool == I);
                let big = space::has_big(&ins, outs);
                let lean = !big && space::lean(&ins, outs);
                // A request whose payments exceed its inputs by more than the largest dust threshold
                // plus the largest fee is refused under every configuration; it is kept, but in the
                // value-rich slice only under the default dust policy without memo.
                let hopeless = !big && ins.iter().map(|i| i.value as i128).sum::<i128>() + 1_100_000 < outs.iter().map(|o| o.value as i128).sum::<i128>();
                let cv_list: &[Cfg] = if hopeless { &cv_hopeless[..] } else { &cv[..] };
                let lists: [&[Cfg]; 2] = if big { [&co[..], &[]] } else if lean { [cv_list, &cc[..]] } else { [cv_list, &[]] };
                for list in lists {
                    for cfg in list {
                        if !space::cfg_valid_for(cfg, min_h, has_i_out) {
                            continue;
                        }
                        case.cfg = *cfg;
                        match check_with(&net, &case, &iv, ov) {
                            Ok(l) => loc.record(l, || case.key()),
                            Err(m) => {
                                // keep the first case of every violation class (the cap in Run::fail
                                // must not hide a class behind 40 instances of another one)
                                let new_class = !loc.fail_classes.contains_key(&class_of(&m));
                                loc.violation(&m, || case.key());
                                if new_class || run.failure_count() < 8 {
                                    run.fail("balance", case.key(), m, serde_json::to_value(&case).unwrap());
                                }
                            }
                        }
                    }
                }
            }
            loc
        })
        .reduce(Local::default, Local::merge);

    if total.skipped_inputs > 0 {
        run.cap_hit(&format!("wall cap {}s: {} of {} input multisets (with all their outputs and configurations) not evaluated", WALL_CAP_S, total.skipped_inputs, in_sets.len()));
    }
    let boundary = boundary_slice(&run, tier, &net);
    run.section("change_boundary_cases", json!(boundary.n));
    let total = total.merge(boundary);
    let fees = fee_lattice(&run, tier);
    run.section("balance_cases", json!(total.n));
    run.section("fee_cases", json!(fees.n));
    let all = total.merge(fees);
    run.eval_distinct(all.n);
    for (k, v) in &all.outcomes {
        run.outcome_n(k, *v);
    }
    for (k, v) in &all.first {
        run.force_sample(json!({"outcome": k, "first_case": v}));
    }
    run.section("violation_classes", json!(all.fail_classes.iter().map(|(k, v)| json!({"class": k, "count": v.0, "first_case": v.1})).collect::<Vec<_>>()));
    for (k, v) in &all.fail_classes {
        eprintln!("  violation class [{}] x{} first: {}", k, v.0, v.1);
    }
    let must_see = [
        "ok:no-change", "ok:zero-valued-change", "ok:change:sapling", "ok:change:orchard", "ok:change:ironwood", "ok:change:transparent", "ok:split:sapling",
        "ok:change-promoted-to-ironwood", "ok:canonical-crossing-unpadded", "ok:dust-folded-into-fee", "ok:dust-change-allowed", "ok:zero-transparent-change-omitted",
        "insufficient:below-minimum-fee", "insufficient:cannot-pay-for-change-output", "insufficient:dust-change-rejected", "dust-inputs", "unknown-p2sh-input",
        "amount-out-of-range", "fee:grace", "fee:marginal-x-logical", "fee:overflow", "fee:unknown-p2sh",
    ];
    let missing: Vec<&str> = must_see.iter().copied().filter(|k| !all.outcomes.contains_key(k)).collect();
    run.require(missing.is_empty() || run.failure_count() > 0, &format!("branches never reached: {:?}", missing));
    run.finish(&replay)
}
