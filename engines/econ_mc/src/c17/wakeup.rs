//! Sync/proving wake-up schedules against a brute-force minimum piercing set.

use super::rng::Scripted;
use mc_core::catch;
use zcash_pool_migration::scheduling::{schedule_sync_wakeups, WakeupParams, WakeupScheduleError};
use zcash_protocol::consensus::BlockHeight;

#[derive(Clone, Debug)]
pub struct Instance {
    /// (anchor boundary, broadcast height) per transfer; the transfer's id is its index.
    pub transfers: Vec<(u32, u32)>,
    pub tip: u32,
    pub margin: u32,
    pub jitter_cap: u32,
}

/// The proving window of a transfer, from the documentation: after the anchor has settled (at
/// least max(margin, 1) blocks past it) and strictly before the broadcast; when the margin does not
/// fit before the broadcast the window is the last height before the broadcast (the documented
/// clamp for tiny test-network intervals). `None` when the broadcast is not at least two blocks
/// above the anchor.
fn window(a: u32, b: u32, margin: u32) -> Option<(u64, u64)> {
    let (a, b) = (a as u64, b as u64);
    if b < a + 2 {
        return None;
    }
    let deadline = b - 1;
    Some(((a + margin.max(1) as u64).min(deadline), deadline))
}

/// Fewest points piercing every window: the fewest blocks over all set partitions of the windows
/// into groups with a common point (every partition of <= 5 windows is tried).
fn min_piercing(ws: &[(u64, u64)]) -> usize {
    fn rec(ws: &[(u64, u64)], i: usize, groups: &mut Vec<(u64, u64)>, best: &mut usize) {
        if groups.len() >= *best {
            return;
        }
        if i == ws.len() {
            *best = groups.len();
            return;
        }
        let (lo, hi) = ws[i];
        for g in 0..groups.len() {
            let old = groups[g];
            let merged = (old.0.max(lo), old.1.min(hi));
            if merged.0 <= merged.1 {
                groups[g] = merged;
                rec(ws, i + 1, groups, best);
                groups[g] = old;
            }
        }
        groups.push((lo, hi));
        rec(ws, i + 1, groups, best);
        groups.pop();
    }
    let mut best = ws.len() + 1;
    rec(ws, 0, &mut Vec::new(), &mut best);
    if ws.is_empty() {
        0
    } else {
        best
    }
}

pub struct Verdict {
    pub class: &'static str,
    /// words the generator was asked for
    pub draws: u32,
    /// bitmask of the jitters observed (bit j set: some wake-up landed j blocks past its opening)
    pub jitters: u32,
}

pub fn check(inst: &Instance, words: &[u64], fallback: u64) -> Result<Verdict, String> {
    let params = WakeupParams::new(inst.margin, inst.jitter_cap);
    let input: Vec<(usize, BlockHeight, BlockHeight)> = inst.transfers.iter().enumerate().map(|(i, (a, b))| (i, BlockHeight::from_u32(*a), BlockHeight::from_u32(*b))).collect();
    let mut rng = Scripted::new(words, fallback);
    let got = catch(|| schedule_sync_wakeups(&params, BlockHeight::from_u32(inst.tip), &input, &mut rng)).map_err(|p| format!("panic: {p}"))?;
    let tip = inst.tip as u64;
    let wins: Vec<Option<(u64, u64)>> = inst.transfers.iter().map(|(a, b)| window(*a, *b, inst.margin)).collect();
    let infeasible: Vec<usize> = wins.iter().enumerate().filter(|(_, w)| w.is_none()).map(|(i, _)| i).collect();
    let wakeups = match got {
        Err(WakeupScheduleError::InfeasibleTransfer(id)) => {
            return if infeasible.contains(&id) {
                Ok(Verdict { class: "wakeup:infeasible-reported", draws: rng.consumed, jitters: 0 })
            } else {
                Err(format!("transfer {id} reported infeasible, but the infeasible transfers are {:?}", infeasible))
            };
        }
        Ok(_) if !infeasible.is_empty() => return Err(format!("infeasible transfers {:?} were not reported", infeasible)),
        Ok(w) => w,
    };
    let wins: Vec<(u64, u64)> = wins.into_iter().map(|w| w.expect("feasible")).collect();
    let overdue = |i: usize| wins[i].1 < tip;
    // effective windows of the transfers that can still be proved on time
    let eff = |i: usize| (wins[i].0.max(tip), wins[i].1);
    let any_overdue = (0..wins.len()).any(overdue);

    let mut covered = vec![0u32; wins.len()];
    let mut prev: Option<u64> = None;
    let mut jitters = 0u32;
    for (wi, w) in wakeups.iter().enumerate() {
        let h = u32::from(w.height()) as u64;
        if h < tip {
            return Err(format!("wake-up #{wi} at {h} is below the tip {tip}"));
        }
        if prev.is_some_and(|p| h <= p) {
            return Err(format!("wake-up heights are not strictly increasing: {:?}", wakeups.iter().map(|w| u32::from(w.height())).collect::<Vec<_>>()));
        }
        prev = Some(h);
        if w.covers().is_empty() {
            return Err(format!("wake-up #{wi} at {h} covers nothing"));
        }
        let mut max_open = 0u64;
        let mut seen_timely = false;
        let mut last_deadline = 0u64;
        for &id in w.covers() {
            if id >= wins.len() {
                return Err(format!("wake-up #{wi} covers unknown transfer {id}"));
            }
            covered[id] += 1;
            if overdue(id) {
                if h != tip {
                    return Err(format!("overdue transfer {id} is covered at {h}, not at the tip {tip}"));
                }
                if seen_timely {
                    return Err(format!("wake-up #{wi} lists overdue transfer {id} after a timely one"));
                }
            } else {
                let (lo, hi) = eff(id);
                if h < lo || h > hi {
                    return Err(format!("transfer {id} is covered at {h}, outside its proving window [{lo}, {hi}]"));
                }
                if seen_timely && hi < last_deadline {
                    return Err(format!("wake-up #{wi} does not list its transfers in deadline order: {:?}", w.covers()));
                }
                seen_timely = true;
                last_deadline = hi;
                max_open = max_open.max(lo);
            }
        }
        if seen_timely && !(any_overdue && h == tip) {
            let j = h - max_open;
            if j > inst.jitter_cap as u64 {
                return Err(format!("wake-up #{wi} at {h} is {j} past its group's opening {max_open}, jitter cap {}", inst.jitter_cap));
            }
            jitters |= 1 << j.min(31);
        }
    }
    if let Some(i) = covered.iter().position(|c| *c != 1) {
        return Err(format!("transfer {i} is covered {} times", covered[i]));
    }
    // minimality
    let timely: Vec<(u64, u64)> = (0..wins.len()).filter(|&i| !overdue(i)).map(eff).collect();
    let want = if any_overdue {
        let rest: Vec<(u64, u64)> = timely.iter().copied().filter(|w| w.0 > tip).collect();
        1 + min_piercing(&rest)
    } else {
        min_piercing(&timely)
    };
    if wakeups.len() != want {
        return Err(format!("{} wake-ups scheduled, the minimum is {want}", wakeups.len()));
    }
    let class = match (any_overdue, wakeups.len()) {
        (_, 0) => "wakeup:none-needed",
        (true, 1) => "wakeup:immediate-only",
        (true, _) => "wakeup:immediate-plus-groups",
        (false, n) if n < wins.len() => "wakeup:shared",
        (false, _) => "wakeup:one-each",
    };
    Ok(Verdict { class, draws: rng.consumed, jitters })
}
