//! Delays, cumulative broadcast heights, expiries, shuffles, scaled distributions.

use super::rng::Scripted;
use mc_core::catch;
use std::num::NonZeroU32;
use zcash_pool_migration::scheduling::{
    schedule, schedule_broadcast_heights, schedule_prep_broadcast_heights, shuffle_in_place, shuffle_indices, AnchorBucketInterval, DelayDistribution, SchedulingParams,
};
use zcash_protocol::consensus::BlockHeight;
use zcash_protocol::zip318::{expiry_height, PoolMigrationConstants};

/// ZIP 318 expiry modulus (about 30 days of blocks), written out.
const MODULUS: u64 = 34_560;
const TOP: u64 = u32::MAX as u64;

/// The canonical rolling expiry from the ZIP text: the most recent multiple of the modulus at or
/// below the height, plus two moduli; saturating at the maximum height.
pub fn ref_expiry(h: u64) -> u64 {
    ((h / MODULUS) * MODULUS + 2 * MODULUS).min(TOP)
}

struct Std;
impl PoolMigrationConstants for Std {}

pub fn nz(v: u32) -> NonZeroU32 {
    NonZeroU32::new(v).expect("nonzero")
}

pub fn dist(mean: u32, cap: u32) -> Result<DelayDistribution, String> {
    DelayDistribution::new(nz(mean), nz(cap)).ok_or_else(|| format!("harness: DelayDistribution::new({mean},{cap}) refused"))
}

/// One draw: the delay is within the cap. Returns the outcome class.
pub fn check_delay(mean: u32, cap: u32, words: &[u64], fallback: u64) -> Result<String, String> {
    let d = dist(mean, cap)?;
    let mut rng = Scripted::new(words, fallback);
    let delay = catch(|| d.draw(&mut rng)).map_err(|p| format!("panic: {p}"))?;
    if delay > cap {
        return Err(format!("delay {delay} exceeds the cap {cap}"));
    }
    let edge = if delay == cap {
        "at-cap"
    } else if delay == 0 {
        "zero"
    } else {
        "inside"
    };
    // visibility only: the documented formula on the accepted word leaves 32 bits (the code rounds through u64 to u32)
    let wrapped = rng.consumed == 1 && !words.is_empty() && super::rng::delay_of_k(mean, words[0] >> 11) > u32::MAX as u64;
    Ok(format!("delay({mean},{cap}):{edge}:{}", if wrapped { "first-word-wrapped-32-bits" } else if rng.consumed > 1 { "after-rejection" } else { "first-word" }))
}

/// `schedule`, `schedule_broadcast_heights`, `schedule_prep_broadcast_heights` from `commit` for
/// `n` parts under the distribution (mean, cap).
pub fn check_schedule(mean: u32, cap: u32, commit: u32, n: usize, words: &[u64], fallback: u64) -> Result<&'static str, String> {
    let d = dist(mean, cap)?;
    let other = dist(7, 9)?;
    let interval = AnchorBucketInterval::ZIP_318;
    let as_transfer = SchedulingParams::new(interval, d, other);
    let as_prep = SchedulingParams::new(interval, other, d);
    let h = BlockHeight::from_u32(commit);
    let (s, b, p) = catch(|| {
        (
            schedule(&as_transfer, h, n, &mut Scripted::new(words, fallback)),
            schedule_broadcast_heights(&as_transfer, h, n, &mut Scripted::new(words, fallback)),
            schedule_prep_broadcast_heights(&as_prep, h, n, &mut Scripted::new(words, fallback)),
        )
    })
    .map_err(|p| format!("panic: {p}"))?;
    let sb: Vec<u32> = s.iter().map(|x| u32::from(x.broadcast_height())).collect();
    let bb: Vec<u32> = b.iter().map(|x| u32::from(*x)).collect();
    let pb: Vec<u32> = p.iter().map(|x| u32::from(*x)).collect();
    if sb != bb || bb != pb {
        return Err(format!("the same stream and distribution give different heights: schedule {:?}, transfers {:?}, preparations {:?}", sb, bb, pb));
    }
    if bb.len() != n {
        return Err(format!("{} heights for {} parts", bb.len(), n));
    }
    let mut prev = commit;
    let mut saturated = false;
    for (i, &x) in bb.iter().enumerate() {
        if x < prev {
            return Err(format!("height #{i} = {x} decreases below {prev} (commit {commit})"));
        }
        if x - prev > cap {
            return Err(format!("step #{i} = {} exceeds the delay cap {cap}", x - prev));
        }
        saturated |= x == u32::MAX;
        prev = x;
    }
    for (i, x) in s.iter().enumerate() {
        let want = ref_expiry(u32::from(x.broadcast_height()) as u64);
        if u32::from(x.expiry_height()) as u64 != want {
            return Err(format!("part #{i}: expiry {} of broadcast height {} is not the canonical rolling expiry {want}", u32::from(x.expiry_height()), u32::from(x.broadcast_height())));
        }
    }
    Ok(if n == 0 {
        "schedule:empty"
    } else if saturated {
        "schedule:saturated"
    } else if prev == commit {
        "schedule:all-zero-delays"
    } else {
        "schedule:advancing"
    })
}

pub fn check_expiry(h: u32) -> Result<&'static str, String> {
    let want = ref_expiry(h as u64);
    let (free, method) = catch(|| (u32::from(expiry_height(BlockHeight::from_u32(h))), u32::from(Std.canonical_expiry(BlockHeight::from_u32(h))))).map_err(|p| format!("panic: {p}"))?;
    if free as u64 != want || method as u64 != want {
        return Err(format!("expiry_height({h}) = {free}, canonical_expiry = {method}, canonical rolling expiry = {want}"));
    }
    if want < TOP {
        if !(want > h as u64 && want - h as u64 <= 2 * MODULUS && want - h as u64 >= MODULUS) {
            return Err(format!("expiry {want} is not between one and two periods past {h}"));
        }
        if !Std.is_canonical_expiry_value(BlockHeight::from_u32(free)) || !Std.is_canonical_expiry(BlockHeight::from_u32(free), BlockHeight::from_u32(h)) {
            return Err(format!("the canonical expiry {free} of {h} is not recognised as canonical"));
        }
        Ok("expiry:rolling")
    } else {
        Ok("expiry:saturated")
    }
}

/// `shuffle_indices(n)` is a permutation of `0..n`; `shuffle_in_place` applies the same
/// permutation to any slice.
pub fn check_shuffle(n: usize, words: &[u64], fallback: u64) -> Result<&'static str, String> {
    let mut rng = Scripted::new(words, fallback);
    let perm = catch(|| shuffle_indices(n, &mut rng)).map_err(|p| format!("panic: {p}"))?;
    let mut seen = vec![false; n];
    if perm.len() != n {
        return Err(format!("shuffle_indices({n}) has {} entries", perm.len()));
    }
    for &i in &perm {
        if i >= n || std::mem::replace(&mut seen[i], true) {
            return Err(format!("shuffle_indices({n}) = {:?} is not a permutation", perm));
        }
    }
    let mut labels: Vec<u32> = (0..n as u32).map(|i| 100 + i).collect();
    catch(|| shuffle_in_place(&mut labels, &mut Scripted::new(words, fallback))).map_err(|p| format!("panic: {p}"))?;
    if labels.iter().zip(&perm).any(|(l, p)| *l != 100 + *p as u32) {
        return Err(format!("shuffle_in_place {:?} disagrees with shuffle_indices {:?} on the same stream", labels, perm));
    }
    let rejected = n >= 2 && rng.consumed as usize > n - 1;
    Ok(match (perm.iter().enumerate().all(|(i, p)| i == *p), rejected) {
        (true, false) => "shuffle:identity",
        (true, true) => "shuffle:identity-after-rejection",
        (false, false) => "shuffle:moved",
        (false, true) => "shuffle:moved-after-rejection",
    })
}

/// `new_with_default_distributions(interval)`: every ZIP 318 mean and cap times interval/144,
/// truncated, clamped up to one block, saturating at u32::MAX; `DelayDistribution::new` refuses a
/// cap below the mean.
pub fn check_scaled(interval: u32) -> Result<&'static str, String> {
    let p = catch(|| SchedulingParams::new_with_default_distributions(AnchorBucketInterval::custom(nz(interval)))).map_err(|p| format!("panic: {p}"))?;
    let scale = |v: u64| -> u32 { (v * interval as u64 / 144).clamp(1, TOP) as u32 };
    let got = [p.transfer_delay().mean().get(), p.transfer_delay().cap().get(), p.preparation_delay().mean().get(), p.preparation_delay().cap().get()];
    let want = [scale(66), scale(576), scale(16), scale(96)];
    if got != want || p.anchor_bucket_interval().block_count().get() != interval {
        return Err(format!("scaled distributions for interval {interval}: {:?}, expected {:?}", got, want));
    }
    for d in [p.transfer_delay(), p.preparation_delay()] {
        if DelayDistribution::new(d.mean(), d.cap()) != Some(d) {
            return Err(format!("scaled distribution {:?} is not one the validated constructor accepts", d));
        }
    }
    Ok(if want[1] == u32::MAX {
        "scaled:saturated"
    } else if want[2] == 1 && 16 * (interval as u64) < 144 {
        "scaled:clamped-up"
    } else {
        "scaled:plain"
    })
}

pub fn check_dist_new(mean: u32, cap: u32) -> Result<&'static str, String> {
    let r = catch(|| DelayDistribution::new(nz(mean), nz(cap))).map_err(|p| format!("panic: {p}"))?;
    match r {
        Some(d) if cap >= mean && d.mean().get() == mean && d.cap().get() == cap => Ok("dist:accepted"),
        None if cap < mean => Ok("dist:refused"),
        other => Err(format!("DelayDistribution::new({mean},{cap}) = {:?}", other)),
    }
}
