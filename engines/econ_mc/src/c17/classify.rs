//! The evidence lattice of `zcash_protocol::zip318::classify`.

use mc_core::catch;
use zcash_protocol::value::Zatoshis;
use zcash_protocol::zip318::{classify, PoolMigrationConstants, Zip318Classification as Cl, Zip318Evidence, Zip318TxKind};

/// A point of the lattice: one index per field, 0 = unanswered.
pub type Point = [u8; 8];

pub const FIELD_NAMES: [&str; 8] = ["source_actions", "destination_actions", "other_bundles_present", "source_is_send_to_self", "sole_destination_value", "expiry_is_canonical", "anchor_on_grid", "fee_is_canonical"];
/// Answers per field (index 1..): action counts on each side of 2, of the padded preparation count
/// (16, or 3 under the custom constants) and of 0/1 destination actions; values on each side of the
/// denomination bounds and off the series.
pub const SOURCE: [usize; 8] = [0, 1, 2, 3, 4, 15, 16, 17];
pub const DEST: [usize; 3] = [0, 1, 2];
pub const VALUES: [u64; 8] = [0, 5, 999_999, 1_000_000, 3_000_000, 200_000_000, 1_000_000_000_000, 2_000_000_000_000];
/// number of indices per field (including 0 = None)
pub const ARITY: [u8; 8] = [9, 4, 3, 3, 9, 3, 3, 3];

/// Constants of the network: the specified ones, or a test network's overrides.
pub struct Consts {
    pub custom: bool,
}
impl PoolMigrationConstants for Consts {
    fn preparation_tx_actions(&self) -> usize {
        if self.custom {
            3
        } else {
            16
        }
    }
    fn denomination_cap(&self) -> Zatoshis {
        if self.custom {
            Zatoshis::const_from_u64(100_000_000)
        } else {
            Zatoshis::const_from_u64(1_000_000_000_000)
        }
    }
}

fn tri(i: u8) -> Option<bool> {
    match i {
        0 => None,
        1 => Some(false),
        _ => Some(true),
    }
}

pub fn evidence(p: &Point) -> Zip318Evidence {
    Zip318Evidence::default()
        .with_source_actions((p[0] > 0).then(|| SOURCE[p[0] as usize - 1]))
        .with_destination_actions((p[1] > 0).then(|| DEST[p[1] as usize - 1]))
        .with_other_bundles_present(tri(p[2]))
        .with_source_is_send_to_self(tri(p[3]))
        .with_sole_destination_value((p[4] > 0).then(|| Zatoshis::const_from_u64(VALUES[p[4] as usize - 1])))
        .with_expiry_is_canonical(tri(p[5]))
        .with_anchor_on_grid(tri(p[6]))
        .with_fee_is_canonical(tri(p[7]))
}

pub fn describe(p: &Point) -> String {
    format!("{:?}", evidence(p))
}

fn code(c: Cl) -> u8 {
    match c {
        Cl::Unknown => 0,
        Cl::Nonconforming => 1,
        Cl::Conforms(Zip318TxKind::Preparation) => 2,
        Cl::Conforms(Zip318TxKind::Transfer) => 3,
    }
}
pub const CLASS_NAMES: [&str; 4] = ["unknown", "nonconforming", "preparation", "transfer"];

pub fn classify_point(p: &Point, custom: bool) -> Result<u8, String> {
    let e = evidence(p);
    catch(|| code(classify(&e, &Consts { custom }))).map_err(|x| format!("panic: {x}"))
}

/// Whether an answer (or its absence) is compatible with the canonical shape of each kind, per the
/// documentation of `Zip318TxKind`, `Zip318Evidence` and `classify`.
fn canonical_value(v: u64, custom: bool) -> bool {
    let cap = if custom { 100_000_000 } else { 1_000_000_000_000 };
    [1u64, 2, 5].iter().any(|m| (6..=12).any(|k| m * 10u64.pow(k) == v)) && (1_000_000..=cap).contains(&v)
}
fn fits_prep(p: &Point, custom: bool) -> bool {
    let prep_actions = if custom { 3 } else { 16 };
    (p[0] == 0 || SOURCE[p[0] as usize - 1] == prep_actions)
        && (p[1] == 0 || DEST[p[1] as usize - 1] == 0)
        && p[2] != 2
        && p[3] != 1
        && p[5] != 1
        && p[6] != 1
        && p[7] != 1
}
fn fits_transfer(p: &Point, custom: bool) -> bool {
    (p[0] == 0 || SOURCE[p[0] as usize - 1] == 2)
        && (p[1] == 0 || DEST[p[1] as usize - 1] == 1)
        && p[2] != 2
        && (p[4] == 0 || canonical_value(VALUES[p[4] as usize - 1], custom))
        && p[5] != 1
        && p[6] != 1
        && p[7] != 1
}
/// every clause the kind needs is answered
fn decided_prep(p: &Point) -> bool {
    p[0] > 0 && p[1] > 0 && p[2] > 0 && p[3] > 0 && p[5] > 0
}
fn decided_transfer(p: &Point) -> bool {
    p[0] > 0 && p[1] > 0 && p[2] > 0 && p[4] > 0 && p[5] > 0
}

/// Point-wise obligations. Returns the class.
pub fn check_point(p: &Point, custom: bool) -> Result<u8, String> {
    let c = classify_point(p, custom)?;
    let (fp, ft) = (fits_prep(p, custom), fits_transfer(p, custom));
    match c {
        // nothing is refuted without a negative observation: evidence compatible with a canonical
        // shape is never Nonconforming
        1 if fp || ft => Err(format!("refuted without a negative observation: {} is compatible with a canonical {}", describe(p), if fp { "preparation" } else { "transfer" })),
        // a label is only given when every required clause is answered and none is negative
        2 if !(fp && decided_prep(p)) => Err(format!("labelled a preparation without the evidence: {}", describe(p))),
        3 if !(ft && decided_transfer(p)) => Err(format!("labelled a transfer without the evidence: {}", describe(p))),
        _ => {
            // fully answered evidence is always decided, and decided correctly
            if p.iter().all(|i| *i > 0) {
                let want = if fp {
                    2
                } else if ft {
                    3
                } else {
                    1
                };
                if c != want {
                    return Err(format!("fully answered evidence {} classified {}, expected {}", describe(p), CLASS_NAMES[c as usize], CLASS_NAMES[want as usize]));
                }
            }
            Ok(c)
        }
    }
}

/// One covering edge: `p` with field `f` (unanswered in `p`) answered by index `v`.
pub fn check_edge(p: &Point, f: usize, v: u8, custom: bool) -> Result<&'static str, String> {
    let mut q = *p;
    if p[f] != 0 || v == 0 || v >= ARITY[f] {
        return Err("harness: not a covering edge".into());
    }
    q[f] = v;
    let (a, b) = (classify_point(p, custom)?, classify_point(&q, custom)?);
    let confirmatory = f >= 6;
    if confirmatory && v == 2 {
        // documented: a confirmatory clause answered positively is as good as absent
        return if a == b { Ok("edge:confirmatory-positive-same") } else { Err(format!("answering {} = true changed {} into {}: {}", FIELD_NAMES[f], CLASS_NAMES[a as usize], CLASS_NAMES[b as usize], describe(p))) };
    }
    if confirmatory {
        // documented: a confirmatory clause answered negatively refutes; whether it is answered is a
        // fixed capability of the source, so this edge is not one a single source walks
        return if b == 1 {
            Ok(if a >= 2 { "edge:confirmatory-negative-overrides-label" } else { "edge:confirmatory-negative-refutes" })
        } else {
            Err(format!("{} = false did not refute: {} -> {}: {}", FIELD_NAMES[f], CLASS_NAMES[a as usize], CLASS_NAMES[b as usize], describe(&q)))
        };
    }
    if a != 0 && a != b {
        return Err(format!("decision changed as evidence grew: {} is {}, with {} answered ({}) it is {}", describe(p), CLASS_NAMES[a as usize], FIELD_NAMES[f], describe(&q), CLASS_NAMES[b as usize]));
    }
    Ok(match (a, b) {
        (0, 0) => "edge:unknown-unknown",
        (0, _) => "edge:unknown-decided",
        _ => "edge:decision-kept",
    })
}

pub fn check_codes(code_in: i64) -> Result<&'static str, String> {
    let c = catch(|| Cl::from_code(code_in)).map_err(|p| format!("panic: {p}"))?;
    let back = c.to_code();
    if Cl::from_code(back) != c {
        return Err(format!("from_code(to_code({:?})) != itself", c));
    }
    match code_in {
        0 if c == Cl::Unknown => Ok("code:unknown"),
        1 if c == Cl::Nonconforming => Ok("code:nonconforming"),
        2 if c == Cl::Conforms(Zip318TxKind::Preparation) => Ok("code:preparation"),
        3 if c == Cl::Conforms(Zip318TxKind::Transfer) => Ok("code:transfer"),
        x if !(0..=3).contains(&x) && c == Cl::Unknown => Ok("code:unrecognised-is-unknown"),
        x => Err(format!("from_code({x}) = {:?}", c)),
    }
}
