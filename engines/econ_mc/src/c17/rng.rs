//! The random generator as an environment the harness answers: a scripted `RngCore` that replays a
//! word sequence and then falls back to a constant under which the function under test terminates.
//! Plus the word alphabets, derived by inverting the thresholds of the code under test.

use rand_core::{CryptoRng, RngCore};

/// More draws than any terminating run in this check can need. Exceeding it is reported as
/// non-termination under a stream that must terminate.
pub const DRAW_LIMIT: u32 = 4096;
pub const MAX_SCRIPT: usize = 6;

#[derive(Clone)]
pub struct Scripted {
    words: [u64; MAX_SCRIPT],
    len: usize,
    pos: usize,
    fallback: u64,
    pub consumed: u32,
}

impl Scripted {
    pub fn new(words: &[u64], fallback: u64) -> Scripted {
        assert!(words.len() <= MAX_SCRIPT, "script too long");
        let mut w = [0u64; MAX_SCRIPT];
        w[..words.len()].copy_from_slice(words);
        Scripted { words: w, len: words.len(), pos: 0, fallback, consumed: 0 }
    }
}

impl RngCore for Scripted {
    fn next_u32(&mut self) -> u32 {
        self.next_u64() as u32
    }
    fn next_u64(&mut self) -> u64 {
        self.consumed += 1;
        if self.consumed > DRAW_LIMIT {
            panic!("scripted generator: more than {DRAW_LIMIT} words drawn under a terminating stream (rejection sampling does not terminate)");
        }
        if self.pos < self.len {
            self.pos += 1;
            self.words[self.pos - 1]
        } else {
            self.fallback
        }
    }
    fn fill_bytes(&mut self, dest: &mut [u8]) {
        for c in dest.chunks_mut(8) {
            let w = self.next_u64().to_le_bytes();
            c.copy_from_slice(&w[..c.len()]);
        }
    }
    fn try_fill_bytes(&mut self, dest: &mut [u8]) -> Result<(), rand_core::Error> {
        self.fill_bytes(dest);
        Ok(())
    }
}
impl CryptoRng for Scripted {}

/// Call `f` on every sequence over `alphabet` of length `0..=max_len` that starts with `prefix`
/// (the prefix counts towards the length).
pub fn for_each_seq(alphabet: &[u64], prefix: &[u64], max_len: usize, f: &mut dyn FnMut(&[u64])) {
    let mut cur: Vec<u64> = prefix.to_vec();
    fn rec(alphabet: &[u64], cur: &mut Vec<u64>, max_len: usize, f: &mut dyn FnMut(&[u64])) {
        f(cur);
        if cur.len() == max_len {
            return;
        }
        for &w in alphabet {
            cur.push(w);
            rec(alphabet, cur, max_len, f);
            cur.pop();
        }
    }
    if cur.len() <= max_len {
        rec(alphabet, &mut cur, max_len, f);
    }
}

/// Number of sequences of length 0..=max_len over an alphabet of `a` symbols.
pub fn seq_count(a: u64, max_len: u32) -> u64 {
    (0..=max_len).map(|l| a.pow(l)).sum()
}

fn dedup(mut v: Vec<u64>) -> Vec<u64> {
    v.sort();
    v.dedup();
    v
}

/// Multiplicative inverse of an odd number modulo 2^64.
fn inv_odd(o: u64) -> u64 {
    let mut x = o;
    for _ in 0..6 {
        x = x.wrapping_mul(2u64.wrapping_sub(o.wrapping_mul(x)));
    }
    x
}

/// Words around every threshold of a widening-multiply bounded draw (`(word * bound) >> 64`, the
/// low half rejected below `2^64 mod bound`) for each bound: the first word of every index and the
/// word before it; every word whose low product is `0..=t` (below `t`: rejected; `t`: the first
/// accepted).
pub fn bounded_draw_words(bounds: &[u64]) -> Vec<u64> {
    let mut v = vec![0u64, 1, u64::MAX];
    for &b in bounds {
        for i in 1..b {
            let w = (((i as u128) << 64).div_ceil(b as u128)) as u64;
            v.push(w);
            v.push(w - 1);
        }
        let t = ((1u128 << 64) % b as u128) as u64;
        if t == 0 {
            continue;
        }
        let s = b.trailing_zeros();
        let o = b >> s;
        for r in 0..=t {
            if r & ((1u64 << s) - 1) != 0 {
                continue;
            }
            // w * o == r >> s  (mod 2^(64-s))
            let w0 = (r >> s).wrapping_mul(inv_odd(o)) & (u64::MAX >> s);
            for j in 0..(1u64 << s) {
                v.push(w0 | (j << (64 - s).min(63)));
            }
        }
    }
    dedup(v)
}

/// The documented delay of a word: `round(-mean * ln(u))`, `u = 1 - k / 2^53`, `k` the top 53 bits.
pub fn delay_of_k(mean: u32, k: u64) -> u64 {
    let u = 1.0 - (k as f64) / ((1u64 << 53) as f64);
    let x = -(mean as f64) * u.ln();
    (x + 0.5).floor() as u64
}

/// Words on each side of every threshold of the truncated-exponential draw for (mean, cap): the
/// rounding step 0/1, the acceptance edge cap / cap+1, and the points where the rounded value
/// leaves 32 bits (and re-enters the accepted range after wrapping).
pub fn delay_words(mean: u32, cap: u32) -> Vec<u64> {
    let kmax = (1u64 << 53) - 1;
    let mut v = vec![0u64, 0x7ff, 1 << 11, u64::MAX, u64::MAX << 11];
    for d in [1u64, cap as u64, cap as u64 + 1, 1 << 32, (1 << 32) + cap as u64 + 1] {
        if delay_of_k(mean, kmax) < d {
            continue;
        }
        // least k with delay >= d (the delay is non-decreasing in k)
        let (mut lo, mut hi) = (0u64, kmax);
        while lo < hi {
            let mid = lo + (hi - lo) / 2;
            if delay_of_k(mean, mid) >= d {
                hi = mid;
            } else {
                lo = mid + 1;
            }
        }
        v.push(lo << 11);
        v.push((lo << 11) | 0x7ff);
        if lo > 0 {
            v.push((lo - 1) << 11);
        }
    }
    dedup(v)
}

/// Words for the fair-coin anchor-age draw (age = 1 + number of low zero bits, continuing into the
/// next word): ages 1..=4 accepted, 5 and 6 just past the cap, 64 the last bit of a word, the empty
/// word, and two words with more than one set bit.
pub fn age_words() -> Vec<u64> {
    let mut v = vec![0u64, u64::MAX, 1 << 63, 0b110, 0b1010000];
    for k in 0..=5 {
        v.push(1u64 << k);
    }
    dedup(v)
}

pub fn hexw(words: &[u64]) -> Vec<String> {
    words.iter().map(|w| format!("{w:#x}")).collect()
}

pub fn parse_words(v: &serde_json::Value) -> Vec<u64> {
    v.as_array()
        .map(|a| a.iter().filter_map(|x| x.as_str()).filter_map(|s| u64::from_str_radix(s.trim_start_matches("0x"), 16).ok()).collect())
        .unwrap_or_default()
}
