//! Anchor boundary draws and the grid helpers.

use super::rng::Scripted;
use super::sched::nz;
use mc_core::catch;
use zcash_pool_migration::scheduling::{draw_anchor_boundary, earliest_broadcast_height, redraw_anchor_boundary, AnchorBucketInterval};
use zcash_protocol::consensus::BlockHeight;

/// ZIP 318 anchor age cap, in boundaries.
const AGE_CAP: u64 = 4;
const TOP: u64 = u32::MAX as u64;

fn bh(h: u32) -> BlockHeight {
    BlockHeight::from_u32(h)
}

/// The reference enumeration of admissible anchors: boundaries `most_recent - age * interval` for
/// age 1..=4 (strictly below the most recent boundary, within the age cap) that are strictly above
/// `above` (when given) and at or after `floor`.
pub fn ref_candidates(interval: u64, above: Option<u64>, floor: u64, tip: u64) -> Vec<u64> {
    let most_recent = tip - tip % interval;
    (1..=AGE_CAP)
        .filter_map(|age| most_recent.checked_sub(age * interval))
        .filter(|c| above.map_or(true, |a| *c > a) && *c >= floor)
        .collect()
}

fn verdict(got: Option<u32>, cands: &[u64], interval: u64, tip: u64, consumed: u32, what: &str) -> Result<String, String> {
    match got {
        None if cands.is_empty() => Ok(format!("{what}:none")),
        None => Err(format!("{what} returned None although admissible boundaries exist: {:?}", cands)),
        Some(b) if cands.contains(&(b as u64)) => {
            let age = ((tip - tip % interval) - b as u64) / interval;
            Ok(format!("{what}:age{age}:{}", if consumed > 1 { "after-redraw" } else { "first-word" }))
        }
        Some(b) => Err(format!("{what} returned {b}, not one of the admissible boundaries {:?}", cands)),
    }
}

pub fn check_draw(interval: u32, activation: u32, funding: u32, tip: u32, words: &[u64], fallback: u64) -> Result<String, String> {
    let cands = ref_candidates(interval as u64, Some(activation as u64), funding as u64, tip as u64);
    let mut rng = Scripted::new(words, fallback);
    let got = catch(|| draw_anchor_boundary(AnchorBucketInterval::custom(nz(interval)), bh(activation), bh(funding), bh(tip), &mut rng)).map_err(|p| format!("panic: {p}"))?;
    let got = got.map(u32::from);
    // the individual clauses, spelled out (each is implied by membership in `cands`)
    if let Some(b) = got {
        let (b, i, t) = (b as u64, interval as u64, tip as u64);
        if b % i != 0 || b <= activation as u64 || b < funding as u64 || b >= t - t % i || (t - t % i - b) / i > AGE_CAP {
            return Err(format!("drawn anchor {b} violates a clause: boundary of {i}, > activation {activation}, >= funding {funding}, < most recent boundary {}, age <= {AGE_CAP}", t - t % i));
        }
    }
    verdict(got, &cands, interval as u64, tip as u64, rng.consumed, "draw")
}

pub fn check_redraw(interval: u32, prior: u32, broadcast: u32, words: &[u64], fallback: u64) -> Result<String, String> {
    let cands = ref_candidates(interval as u64, None, prior as u64, broadcast as u64);
    let mut rng = Scripted::new(words, fallback);
    let got = catch(|| redraw_anchor_boundary(AnchorBucketInterval::custom(nz(interval)), bh(prior), bh(broadcast), &mut rng)).map_err(|p| format!("panic: {p}"))?;
    verdict(got.map(u32::from), &cands, interval as u64, broadcast as u64, rng.consumed, "redraw")
}

/// `earliest_broadcast_height`: one interval past the lowest boundary that is strictly above the
/// activation and at or after the funding height (saturating); at or after it the candidate set is
/// non-empty, before it it is empty.
pub fn check_earliest(interval: u32, activation: u32, funding: u32, tip: u32) -> Result<&'static str, String> {
    let i = interval as u64;
    let above = (activation as u64 / i + 1) * i;
    let at_or_after = (funding as u64).div_ceil(i) * i;
    let lowest = above.max(at_or_after);
    let want = (lowest + i).min(TOP);
    let got = catch(|| u32::from(earliest_broadcast_height(AnchorBucketInterval::custom(nz(interval)), bh(activation), bh(funding)))).map_err(|p| format!("panic: {p}"))?;
    if got as u64 != want {
        return Err(format!("earliest_broadcast_height = {got}, expected {want}"));
    }
    if lowest + i > TOP {
        return Ok("earliest:saturated");
    }
    let cands = ref_candidates(i, Some(activation as u64), funding as u64, tip as u64);
    let drawn = catch(|| draw_anchor_boundary(AnchorBucketInterval::custom(nz(interval)), bh(activation), bh(funding), bh(tip), &mut Scripted::new(&[], 1))).map_err(|p| format!("panic: {p}"))?;
    if (tip as u64 >= want) != drawn.is_some() || drawn.is_some() == cands.is_empty() {
        return Err(format!("tip {tip} vs earliest {want}: draw = {:?}, admissible boundaries {:?}", drawn, cands));
    }
    Ok(if drawn.is_some() { "earliest:at-or-after" } else { "earliest:before" })
}

/// `is_boundary`, `boundary_at_or_below`, `boundary_at_or_above` against plain modular arithmetic.
pub fn check_grid(interval: u32, h: u32) -> Result<&'static str, String> {
    let iv = AnchorBucketInterval::custom(nz(interval));
    let (i, x) = (interval as u64, h as u64);
    let (is, below, above) = catch(|| (iv.is_boundary(bh(h)), u32::from(iv.boundary_at_or_below(bh(h))), u32::from(iv.boundary_at_or_above(bh(h))))).map_err(|p| format!("panic: {p}"))?;
    let want_above = x.div_ceil(i) * i;
    if is != (x % i == 0) || below as u64 != x - x % i {
        return Err(format!("grid({interval},{h}): is_boundary {is}, at_or_below {below}"));
    }
    if want_above <= TOP {
        if above as u64 != want_above {
            return Err(format!("grid({interval},{h}): at_or_above {above}, expected {want_above}"));
        }
        Ok(if is { "grid:on" } else { "grid:off" })
    } else {
        // documented: saturates at u32::MAX
        if above != u32::MAX {
            return Err(format!("grid({interval},{h}): at_or_above {above}, expected saturation"));
        }
        Ok("grid:saturated")
    }
}

/// Height lattice for an interval: both sides of the first boundaries, of the age-cap horizon
/// (5 and 6 intervals), and of the last boundaries below u32::MAX.
pub fn heights(interval: u32, rich: bool) -> Vec<u32> {
    let i = interval as u64;
    let top_b = TOP / i * i;
    let mut v: Vec<u64> = vec![0, 1, TOP - 1, TOP];
    let ks: &[u64] = if rich { &[1, 2, 3, 4, 5, 6, 7] } else { &[1, 2, 5, 6] };
    for &k in ks {
        for d in [-1i64, 0, 1] {
            let lo = (k * i) as i128 + d as i128;
            let hi = top_b as i128 - ((k - 1) * i) as i128 + d as i128;
            for x in [lo, hi] {
                if (0..=TOP as i128).contains(&x) && (rich || d == 0 || k <= 2) {
                    v.push(x as u64);
                }
            }
        }
    }
    v.sort();
    v.dedup();
    v.into_iter().map(|x| x as u32).collect()
}
