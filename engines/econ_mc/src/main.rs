//! econ_mc — fee/change computation, denomination plans, schedules
mod c07;
mod c16;
mod c17;

use mc_core::{machinery_error, replay_file, Args};
use serde_json::Value;

fn replay(prop: &str) -> fn(&str, &Value) -> Result<(), String> {
    match prop {
        "C07" => c07::replay,
        "C16" => c16::replay,
        "C17" => c17::replay,
        _ => machinery_error(&format!("econ_mc does not serve {prop}")),
    }
}

fn main() {
    let args = Args::parse();
    let rp = replay(&args.prop);
    if let Some(p) = &args.replay {
        std::process::exit(replay_file(p, &rp));
    }
    let code = match args.prop.as_str() {
        "C07" => c07::run(&args),
        "C16" => c16::run(&args),
        "C17" => c17::run(&args),
        _ => unreachable!(),
    };
    std::process::exit(code);
}
