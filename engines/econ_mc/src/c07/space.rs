//! C07 — the enumerated space: item alphabets, multisets, configuration sets.

use super::model::*;
use mc_core::Tier;
use std::collections::HashSet;

const MAXM: u64 = MAX_MONEY as u64;

/// Input values: 1 (dust), 5 000 = marginal fee (dust edge: `<=` is dust), 5 001 (first non-dust),
/// 10 000 / 15 000 (2- and 3-action fees: exact-balance edges), 10^6 / 10^8 (ordinary; both are
/// canonical ZIP 318 denominations; 10^6 is also a dust-threshold symbol), MAX_MONEY/2 and
/// MAX_MONEY-1 (sums leave the amount range).
pub const V_IN_CORE: [u64; 7] = [1, 5_000, 5_001, 10_000, 15_000, 1_000_000, 100_000_000];
pub const V_OUT_CORE: [u64; 6] = [0, 1, 5_000, 10_000, 1_000_000, 100_000_000];
pub const V_BIG: [u64; 2] = [MAXM / 2, MAXM - 1];
pub const V_IN_LEAN: [u64; 4] = [5_000, 5_001, 15_000, 1_000_000];
pub const V_OUT_LEAN: [u64; 3] = [0, 5_000, 1_000_000];

pub fn is_big(v: u64) -> bool {
    V_BIG.contains(&v)
}

/// Input items. Transparent: P2PKH and known-size P2SH with every value, unknown-size P2SH with one
/// value (it is rejected before any arithmetic).
pub fn in_items() -> Vec<Item> {
    let mut v = vec![];
    let vals: Vec<u64> = V_IN_CORE.iter().chain(V_BIG.iter()).copied().collect();
    for kind in 0..2 {
        for &value in &vals {
            v.push(Item { pool: T, kind, value });
        }
    }
    v.push(Item { pool: T, kind: 2, value: 1_000_000 });
    for pool in [S, O, I] {
        for &value in &vals {
            v.push(Item { pool, kind: 0, value });
        }
    }
    v
}

/// Output items. Transparent: P2PKH script with every value; P2SH script (32 bytes) and a 35-byte
/// script (44 bytes, two ZIP 317 output units) with one value each.
pub fn out_items() -> Vec<Item> {
    let mut v = vec![];
    let vals: Vec<u64> = V_OUT_CORE.iter().chain(V_BIG.iter()).copied().collect();
    for &value in &vals {
        v.push(Item { pool: T, kind: 0, value });
    }
    v.push(Item { pool: T, kind: 1, value: 1_000_000 });
    v.push(Item { pool: T, kind: 2, value: 1_000_000 });
    for pool in [S, O, I] {
        for &value in &vals {
            v.push(Item { pool, kind: 0, value });
        }
    }
    v
}

/// All multisets of size <= max over item indices 0..n (as non-decreasing index vectors).
pub fn multisets(n: usize, max: usize) -> Vec<Vec<u8>> {
    let mut all: Vec<Vec<u8>> = vec![vec![]];
    let mut level: Vec<Vec<u8>> = vec![vec![]];
    for _ in 0..max {
        let mut next = vec![];
        for m in &level {
            let lo = m.last().copied().unwrap_or(0) as usize;
            for i in lo..n {
                let mut t = m.clone();
                t.push(i as u8);
                next.push(t);
            }
        }
        all.extend(next.iter().cloned());
        level = next;
    }
    all
}

pub const HEIGHTS_ALL: [u32; 6] = [NU5 - 1, NU5, NU6_2 - 1, NU6_2, NU6_3 - 1, NU6_3];

pub fn strategies() -> Vec<(bool, u8, Option<u64>, Option<u8>)> {
    let mut v = vec![(false, 1, None, None)];
    for (t, m) in [(1u8, None), (1, Some(100_000u64)), (2, Some(100_000)), (4, Some(100_000))] {
        for meta in [None, Some(0u8), Some(1), Some(5)] {
            v.push((true, t, m, meta));
        }
    }
    v
}

pub fn dusts() -> Vec<(u8, Option<u64>)> {
    let mut v = vec![];
    for a in 0..3u8 {
        for t in [None, Some(0u64), Some(5_000), Some(1_000_000)] {
            v.push((a, t));
        }
    }
    v
}

pub const EPHS: [Eph; 5] = [Eph::None, Eph::Input(15_000), Eph::Input(1_000_000), Eph::Output(15_000), Eph::Output(1_000_000)];

pub fn baseline() -> Cfg {
    Cfg { multi: false, split_target: 1, split_min: None, meta: None, dust_action: 0, dust_threshold: None, fallback: S, memo: false, tchange: false, eph: Eph::None, height: NU6_3, anchor_rem: 0 }
}

/// A configuration is valid on its own when the fallback pool exists at the target height.
pub fn cfg_valid(c: &Cfg) -> bool {
    match c.fallback {
        O => c.height >= NU5,
        I => c.height >= NU6_3,
        _ => true,
    }
}

/// Validity of a configuration for a flow: every pool the flow uses exists at the target height;
/// the anchor is varied only for flows with an Ironwood output (the only place it is consulted).
pub fn cfg_valid_for(c: &Cfg, min_height: u32, has_ironwood_output: bool) -> bool {
    c.height >= min_height && (c.anchor_rem == 0 || has_ironwood_output)
}

pub fn flow_min_height(ins: &[Item], outs: &[Item]) -> u32 {
    let mut h = 0;
    for it in ins.iter().chain(outs.iter()) {
        h = h.max(match it.pool {
            O => NU5,
            I => NU6_3,
            _ => 0,
        });
    }
    h
}

fn with_strategy(mut c: Cfg, s: (bool, u8, Option<u64>, Option<u8>)) -> Cfg {
    c.multi = s.0;
    c.split_target = s.1;
    c.split_min = s.2;
    c.meta = s.3;
    c
}

/// CV — configurations of the value-rich slice: strategy x dust policy x height x anchor x memo.
pub fn cfgs_value(tier: Tier) -> Vec<Cfg> {
    let strat: Vec<(bool, u8, Option<u64>, Option<u8>)> = match tier {
        Tier::Quick => vec![(false, 1, None, None), (true, 2, Some(100_000), Some(0)), (true, 4, Some(100_000), Some(1))],
        Tier::Thorough => vec![(false, 1, None, None), (true, 2, Some(100_000), Some(0)), (true, 4, Some(100_000), Some(0)), (true, 4, Some(100_000), Some(1))],
    };
    let heights = [NU5 - 1, NU5, NU6_3 - 1, NU6_3];
    let rems: &[u32] = match tier {
        Tier::Quick => &[0, 1],
        Tier::Thorough => &[0, 1, 143],
    };
    let mut v = vec![];
    for s in &strat {
        for d in dusts() {
            for &h in &heights {
                for &a in rems {
                    for memo in [false, true] {
                        let mut c = with_strategy(baseline(), *s);
                        c.dust_action = d.0;
                        c.dust_threshold = d.1;
                        c.height = h;
                        c.anchor_rem = a;
                        c.memo = memo;
                        v.push(c);
                    }
                }
            }
        }
    }
    v
}

/// CO — configurations of the out-of-range slice (flows with a MAX_MONEY-scale value).
pub fn cfgs_overflow() -> Vec<Cfg> {
    let b = baseline();
    let mut v = vec![b];
    let mut c = with_strategy(b, (true, 4, Some(100_000), Some(0)));
    c.dust_action = 2;
    c.dust_threshold = Some(1_000_000);
    v.push(c);
    let mut c = b;
    c.dust_action = 0;
    c.dust_threshold = Some(1_000_000);
    c.eph = Eph::Output(1_000_000);
    c.tchange = true;
    v.push(c);
    let mut c = b;
    c.eph = Eph::Input(MAXM / 2);
    c.memo = true;
    v.push(c);
    v
}

/// The five coupled groups of configuration dimensions.
fn group_values(g: usize, tier: Tier) -> Vec<Box<dyn Fn(&mut Cfg) + Send + Sync>> {
    let mut v: Vec<Box<dyn Fn(&mut Cfg) + Send + Sync>> = vec![];
    match g {
        0 => {
            for s in strategies() {
                v.push(Box::new(move |c: &mut Cfg| *c = with_strategy(*c, s)));
            }
        }
        1 => {
            for d in dusts() {
                v.push(Box::new(move |c: &mut Cfg| {
                    c.dust_action = d.0;
                    c.dust_threshold = d.1;
                }));
            }
        }
        2 => {
            for fb in [S, O, I] {
                for h in HEIGHTS_ALL {
                    for tc in [false, true] {
                        v.push(Box::new(move |c: &mut Cfg| {
                            c.fallback = fb;
                            c.height = h;
                            c.tchange = tc;
                        }));
                    }
                }
            }
        }
        3 => {
            for memo in [false, true] {
                for e in EPHS {
                    v.push(Box::new(move |c: &mut Cfg| {
                        c.memo = memo;
                        c.eph = e;
                    }));
                }
            }
        }
        _ => {
            let rems: &[u32] = match tier {
                Tier::Quick => &[0, 1],
                Tier::Thorough => &[0, 1, 143],
            };
            for &a in rems {
                v.push(Box::new(move |c: &mut Cfg| c.anchor_rem = a));
            }
        }
    }
    v
}

/// CC — configurations of the configuration-rich slice: quick = every pair of groups fully crossed
/// with the other groups at the baseline; thorough = the full product of all groups. Configurations
/// already in `exclude` (CV) are dropped so that no case is evaluated twice.
pub fn cfgs_config(tier: Tier, exclude: &[Cfg]) -> Vec<Cfg> {
    let groups: Vec<Vec<Box<dyn Fn(&mut Cfg) + Send + Sync>>> = (0..5).map(|g| group_values(g, tier)).collect();
    let mut seen: HashSet<Cfg> = exclude.iter().copied().collect();
    let mut out = vec![];
    let mut push = |c: Cfg, out: &mut Vec<Cfg>| {
        if cfg_valid(&c) && seen.insert(c) {
            out.push(c);
        }
    };
    match tier {
        Tier::Quick => {
            for i in 0..5 {
                for j in (i + 1)..5 {
                    for a in &groups[i] {
                        for b in &groups[j] {
                            let mut c = baseline();
                            a(&mut c);
                            b(&mut c);
                            push(c, &mut out);
                        }
                    }
                }
            }
        }
        Tier::Thorough => {
            for a in &groups[0] {
                for b in &groups[1] {
                    for cc in &groups[2] {
                        for d in &groups[3] {
                            for e in &groups[4] {
                                let mut c = baseline();
                                a(&mut c);
                                b(&mut c);
                                cc(&mut c);
                                d(&mut c);
                                e(&mut c);
                                push(c, &mut out);
                            }
                        }
                    }
                }
            }
        }
    }
    out
}

/// Is every item of the flow in the lean alphabets (and the flow small enough) for the
/// configuration-rich slice?
pub fn lean(ins: &[Item], outs: &[Item]) -> bool {
    ins.len() <= 2 && outs.len() <= 1 && ins.iter().all(|i| V_IN_LEAN.contains(&i.value) && i.kind == 0) && outs.iter().all(|o| V_OUT_LEAN.contains(&o.value) && o.kind == 0)
}

pub fn has_big(ins: &[Item], outs: &[Item]) -> bool {
    ins.iter().chain(outs.iter()).any(|i| is_big(i.value))
}
