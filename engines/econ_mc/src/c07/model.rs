//! C07 — case description and the reference oracle (exact i128 arithmetic).
//!
//! Nothing in this file calls into /repo. The ZIP 317 formula, the bundle padding rules, the
//! canonical-crossing rule, the dust rules and the turnstile rule are re-stated here from ZIP 317
//! and from the documentation of `zcash_client_backend::fees` / `proposal::Step::is_canonical_crossing`
//! / `orchard::builder::BundleType` / `sapling::builder::BundleType`.

use serde::{Deserialize, Serialize};

pub const MAX_MONEY: i128 = 21_000_000 * 100_000_000;
pub const MARGINAL: i128 = 5_000;
pub const GRACE: i128 = 2;
pub const P2PKH_IN: i128 = 150;
pub const P2PKH_OUT: i128 = 34;
/// Serialized size the harness reports for its "P2SH with known redeem script" input.
pub const P2SH_KNOWN_IN: i128 = 297;

// Activation heights of the LocalNetwork the harness uses (all multiples of the 144-block grid).
pub const NU5: u32 = 14_400;
pub const NU6: u32 = 28_800;
pub const NU6_1: u32 = 43_200;
pub const NU6_2: u32 = 57_600;
pub const NU6_3: u32 = 72_000;
pub const GRID: u32 = 144;

pub const T: u8 = 0;
pub const S: u8 = 1;
pub const O: u8 = 2;
pub const I: u8 = 3;
pub const POOL_NAMES: [&str; 4] = ["T", "S", "O", "I"];

/// One input or output. `kind` only matters for the transparent pool:
/// inputs  0 = P2PKH, 1 = P2SH with known size (297 bytes), 2 = P2SH with unknown size;
/// outputs 0 = P2PKH script (25 bytes), 1 = P2SH script (23 bytes), 2 = 35-byte P2PK-style script.
#[derive(Clone, Copy, Debug, PartialEq, Eq, Hash, PartialOrd, Ord, Serialize, Deserialize)]
pub struct Item {
    pub pool: u8,
    pub kind: u8,
    pub value: u64,
}

#[derive(Clone, Copy, Debug, PartialEq, Eq, Hash, Serialize, Deserialize)]
pub enum Eph {
    None,
    Input(u64),
    Output(u64),
}

#[derive(Clone, Copy, Debug, PartialEq, Eq, Hash, Serialize, Deserialize)]
pub struct Cfg {
    /// false: SingleOutputChangeStrategy; true: MultiOutputChangeStrategy
    pub multi: bool,
    /// SplitPolicy target output count (multi only)
    pub split_target: u8,
    /// SplitPolicy min split output value; None = `SplitPolicy::single_output()` (target must be 1)
    pub split_min: Option<u64>,
    /// wallet metadata note count (multi only); None = no metadata for any pool
    pub meta: Option<u8>,
    /// 0 Reject, 1 AllowDustChange, 2 AddDustToFee
    pub dust_action: u8,
    pub dust_threshold: Option<u64>,
    /// fallback change pool: S / O / I
    pub fallback: u8,
    pub memo: bool,
    /// TransparentChangePolicy::TransparentChangeAllowed
    pub tchange: bool,
    pub eph: Eph,
    pub height: u32,
    /// anchor height modulo the 144-block grid (0 = on the grid)
    pub anchor_rem: u32,
}

#[derive(Clone, Debug, PartialEq, Eq, Serialize, Deserialize)]
pub struct Case {
    pub ins: Vec<Item>,
    pub outs: Vec<Item>,
    pub cfg: Cfg,
}

impl Cfg {
    pub fn anchor(&self) -> u32 {
        (self.height / GRID - 2) * GRID + self.anchor_rem
    }
    pub fn key(&self) -> String {
        let strat = if self.multi {
            format!("multi({},{},meta={})", self.split_target, self.split_min.map_or("none".into(), |v| v.to_string()), self.meta.map_or("none".into(), |v| v.to_string()))
        } else {
            "single".to_string()
        };
        let eph = match self.eph {
            Eph::None => "none".to_string(),
            Eph::Input(v) => format!("in{v}"),
            Eph::Output(v) => format!("out{v}"),
        };
        format!(
            "{strat}|dust={}/{}|fb={}|memo={}|tc={}|eph={eph}|h={}|a={}",
            ["reject", "allow", "tofee"][self.dust_action as usize],
            self.dust_threshold.map_or("none".into(), |v| v.to_string()),
            POOL_NAMES[self.fallback as usize],
            self.memo as u8,
            self.tchange as u8,
            self.height,
            self.anchor_rem
        )
    }
}

impl Case {
    pub fn key(&self) -> String {
        let items = |v: &[Item]| v.iter().map(|i| format!("{}{}:{}", POOL_NAMES[i.pool as usize], if i.pool == T { i.kind.to_string() } else { String::new() }, i.value)).collect::<Vec<_>>().join(",");
        format!("in[{}]out[{}]|{}", items(&self.ins), items(&self.outs), self.cfg.key())
    }
}

/// What the real code returned, normalised.
#[derive(Clone, Debug, PartialEq, Eq)]
pub struct ChangeOut {
    pub pool: u8,
    pub value: u64,
    pub ephemeral: bool,
    pub has_memo: bool,
}

#[derive(Clone, Debug, PartialEq, Eq)]
pub enum Obs {
    Ok { change: Vec<ChangeOut>, fee: u64, total: u64, dummy: Option<(usize, usize, usize)> },
    Insufficient { available: u64, required: u64 },
    /// indices into `case.ins` (transparent by outpoint, shielded by note id); u32::MAX = unknown reference
    DustInputs { t: Vec<u32>, s: Vec<u32>, o: Vec<u32>, i: Vec<u32> },
    UnknownP2sh(Vec<u32>),
    BalanceOverflow,
    BalanceUnderflow,
    Bundle(String),
    Panic(String),
}

fn ceil_div(a: i128, b: i128) -> i128 {
    (a + b - 1) / b
}

/// ZIP 317: conventional fee = marginal_fee * max(grace_actions, logical_actions), with
/// logical_actions = max(ceil(tx_in_total_size / 150), ceil(tx_out_total_size / 34))
///                 + max(nSpendsSapling, nOutputsSapling) + nActionsOrchard (+ nActionsIronwood).
pub fn zip317(marginal: i128, grace: i128, in_std: i128, out_std: i128, t_in_bytes: i128, t_out_bytes: i128, s_sp: i128, s_out: i128, o_act: i128, i_act: i128) -> i128 {
    let logical = ceil_div(t_in_bytes, in_std).max(ceil_div(t_out_bytes, out_std)) + s_sp.max(s_out) + o_act + i_act;
    marginal * grace.max(logical)
}

/// {1,2,5} * 10^k within [0.01 ZEC, 10 000 ZEC] (ZIP 318 MAX_RESIDUAL_VALUE .. DENOM_CAP).
pub fn canonical_denomination(v: u64) -> bool {
    if !(1_000_000..=1_000_000_000_000).contains(&v) {
        return false;
    }
    let mut n = v;
    while n % 10 == 0 {
        n /= 10;
    }
    n == 1 || n == 2 || n == 5
}

/// Number of change outputs per pool (ephemeral outputs are not change).
#[derive(Clone, Copy, Debug, PartialEq, Eq, Default)]
pub struct Manifest {
    pub t: i128,
    pub s: i128,
    pub o: i128,
    pub i: i128,
}

/// Everything about a case that the oracle needs, computed once.
pub struct Facts {
    pub vals_in: [Vec<i128>; 4],
    pub vals_out: [Vec<i128>; 4],
    pub sum_in_all: i128,
    /// payments + ephemeral output
    pub sum_out_all: i128,
    pub sum_pay: i128,
    pub t_in_bytes: i128,
    pub t_out_bytes: i128,
    pub unknown_inputs: Vec<u32>,
    pub post_nu6_3: bool,
    pub on_grid: bool,
    pub threshold: i128,
    pub target_k: i128,
    pub memo_effective: bool,
    pub shielded_items: usize,
    pub shielded_value_positive: bool,
    pub eph_output: bool,
}

pub fn t_out_size(kind: u8) -> i128 {
    // 8-byte amount + CompactSize(script length) + script
    8 + 1 + [25, 23, 35][kind as usize]
}

impl Facts {
    pub fn new(case: &Case) -> Facts {
        let cfg = &case.cfg;
        let mut vals_in: [Vec<i128>; 4] = Default::default();
        let mut vals_out: [Vec<i128>; 4] = Default::default();
        let mut t_in_bytes = 0;
        let mut t_out_bytes = 0;
        let mut unknown_inputs = vec![];
        for (idx, it) in case.ins.iter().enumerate() {
            vals_in[it.pool as usize].push(it.value as i128);
            if it.pool == T {
                match it.kind {
                    0 => t_in_bytes += P2PKH_IN,
                    1 => t_in_bytes += P2SH_KNOWN_IN,
                    _ => unknown_inputs.push(idx as u32),
                }
            }
        }
        for it in &case.outs {
            vals_out[it.pool as usize].push(it.value as i128);
            if it.pool == T {
                t_out_bytes += t_out_size(it.kind);
            }
        }
        let mut sum_in_all: i128 = vals_in.iter().flatten().sum();
        let sum_pay: i128 = vals_out.iter().flatten().sum();
        let mut sum_out_all = sum_pay;
        match cfg.eph {
            Eph::Input(v) => {
                // ZIP 320: the ephemeral input is a P2PKH input of the standard size.
                sum_in_all += v as i128;
                t_in_bytes += P2PKH_IN;
            }
            Eph::Output(v) => {
                sum_out_all += v as i128;
                t_out_bytes += P2PKH_OUT;
            }
            Eph::None => {}
        }
        let target_k = if cfg.multi {
            match cfg.meta {
                // "If we cannot determine a total note count, fall back to a single output"
                None => 1,
                Some(n) => (cfg.split_target as i128 - n as i128).max(1),
            }
        } else {
            1
        };
        let shielded_items = case.ins.iter().chain(case.outs.iter()).filter(|i| i.pool != T).count();
        let shielded_value_positive = case.ins.iter().chain(case.outs.iter()).any(|i| i.pool != T && i.value > 0);
        Facts {
            vals_in,
            vals_out,
            sum_in_all,
            sum_out_all,
            sum_pay,
            t_in_bytes,
            t_out_bytes,
            unknown_inputs,
            post_nu6_3: cfg.height >= NU6_3,
            on_grid: cfg.anchor() % GRID == 0,
            // "A dust policy created with None as the dust threshold will delegate determination of
            // the dust threshold to the change strategy": the ZIP 317 strategies use the marginal fee.
            threshold: cfg.dust_threshold.map_or(MARGINAL, |v| v as i128),
            target_k,
            // The change memo is discarded in the step that has an ephemeral *input*.
            memo_effective: cfg.memo && !matches!(cfg.eph, Eph::Input(_)),
            shielded_items,
            shielded_value_positive,
            eph_output: matches!(cfg.eph, Eph::Output(_)),
        }
    }

    fn n_in(&self, p: u8) -> i128 {
        self.vals_in[p as usize].len() as i128
    }
    fn n_out(&self, p: u8) -> i128 {
        self.vals_out[p as usize].len() as i128
    }

    /// Sapling (DEFAULT bundle type): no bundle if nothing is requested; otherwise outputs are padded
    /// to at least 2; spends are as requested. Returns (spends, outputs incl. dummies).
    pub fn sapling_shape(&self, change: i128) -> (i128, i128) {
        let (sp, out) = (self.n_in(S), self.n_out(S) + change);
        if sp == 0 && out == 0 {
            (0, 0)
        } else {
            (sp, out.max(2))
        }
    }

    /// Orchard-style bundle: requested actions = spends + outputs when cross-address transfers are
    /// disabled (the Orchard pool from NU6.3), else max(spends, outputs); a non-empty bundle is
    /// padded to `floor` actions (2 by default, 1 when unpadded); an empty bundle has none.
    fn orchard_style(no_cross_address: bool, spends: i128, outputs: i128, floor: i128) -> i128 {
        let req = if no_cross_address { spends + outputs } else { spends.max(outputs) };
        if req == 0 {
            0
        } else {
            req.max(floor)
        }
    }

    pub fn orchard_actions(&self, change: i128) -> i128 {
        Self::orchard_style(self.post_nu6_3, self.n_in(O), self.n_out(O) + change, 2)
    }

    /// Canonical ZIP 318 crossing (documented on `Step::is_canonical_crossing`, minus the fee
    /// condition which the fee model cannot test): exactly one Orchard input, at most one Orchard
    /// change output, no change in any other pool, no Ironwood spends, no Ironwood change, a single
    /// Ironwood output of canonical denomination, anchor on the bucket grid. "Change" there is
    /// `Step::change_count_in_pool`, which counts every entry of `proposed_change()` — and a ZIP 320
    /// ephemeral output is reported as a transparent entry of `proposed_change()`, so a step with an
    /// ephemeral output is not a canonical crossing (it carries a transparent bundle no migration
    /// transfer has) and is built padded.
    pub fn canonical_crossing(&self, m: Manifest) -> bool {
        !self.eph_output
            && self.n_in(O) == 1
            && self.n_in(I) == 0
            && m.i == 0
            && m.o <= 1
            && m.s == 0
            && m.t == 0
            && self.vals_out[I as usize].len() == 1
            && canonical_denomination(self.vals_out[I as usize][0] as u64)
            && self.on_grid
    }

    pub fn ironwood_actions(&self, m: Manifest) -> i128 {
        let floor = if self.canonical_crossing(m) { 1 } else { 2 };
        Self::orchard_style(false, self.n_in(I), self.n_out(I) + m.i, floor)
    }

    /// ZIP 317 fee of the transaction shape made of the requested inputs and outputs, the ephemeral
    /// input/output, and the change outputs in `m` (transparent change is a P2PKH output).
    pub fn fee(&self, m: Manifest) -> i128 {
        let (s_sp, s_out) = self.sapling_shape(m.s);
        zip317(
            MARGINAL,
            GRACE,
            P2PKH_IN,
            P2PKH_OUT,
            self.t_in_bytes,
            self.t_out_bytes + P2PKH_OUT * m.t,
            s_sp,
            s_out,
            self.orchard_actions(m.o),
            self.ironwood_actions(m),
        )
    }

    /// Dummy outputs per shielded bundle for the shape with change `m`.
    pub fn dummies(&self, m: Manifest) -> (i128, i128, i128) {
        let (_, s_out) = self.sapling_shape(m.s);
        (
            s_out - (self.n_out(S) + m.s),
            self.orchard_actions(m.o) - (self.n_out(O) + m.o),
            self.ironwood_actions(m) - (self.n_out(I) + m.i),
        )
    }

    /// The change manifests a strategy may be costing: up to `target_k` outputs in one shielded
    /// pool, or one transparent change output when the policy allows it.
    pub fn admissible(&self, cfg: &Cfg) -> Vec<Manifest> {
        let mut v = vec![Manifest::default()];
        for c in 1..=self.target_k {
            v.push(Manifest { s: c, ..Default::default() });
            v.push(Manifest { o: c, ..Default::default() });
            v.push(Manifest { i: c, ..Default::default() });
        }
        if cfg.tchange {
            v.push(Manifest { t: 1, ..Default::default() });
        }
        v
    }
}

/// 10 * MINIMUM_FEE: "Defend against losing money by using AddDustToFee with a too-high dust threshold".
const REASONABLE_FOLD: i128 = 100_000;

/// The oracle. `Ok(label)` = the observation satisfies every clause of C07; `Err(msg)` = violation.
pub fn judge(case: &Case, f: &Facts, obs: &Obs) -> Result<&'static str, String> {
    let cfg = &case.cfg;
    match obs {
        Obs::Panic(p) => Err(format!("panic: {p}")),
        Obs::Bundle(e) => Err(format!("BundleError({e}) for default transactional bundle types")),
        Obs::Ok { change, fee, total, dummy } => {
            let fee = *fee as i128;
            if !f.unknown_inputs.is_empty() {
                return Err("a balance was returned although a transparent input has an unknown P2SH size".into());
            }
            let non_eph: Vec<&ChangeOut> = change.iter().filter(|c| !c.ephemeral).collect();
            let eph: Vec<&ChangeOut> = change.iter().filter(|c| c.ephemeral).collect();
            // the ephemeral output is reported among the proposed change, exactly once
            match cfg.eph {
                Eph::Output(v) => {
                    if eph.len() != 1 || eph[0].value != v || eph[0].pool != T {
                        return Err(format!("ephemeral output {v} not reported exactly once: {:?}", eph));
                    }
                }
                _ => {
                    if !eph.is_empty() {
                        return Err(format!("ephemeral output reported without an ephemeral balance: {:?}", eph));
                    }
                }
            }
            let sum_change_all: i128 = change.iter().map(|c| c.value as i128).sum();
            let sum_change: i128 = non_eph.iter().map(|c| c.value as i128).sum();
            // (1) conservation
            if f.sum_in_all != f.sum_pay + sum_change_all + fee {
                return Err(format!("value not conserved: inputs {} != payments {} + change {} + fee {}", f.sum_in_all, f.sum_pay, sum_change_all, fee));
            }
            if *total as i128 != sum_change_all + fee {
                return Err(format!("TransactionBalance::total {} != change {} + fee {}", total, sum_change_all, fee));
            }
            let mut m = Manifest::default();
            for c in &non_eph {
                match c.pool {
                    T => m.t += 1,
                    S => m.s += 1,
                    O => m.o += 1,
                    _ => m.i += 1,
                }
            }
            // (2) fee vs ZIP 317 of the final shape
            let f_final = f.fee(m);
            if fee < f_final {
                return Err(format!("fee {} below the ZIP 317 fee {} of the final shape (change {:?})", fee, f_final, m));
            }
            let mut label: &'static str = "";
            if fee != f_final {
                let fully_transparent = !f.shielded_value_positive && !f.memo_effective;
                let folded = cfg.dust_action == 2
                    && sum_change == 0
                    && f.admissible(cfg).iter().any(|a| {
                        let d = fee - f.fee(*a);
                        d >= 0 && d < f.threshold && d <= REASONABLE_FOLD
                    });
                // "A zero-valued transparent output would be unspendable, so we omit it": the fee
                // still covers the omitted P2PKH change output.
                let t_omitted = cfg.tchange && fully_transparent && non_eph.is_empty() && fee == f.fee(Manifest { t: 1, ..Default::default() });
                if folded {
                    label = "ok:dust-folded-into-fee";
                } else if t_omitted {
                    label = "ok:zero-transparent-change-omitted";
                } else {
                    return Err(format!(
                        "fee {} exceeds the ZIP 317 fee {} of the final shape (change {:?}) and no dust was folded (policy {}, threshold {})",
                        fee, f_final, m, cfg.dust_action, f.threshold
                    ));
                }
            }
            // (3) dust
            for c in &non_eph {
                let v = c.value as i128;
                if v > 0 && v < f.threshold {
                    let allowed = cfg.dust_action == 1 || (cfg.dust_action == 2 && sum_change > REASONABLE_FOLD);
                    if !allowed {
                        return Err(format!(
                            "{} {} in pool {} is below the dust threshold {} under policy {} (all change: {:?})",
                            if non_eph.len() > 1 { "split change output" } else { "change output" },
                            v,
                            POOL_NAMES[c.pool as usize],
                            f.threshold,
                            ["Reject", "AllowDustChange", "AddDustToFee"][cfg.dust_action as usize],
                            non_eph.iter().map(|c| c.value).collect::<Vec<_>>()
                        ));
                    }
                    if label.is_empty() {
                        label = "ok:dust-change-allowed";
                    }
                }
            }
            // (4) turnstile: after NU6.3 the Orchard pool never gains value. Requests that pay into
            // Orchard after NU6.3 are rejected upstream (Step::from_parts) and excluded here.
            let o_change: Vec<i128> = non_eph.iter().filter(|c| c.pool == O).map(|c| c.value as i128).collect();
            if f.post_nu6_3 && f.vals_out[O as usize].is_empty() && !o_change.is_empty() {
                let o_in: i128 = f.vals_in[O as usize].iter().sum();
                if f.vals_in[O as usize].is_empty() {
                    return Err(format!("Orchard change {:?} after NU6.3 although no Orchard note is spent", o_change));
                }
                if o_change.iter().sum::<i128>() >= o_in {
                    return Err(format!("Orchard change {:?} after NU6.3 is not below the Orchard input total {}", o_change, o_in));
                }
            }
            // split policy: never more outputs than the policy targets, none below the minimum
            let k = non_eph.len() as i128;
            if k > f.target_k || (m.t > 0 && k > 1) {
                return Err(format!("too many change outputs: {} although the policy targets at most {}", k, f.target_k));
            }
            if k > 1 {
                if let Some(min) = cfg.split_min {
                    if non_eph.iter().any(|c| (c.value as i128) < min as i128) {
                        return Err(format!("split change {:?} has an output below the policy minimum {}", non_eph.iter().map(|c| c.value).collect::<Vec<_>>(), min));
                    }
                }
            }
            // recorded dummy outputs = the padding the final shape is built with
            if let Some((ds, d_o, di)) = dummy {
                let want = f.dummies(m);
                if (*ds as i128, *d_o as i128, *di as i128) != want {
                    return Err(format!("recorded dummy outputs {:?} != {:?} expected for the final shape", (ds, d_o, di), want));
                }
            } else {
                return Err("no dummy-output counts recorded".into());
            }
            if !label.is_empty() {
                return Ok(label);
            }
            let promoted = f.post_nu6_3 && m.i > 0 && f.vals_in[I as usize].is_empty() && f.vals_out[I as usize].is_empty() && (!f.vals_in[O as usize].is_empty() || !f.vals_out[O as usize].is_empty() || cfg.fallback == O);
            Ok(if f.canonical_crossing(m) {
                "ok:canonical-crossing-unpadded"
            } else if k == 0 {
                "ok:no-change"
            } else if promoted {
                "ok:change-promoted-to-ironwood"
            } else if k > 1 {
                match non_eph[0].pool {
                    S => "ok:split:sapling",
                    O => "ok:split:orchard",
                    _ => "ok:split:ironwood",
                }
            } else if sum_change == 0 {
                "ok:zero-valued-change"
            } else {
                match non_eph[0].pool {
                    T => "ok:change:transparent",
                    S => "ok:change:sapling",
                    O => "ok:change:orchard",
                    _ => "ok:change:ironwood",
                }
            })
        }
        Obs::Insufficient { available, required } => {
            if !f.unknown_inputs.is_empty() {
                return Ok("unknown-input:other-error");
            }
            let (available, required) = (*available as i128, *required as i128);
            if available != f.sum_in_all {
                return Err(format!("InsufficientFunds.available {} != total inputs {}", available, f.sum_in_all));
            }
            if available >= required {
                return Err(format!("InsufficientFunds although available {} >= required {}", available, required));
            }
            let zero = Manifest::default();
            // no change output is needed when nothing shielded is involved and the minimum fee
            // exactly consumes the balance (e.g. the second transaction of a ZIP 320 pair)
            let exact_transparent = f.shielded_items == 0 && !f.memo_effective && f.sum_in_all == f.sum_out_all + f.fee(zero);
            for a in f.admissible(cfg) {
                let fa = f.fee(a);
                if a == zero {
                    if required == f.sum_out_all + fa {
                        return Ok("insufficient:below-minimum-fee");
                    }
                } else {
                    if !exact_transparent && required == f.sum_out_all + fa {
                        return Ok("insufficient:cannot-pay-for-change-output");
                    }
                    let ch = f.sum_in_all - f.sum_out_all - fa;
                    if cfg.dust_action == 0 && ch > 0 && ch < f.threshold && required == f.sum_in_all + f.threshold - ch {
                        return Ok("insufficient:dust-change-rejected");
                    }
                }
            }
            Err(format!(
                "InsufficientFunds {{available {}, required {}}} is not explained by outputs {} + the ZIP 317 fee of any shape the strategy may build (min fee {}), nor by a dust shortfall",
                available,
                required,
                f.sum_out_all,
                f.fee(zero)
            ))
        }
        Obs::DustInputs { t, s, o, i } => {
            if !f.unknown_inputs.is_empty() {
                return Ok("unknown-input:other-error");
            }
            let mut seen = std::collections::BTreeSet::new();
            for (pool, list) in [(T, t), (S, s), (O, o), (I, i)] {
                for &r in list {
                    let it = case.ins.get(r as usize).ok_or_else(|| format!("DustInputs names an unknown input reference {r}"))?;
                    if it.pool != pool {
                        return Err(format!("DustInputs lists input #{r} under pool {}", POOL_NAMES[pool as usize]));
                    }
                    if it.value as i128 > MARGINAL {
                        return Err(format!("DustInputs excludes input #{r} of value {} > marginal fee", it.value));
                    }
                    if !seen.insert(r) {
                        return Err(format!("DustInputs lists input #{r} twice"));
                    }
                }
            }
            if seen.is_empty() {
                return Err("DustInputs with no inputs listed".into());
            }
            Ok("dust-inputs")
        }
        Obs::UnknownP2sh(list) => {
            let mut got = list.clone();
            got.sort();
            if got != f.unknown_inputs {
                return Err(format!("UnknownP2shInputs lists {:?}, the inputs of unknown size are {:?}", got, f.unknown_inputs));
            }
            Ok("unknown-p2sh-input")
        }
        Obs::BalanceOverflow | Obs::BalanceUnderflow => {
            // an amount error needs some natural total to leave the valid range
            let fmax = f.admissible(cfg).iter().map(|a| f.fee(*a)).max().unwrap_or(0);
            let justified = f.sum_in_all > MAX_MONEY || f.sum_out_all + fmax > MAX_MONEY || (cfg.dust_action == 0 && f.sum_in_all + f.threshold > MAX_MONEY);
            if !justified && f.unknown_inputs.is_empty() {
                return Err(format!("{:?} although inputs {} and outputs {} + fee {} are within range", obs, f.sum_in_all, f.sum_out_all, fmax));
            }
            Ok("amount-out-of-range")
        }
    }
}

// ---- raw fee rule lattice ------------------------------------------------------------------

/// A transparent input size as given to the fee rule: Some(bytes) or None (unknown).
#[derive(Clone, Debug, PartialEq, Eq, Serialize, Deserialize)]
pub struct FeeCase {
    /// 0 = zip317::FeeRule::standard(), 1 = StandardFeeRule::Zip317, 2.. = non-standard parameter sets
    pub rule: u8,
    pub t_in: Vec<Option<u64>>,
    pub t_out: Vec<u64>,
    pub s_in: u64,
    pub s_out: u64,
    pub o_act: u64,
    pub i_act: u64,
    pub height: u32,
}

/// (marginal, grace, p2pkh in size, p2pkh out size) for rule ids >= 2
pub const NONSTANDARD: [(u64, u64, u64, u64); 4] = [(5_000, 2, 150, 34), (1, 0, 1, 1), (10_000, 10, 149, 33), (MAX_MONEY as u64, 1, 150, 34)];

pub fn fee_params(rule: u8) -> (i128, i128, i128, i128) {
    if rule < 2 {
        (MARGINAL, GRACE, P2PKH_IN, P2PKH_OUT)
    } else {
        let p = NONSTANDARD[(rule - 2) as usize];
        (p.0 as i128, p.1 as i128, p.2 as i128, p.3 as i128)
    }
}

#[derive(Clone, Debug, PartialEq, Eq)]
pub enum FeeObs {
    Fee(u64),
    Overflow,
    Unknown(Vec<u32>),
    Other(String),
    Panic(String),
}

pub fn judge_fee(c: &FeeCase, obs: &FeeObs) -> Result<&'static str, String> {
    let unknown: Vec<u32> = c.t_in.iter().enumerate().filter(|(_, s)| s.is_none()).map(|(i, _)| i as u32).collect();
    let (marginal, grace, in_std, out_std) = fee_params(c.rule);
    let t_in: i128 = c.t_in.iter().flatten().map(|s| *s as i128).sum();
    let t_out: i128 = c.t_out.iter().map(|s| *s as i128).sum();
    let want = zip317(marginal, grace, in_std, out_std, t_in, t_out, c.s_in as i128, c.s_out as i128, c.o_act as i128, c.i_act as i128);
    match obs {
        FeeObs::Panic(p) => Err(format!("panic: {p}")),
        FeeObs::Other(e) => Err(format!("unexpected error {e}")),
        FeeObs::Unknown(l) => {
            let mut l = l.clone();
            l.sort();
            if l == unknown && !unknown.is_empty() {
                Ok("fee:unknown-p2sh")
            } else {
                Err(format!("UnknownP2shInputs {:?}, expected {:?}", l, unknown))
            }
        }
        FeeObs::Fee(v) => {
            if !unknown.is_empty() {
                return Err("fee returned although an input size is unknown".into());
            }
            if *v as i128 != want {
                return Err(format!("fee_required = {}, ZIP 317 gives {}", v, want));
            }
            Ok(if want == marginal * grace { "fee:grace" } else { "fee:marginal-x-logical" })
        }
        FeeObs::Overflow => {
            if !unknown.is_empty() {
                return Err("overflow reported although an input size is unknown".into());
            }
            if want <= MAX_MONEY {
                return Err(format!("Overflow although the ZIP 317 fee {} is a valid amount", want));
            }
            Ok("fee:overflow")
        }
    }
}
