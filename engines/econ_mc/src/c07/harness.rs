//! C07 — drives the real fee / change code in /repo with plain view structs and normalises what
//! it returns into `model::Obs`. No oracle logic here.

use super::model::*;
use mc_core::catch;
use std::num::NonZeroUsize;
use zcash_client_backend::data_api::anchor_retention::{AnchorRetentionInterval, PoolMigrationParams};
use zcash_client_backend::data_api::testing::MockWalletDb;
use zcash_client_backend::data_api::wallet::TargetHeight;
use zcash_client_backend::data_api::{AccountMeta, PoolMeta};
use zcash_client_backend::fees::zip317::{MultiOutputChangeStrategy, SingleOutputChangeStrategy};
use zcash_client_backend::fees::{
    orchard as ofees, sapling as sfees, ChangeError, ChangeStrategy, DustAction, DustOutputPolicy, EphemeralBalance, SplitPolicy, StandardFeeRule, TransactionBalance,
    TransparentChangePolicy,
};
use zcash_primitives::transaction::components::orchard::bundle_version_for_branch;
use zcash_primitives::transaction::fees::transparent::{InputSize, InputView, OutputView};
use zcash_primitives::transaction::fees::zip317::{FeeError, FeeRule as Zip317FeeRule};
use zcash_primitives::transaction::fees::FeeRule as _;
use zcash_protocol::consensus::{BlockHeight, BranchId};
use zcash_protocol::local_consensus::LocalNetwork;
use zcash_protocol::memo::MemoBytes;
use zcash_protocol::value::{BalanceError, Zatoshis};
use zcash_protocol::{PoolType, ShieldedPool};
use zcash_transparent::address::{Script, TransparentAddress};
use zcash_transparent::bundle::{OutPoint, TxOut};

pub fn network() -> LocalNetwork {
    let h = |x: u32| Some(BlockHeight::from_u32(x));
    LocalNetwork { overwinter: h(1), sapling: h(2), blossom: h(3), heartwood: h(4), canopy: h(5), nu5: h(NU5), nu6: h(NU6), nu6_1: h(NU6_1), nu6_2: h(NU6_2), nu6_3: h(NU6_3) }
}

fn zat(v: u64) -> Zatoshis {
    Zatoshis::from_u64(v).expect("alphabet values are valid amounts")
}

#[derive(Debug)]
pub struct TIn {
    outpoint: OutPoint,
    coin: TxOut,
    known: Option<usize>,
}

/// Same coin, seen through the trait's default `serialized_size`.
#[derive(Debug)]
struct Plain<'a>(&'a TIn);
impl InputView for Plain<'_> {
    fn outpoint(&self) -> &OutPoint {
        &self.0.outpoint
    }
    fn coin(&self) -> &TxOut {
        &self.0.coin
    }
}

impl InputView for TIn {
    fn outpoint(&self) -> &OutPoint {
        &self.outpoint
    }
    fn coin(&self) -> &TxOut {
        &self.coin
    }
    fn serialized_size(&self) -> InputSize {
        match self.known {
            // a P2SH input whose redeem script (and so its size) is known to the caller
            Some(n) => InputSize::Known(n),
            None => Plain(self).serialized_size(),
        }
    }
}

#[derive(Debug)]
pub struct TOut {
    value: Zatoshis,
    script: Script,
}
impl OutputView for TOut {
    fn value(&self) -> Zatoshis {
        self.value
    }
    fn script_pubkey(&self) -> &Script {
        &self.script
    }
}

pub struct Note {
    id: u32,
    value: Zatoshis,
}
impl sfees::InputView<u32> for Note {
    fn note_id(&self) -> &u32 {
        &self.id
    }
    fn value(&self) -> Zatoshis {
        self.value
    }
}
impl ofees::InputView<u32> for Note {
    fn note_id(&self) -> &u32 {
        &self.id
    }
    fn value(&self) -> Zatoshis {
        self.value
    }
}

fn outpoint_for(idx: u32) -> OutPoint {
    OutPoint::new([idx as u8 + 1; 32], idx)
}

fn out_script(kind: u8) -> Script {
    match kind {
        0 => TransparentAddress::PublicKeyHash([7u8; 20]).script().into(),
        1 => TransparentAddress::ScriptHash([8u8; 20]).script().into(),
        _ => {
            // 35-byte P2PK-style script: push 33 bytes, OP_CHECKSIG
            let mut raw = vec![35u8, 33u8];
            raw.extend([2u8; 33]);
            raw.push(0xac);
            Script::read(&raw[..]).expect("well-formed script vector")
        }
    }
}

#[derive(Default)]
pub struct InViews {
    pub t: Vec<TIn>,
    pub s: Vec<Note>,
    pub o: Vec<Note>,
    pub i: Vec<Note>,
}

#[derive(Default)]
pub struct OutViews {
    pub t: Vec<TOut>,
    pub s: Vec<Zatoshis>,
    pub o: Vec<Zatoshis>,
    pub i: Vec<Zatoshis>,
}

pub fn in_views(ins: &[Item]) -> InViews {
    let mut v = InViews::default();
    for (idx, it) in ins.iter().enumerate() {
        let idx = idx as u32;
        match it.pool {
            T => {
                let addr = if it.kind == 0 { TransparentAddress::PublicKeyHash([idx as u8; 20]) } else { TransparentAddress::ScriptHash([idx as u8; 20]) };
                v.t.push(TIn { outpoint: outpoint_for(idx), coin: TxOut::new(zat(it.value), addr.script().into()), known: if it.kind == 1 { Some(P2SH_KNOWN_IN as usize) } else { None } });
            }
            S => v.s.push(Note { id: idx, value: zat(it.value) }),
            O => v.o.push(Note { id: idx, value: zat(it.value) }),
            _ => v.i.push(Note { id: idx, value: zat(it.value) }),
        }
    }
    v
}

pub fn out_views(outs: &[Item]) -> OutViews {
    let mut v = OutViews::default();
    for it in outs {
        match it.pool {
            T => v.t.push(TOut { value: zat(it.value), script: out_script(it.kind) }),
            S => v.s.push(zat(it.value)),
            O => v.o.push(zat(it.value)),
            _ => v.i.push(zat(it.value)),
        }
    }
    v
}

fn pool_of(p: u8) -> ShieldedPool {
    match p {
        S => ShieldedPool::Sapling,
        O => ShieldedPool::Orchard,
        _ => ShieldedPool::Ironwood,
    }
}

fn normalise(r: Result<TransactionBalance, ChangeError<FeeError, u32>>) -> Obs {
    match r {
        Ok(b) => Obs::Ok {
            change: b
                .proposed_change()
                .iter()
                .map(|c| ChangeOut {
                    pool: match c.output_pool() {
                        PoolType::Transparent => T,
                        PoolType::Shielded(ShieldedPool::Sapling) => S,
                        PoolType::Shielded(ShieldedPool::Orchard) => O,
                        PoolType::Shielded(ShieldedPool::Ironwood) => I,
                    },
                    value: c.value().into_u64(),
                    ephemeral: c.is_ephemeral(),
                    has_memo: c.memo().is_some(),
                })
                .collect(),
            fee: b.fee_required().into_u64(),
            total: b.total().into_u64(),
            dummy: b.dummy_outputs().map(|d| (d.sapling(), d.orchard(), d.ironwood())),
        },
        Err(ChangeError::InsufficientFunds { available, required }) => Obs::Insufficient { available: available.into_u64(), required: required.into_u64() },
        Err(ChangeError::DustInputs { transparent, sapling, orchard, ironwood }) => Obs::DustInputs {
            // outpoint_for(idx) has n == idx
            t: transparent.iter().map(|op| if *op == outpoint_for(op.n()) { op.n() } else { u32::MAX }).collect(),
            s: sapling,
            o: orchard,
            i: ironwood,
        },
        Err(ChangeError::StrategyError(FeeError::UnknownP2shInputs(ops))) => Obs::UnknownP2sh(ops.iter().map(|op| if *op == outpoint_for(op.n()) { op.n() } else { u32::MAX }).collect()),
        Err(ChangeError::StrategyError(FeeError::Balance(BalanceError::Overflow))) => Obs::BalanceOverflow,
        Err(ChangeError::StrategyError(FeeError::Balance(BalanceError::Underflow))) => Obs::BalanceUnderflow,
        Err(ChangeError::BundleError(e)) => Obs::Bundle(e.to_string()),
        Err(other) => Obs::Bundle(format!("unclassified error: {:?}", other)),
    }
}

/// Run the configured change strategy of the real code on (ins, outs).
pub fn observe(net: &LocalNetwork, cfg: &Cfg, iv: &InViews, ov: &OutViews) -> Obs {
    let r = catch(|| {
        let height = BlockHeight::from_u32(cfg.height);
        let branch = BranchId::for_height(net, height);
        // exactly what zcash_client_backend's input selection passes for a target height
        let o_ver = bundle_version_for_branch(branch, orchard::ValuePool::Orchard).unwrap_or(orchard::bundle::BundleVersion::orchard_insecure_v1());
        let i_ver = bundle_version_for_branch(branch, orchard::ValuePool::Ironwood).unwrap_or(orchard::bundle::BundleVersion::ironwood_v3());
        let sapling_view = (sapling::builder::BundleType::DEFAULT, &iv.s[..], &ov.s[..]);
        let orchard_view = (o_ver, &iv.o[..], &ov.o[..]);
        let ironwood_view = (i_ver, &iv.i[..], &ov.i[..]);
        let dust = DustOutputPolicy::new([DustAction::Reject, DustAction::AllowDustChange, DustAction::AddDustToFee][cfg.dust_action as usize], cfg.dust_threshold.map(zat));
        let memo = if cfg.memo { Some(MemoBytes::from_bytes(b"change").expect("short memo")) } else { None };
        let tpol = if cfg.tchange { TransparentChangePolicy::TransparentChangeAllowed } else { TransparentChangePolicy::ShieldChange };
        let eph = match cfg.eph {
            Eph::None => None,
            Eph::Input(v) => Some(EphemeralBalance::Input(zat(v))),
            Eph::Output(v) => Some(EphemeralBalance::Output(zat(v))),
        };
        let zip318 = PoolMigrationParams::new(AnchorRetentionInterval::ZIP_318);
        let target = TargetHeight::from(height);
        let anchor = BlockHeight::from_u32(cfg.anchor());
        if cfg.multi {
            let split = match cfg.split_min {
                None => SplitPolicy::single_output(),
                Some(v) => SplitPolicy::with_min_output_value(NonZeroUsize::new(cfg.split_target as usize).expect("target >= 1"), zat(v)),
            };
            let meta = match cfg.meta {
                None => AccountMeta::new(None, None, None),
                Some(n) => AccountMeta::new(Some(PoolMeta::new(n as usize, zat(n as u64 * 1_000_000))), None, None),
            };
            MultiOutputChangeStrategy::<_, MockWalletDb>::new(Zip317FeeRule::standard(), memo, pool_of(cfg.fallback), dust, split)
                .with_transparent_change_policy(tpol)
                .compute_balance::<_, u32>(net, target, anchor, &zip318, &iv.t[..], &ov.t[..], &sapling_view, &orchard_view, &ironwood_view, eph, &meta)
        } else {
            SingleOutputChangeStrategy::<_, MockWalletDb>::new(Zip317FeeRule::standard(), memo, pool_of(cfg.fallback), dust)
                .with_transparent_change_policy(tpol)
                .compute_balance::<_, u32>(net, target, anchor, &zip318, &iv.t[..], &ov.t[..], &sapling_view, &orchard_view, &ironwood_view, eph, &())
        }
    });
    match r {
        Ok(x) => normalise(x),
        Err(p) => Obs::Panic(p),
    }
}

/// One raw `fee_required` call.
pub fn observe_fee(net: &LocalNetwork, c: &FeeCase) -> FeeObs {
    let r = catch(|| {
        let sizes: Vec<InputSize> = c.t_in.iter().enumerate().map(|(i, s)| s.map_or(InputSize::Unknown(outpoint_for(i as u32)), |n| InputSize::Known(n as usize))).collect();
        let outs: Vec<usize> = c.t_out.iter().map(|s| *s as usize).collect();
        let h = BlockHeight::from_u32(c.height);
        let (a, b, o, i) = (c.s_in as usize, c.s_out as usize, c.o_act as usize, c.i_act as usize);
        match c.rule {
            0 => Zip317FeeRule::standard().fee_required(net, h, sizes, outs, a, b, o, i),
            1 => StandardFeeRule::Zip317.fee_required(net, h, sizes, outs, a, b, o, i),
            n => {
                let p = NONSTANDARD[(n - 2) as usize];
                Zip317FeeRule::non_standard(zat(p.0), p.1 as usize, p.2 as usize, p.3 as usize).expect("non-zero sizes").fee_required(net, h, sizes, outs, a, b, o, i)
            }
        }
    });
    match r {
        Err(p) => FeeObs::Panic(p),
        Ok(Ok(v)) => FeeObs::Fee(v.into_u64()),
        Ok(Err(FeeError::Balance(BalanceError::Overflow))) => FeeObs::Overflow,
        Ok(Err(FeeError::UnknownP2shInputs(ops))) => FeeObs::Unknown(ops.iter().map(|op| op.n()).collect()),
        Ok(Err(e)) => FeeObs::Other(format!("{:?}", e)),
    }
}
