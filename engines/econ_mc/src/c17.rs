//! C17 — pool-migration schedules, anchors, expiries and labels stay canonical.
//!
//! The random generator is an environment the harness answers (`c17/rng.rs`): a scripted `RngCore`
//! replays a word sequence and then falls back to a constant under which the function under test
//! terminates. For every randomised function, ALL word sequences up to length 4 (5 in the thorough
//! tier for shuffles and anchors) over an alphabet derived from that function's own thresholds are
//! enumerated, crossed with boundary lattices of heights, intervals and distributions.
//! Wake-up schedules: all small instances against a brute-force minimum piercing set.
//! Classification: the full evidence lattice, every covering edge.

mod anchor;
mod classify;
mod rng;
mod sched;
mod wakeup;

use mc_core::{Args, Run, Tier};
use rayon::prelude::*;
use rng::{for_each_seq, hexw, parse_words, seq_count};
use serde_json::{json, Value};
use std::collections::BTreeMap;
use std::sync::atomic::{AtomicBool, AtomicU32, Ordering};

const TOP: u32 = u32::MAX;
const M: u32 = 34_560;

/// (mean, cap): the two ZIP 318 distributions, the degenerate 1/1, a scaled test-network one, one
/// that never rejects, one whose largest rounded draws leave 32 bits and wrap back under the cap,
/// and the largest representable.
const DISTS: [(u32, u32); 7] = [(1, 1), (16, 96), (66, 576), (5, 48), (1, TOP), (1 << 27, 1 << 27), (TOP, TOP)];
const INTERVALS: [u32; 6] = [1, 2, 3, 144, 1 << 31, TOP];

type Hist = BTreeMap<String, u64>;
fn bump(h: &mut Hist, k: &str) {
    match h.get_mut(k) {
        Some(v) => *v += 1,
        None => {
            h.insert(k.to_string(), 1);
        }
    }
}
/// Outcome classes observed so far (for the vacuity guards at the end of the run).
static SEEN: std::sync::Mutex<std::collections::BTreeSet<String>> = std::sync::Mutex::new(std::collections::BTreeSet::new());
fn seen(k: &str) -> bool {
    SEEN.lock().unwrap().contains(k)
}
/// Record a violation, keeping at most a few per sub-check so that one broken function cannot crowd
/// the others out of the (bounded) failure list.
static PER_KIND: std::sync::Mutex<BTreeMap<String, u32>> = std::sync::Mutex::new(BTreeMap::new());
const MAX_PER_KIND: u32 = 3;
fn fail(run: &Run, kind: &str, key: String, msg: String, case: Value) {
    {
        let mut g = PER_KIND.lock().unwrap();
        let c = g.entry(kind.to_string()).or_insert(0);
        if *c >= MAX_PER_KIND {
            return;
        }
        *c += 1;
    }
    run.fail(kind, key, msg, case);
}
/// Whether one of the sub-checks has already recorded its quota of violations. Sweeps test this once
/// per task and stop early: the run is a violation anyway, and a function that panics on every
/// input would otherwise make the failing run very slow. Stopping is recorded as a cap.
fn saturated(run: &Run, kinds: &[&str]) -> bool {
    let hit = {
        let g = PER_KIND.lock().unwrap();
        kinds.iter().any(|k| g.get(*k).copied().unwrap_or(0) >= MAX_PER_KIND)
    };
    if hit && !STOPPED.swap(true, Ordering::Relaxed) {
        run.cap_hit("a sub-check reached its quota of recorded violations; the rest of its sweep was skipped (the run is a violation)");
    }
    hit
}
static STOPPED: AtomicBool = AtomicBool::new(false);
fn flush(run: &Run, h: Hist, n: u64) {
    run.eval_distinct(n);
    let mut s = SEEN.lock().unwrap();
    for (k, v) in h {
        run.outcome_n(&k, v);
        if !s.contains(&k) {
            s.insert(k);
        }
    }
}

fn commits() -> Vec<u32> {
    vec![0, 1, M - 1, M, 1_000_000, TOP - 2 * M - 1, TOP - 2 * M, TOP - M, TOP - 577, TOP - 576, TOP - 96, TOP - 1, TOP]
}

// ---------------------------------------------------------------------------------------------
// replay
// ---------------------------------------------------------------------------------------------

fn u(v: &Value) -> u32 {
    v.as_u64().unwrap_or(0) as u32
}
fn fb(v: &Value) -> u64 {
    v.as_str().and_then(|s| u64::from_str_radix(s.trim_start_matches("0x"), 16).ok()).unwrap_or(1)
}
fn point_of(v: &Value) -> classify::Point {
    let mut p = [0u8; 8];
    if let Some(a) = v.as_array() {
        for (i, x) in a.iter().take(8).enumerate() {
            p[i] = x.as_u64().unwrap_or(0) as u8;
        }
    }
    p
}
fn instance_of(c: &Value) -> wakeup::Instance {
    wakeup::Instance {
        transfers: c["transfers"].as_array().map(|a| a.iter().map(|t| (u(&t[0]), u(&t[1]))).collect()).unwrap_or_default(),
        tip: u(&c["tip"]),
        margin: u(&c["margin"]),
        jitter_cap: u(&c["jitter_cap"]),
    }
}

pub fn replay(kind: &str, c: &Value) -> Result<(), String> {
    let w = parse_words(&c["words"]);
    let f = fb(&c["fallback"]);
    match kind {
        "delay" => sched::check_delay(u(&c["mean"]), u(&c["cap"]), &w, f).map(|_| ()),
        "schedule" => sched::check_schedule(u(&c["mean"]), u(&c["cap"]), u(&c["commit"]), u(&c["n"]) as usize, &w, f).map(|_| ()),
        "expiry" => sched::check_expiry(u(&c["h"])).map(|_| ()),
        "shuffle" => sched::check_shuffle(u(&c["n"]) as usize, &w, f).map(|_| ()),
        "scaled" => sched::check_scaled(u(&c["interval"])).map(|_| ()),
        "dist" => sched::check_dist_new(u(&c["mean"]), u(&c["cap"])).map(|_| ()),
        "draw" => anchor::check_draw(u(&c["interval"]), u(&c["activation"]), u(&c["funding"]), u(&c["tip"]), &w, f).map(|_| ()),
        "redraw" => anchor::check_redraw(u(&c["interval"]), u(&c["prior"]), u(&c["broadcast"]), &w, f).map(|_| ()),
        "earliest" => anchor::check_earliest(u(&c["interval"]), u(&c["activation"]), u(&c["funding"]), u(&c["tip"])).map(|_| ()),
        "grid" => anchor::check_grid(u(&c["interval"]), u(&c["h"])).map(|_| ()),
        "wakeup" => wakeup::check(&instance_of(c), &w, f).map(|_| ()),
        "point" => classify::check_point(&point_of(&c["point"]), c["custom"].as_bool().unwrap_or(false)).map(|_| ()),
        "edge" => classify::check_edge(&point_of(&c["point"]), u(&c["field"]) as usize, u(&c["value"]) as u8, c["custom"].as_bool().unwrap_or(false)).map(|_| ()),
        "code" => classify::check_codes(c["code"].as_str().and_then(|s| s.parse().ok()).unwrap_or(0)).map(|_| ()),
        _ => Err(format!("unknown kind {kind}")),
    }
}

// ---------------------------------------------------------------------------------------------
// sweeps
// ---------------------------------------------------------------------------------------------

fn sweep_plain(run: &Run) {
    let mut h = Hist::new();
    let mut n = 0u64;
    // grid helpers
    for &i in &INTERVALS {
        for x in anchor::heights(i, true) {
            n += 1;
            match anchor::check_grid(i, x) {
                Ok(o) => bump(&mut h, o),
                Err(m) => fail(run, "grid", format!("grid({i},{x})"), m, json!({"interval": i, "h": x})),
            }
        }
    }
    // scaled distributions and the validated constructor
    for i in [1u32, 2, 8, 9, 10, 12, 143, 144, 145, 1 << 16, 1_073_741_823, 1_073_741_824, 1_073_741_825, 1 << 31, TOP - 1, TOP] {
        n += 1;
        match sched::check_scaled(i) {
            Ok(o) => bump(&mut h, o),
            Err(m) => fail(run, "scaled", format!("scaled({i})"), m, json!({"interval": i})),
        }
    }
    let lat = [1u32, 2, 95, 96, 97, TOP - 1, TOP];
    for &mean in &lat {
        for &cap in &lat {
            n += 1;
            match sched::check_dist_new(mean, cap) {
                Ok(o) => bump(&mut h, o),
                Err(m) => fail(run, "dist", format!("dist({mean},{cap})"), m, json!({"mean": mean, "cap": cap})),
            }
        }
    }
    // classification codes
    for code in [i64::MIN, -1, 0, 1, 2, 3, 4, 5, 255, 256, i64::MAX] {
        n += 1;
        match classify::check_codes(code) {
            Ok(o) => bump(&mut h, o),
            Err(m) => fail(run, "code", format!("code({code})"), m, json!({"code": code.to_string()})),
        }
    }
    flush(run, h, n);
}

fn sweep_expiry(run: &Run) {
    // every height of the first four periods and of the last three; both sides of every multiple
    // of the modulus in between
    let mut hs: Vec<u32> = (0..=4 * M + 2).collect();
    hs.extend(TOP - 3 * M - 2..=TOP);
    let mut k = 4u64;
    while k * (M as u64) <= TOP as u64 {
        let b = k * M as u64;
        for d in -2i64..=2 {
            let x = b as i64 + d;
            if (0..=TOP as i64).contains(&x) {
                hs.push(x as u32);
            }
        }
        k += 1;
    }
    hs.sort();
    hs.dedup();
    hs.par_chunks(4096).for_each(|chunk| {
        if saturated(run, &["expiry"]) {
            return;
        }
        let mut h = Hist::new();
        for &x in chunk {
            match sched::check_expiry(x) {
                Ok(o) => bump(&mut h, o),
                Err(m) => fail(run, "expiry", format!("expiry({x})"), m, json!({"h": x})),
            }
        }
        flush(run, h, chunk.len() as u64);
    });
}

fn sweep_delays(run: &Run, max_len: usize, alphabets: &mut serde_json::Map<String, Value>) {
    let commits = commits();
    for &(mean, cap) in &DISTS {
        let words = rng::delay_words(mean, cap);
        alphabets.insert(format!("delay(mean={mean},cap={cap})"), json!(hexw(&words)));
        words.par_iter().for_each(|&first| {
            if saturated(run, &["delay", "schedule"]) {
                return;
            }
            let mut h = Hist::new();
            let mut n = 0u64;
            for fallback in [0u64, 1 << 11] {
                for_each_seq(&words, &[first], max_len, &mut |s| {
                    n += 1;
                    match sched::check_delay(mean, cap, s, fallback) {
                        Ok(o) => bump(&mut h, &o),
                        Err(m) => fail(run, "delay", format!("delay({mean},{cap},{:?},{fallback:#x})", hexw(s)), m, json!({"mean": mean, "cap": cap, "words": hexw(s), "fallback": format!("{fallback:#x}")})),
                    }
                    for &commit in &commits {
                        for parts in [1usize, 5] {
                            n += 1;
                            match sched::check_schedule(mean, cap, commit, parts, s, fallback) {
                                Ok(o) => bump(&mut h, o),
                                Err(m) => fail(run, 
                                    "schedule",
                                    format!("schedule({mean},{cap},{commit},{parts},{:?},{fallback:#x})", hexw(s)),
                                    m,
                                    json!({"mean": mean, "cap": cap, "commit": commit, "n": parts, "words": hexw(s), "fallback": format!("{fallback:#x}")}),
                                ),
                            }
                        }
                    }
                });
            }
            flush(run, h, n);
        });
        // the empty script and zero parts
        let mut h = Hist::new();
        let mut n = 0;
        for fallback in [0u64, 1 << 11] {
            n += 1;
            match sched::check_delay(mean, cap, &[], fallback) {
                Ok(o) => bump(&mut h, &o),
                Err(m) => fail(run, "delay", format!("delay({mean},{cap},[],{fallback:#x})"), m, json!({"mean": mean, "cap": cap, "words": [], "fallback": format!("{fallback:#x}")})),
            }
            for &commit in &commits {
                for parts in [0usize, 1, 5] {
                    n += 1;
                    match sched::check_schedule(mean, cap, commit, parts, &[], fallback) {
                        Ok(o) => bump(&mut h, o),
                        Err(m) => fail(run, "schedule", format!("schedule({mean},{cap},{commit},{parts},[],{fallback:#x})"), m, json!({"mean": mean, "cap": cap, "commit": commit, "n": parts, "words": [], "fallback": format!("{fallback:#x}")})),
                    }
                }
            }
        }
        flush(run, h, n);
    }
}

fn sweep_shuffle(run: &Run, max_len: usize, alphabets: &mut serde_json::Map<String, Value>) {
    let words = rng::bounded_draw_words(&[2, 3, 4, 5, 6]);
    alphabets.insert("bounded_draw(bounds 2..=6)".into(), json!(hexw(&words)));
    let mut starts: Vec<Vec<u64>> = vec![vec![]];
    starts.extend(words.iter().map(|w| vec![*w]));
    starts.par_iter().for_each(|start| {
        if saturated(run, &["shuffle"]) {
            return;
        }
        let mut h = Hist::new();
        let mut n = 0u64;
        let mut body = |s: &[u64]| {
            for fallback in [1u64, u64::MAX] {
                for size in 0..=6usize {
                    n += 1;
                    match sched::check_shuffle(size, s, fallback) {
                        Ok(o) => bump(&mut h, o),
                        Err(m) => fail(run, "shuffle", format!("shuffle({size},{:?},{fallback:#x})", hexw(s)), m, json!({"n": size, "words": hexw(s), "fallback": format!("{fallback:#x}")})),
                    }
                }
            }
        };
        if start.is_empty() {
            body(&[]);
        } else {
            for_each_seq(&words, start, max_len, &mut body);
        }
        flush(run, h, n);
    });
}

fn mult(i: u32, k: u64, d: i64) -> Option<u32> {
    let x = (i as u64 * k) as i128 + d as i128;
    (0..=TOP as i128).contains(&x).then_some(x as u32)
}

fn sweep_anchors(run: &Run, max_len: usize, alphabets: &mut serde_json::Map<String, Value>) {
    let words = rng::age_words();
    alphabets.insert("anchor_age".into(), json!(hexw(&words)));
    let fail_draw = |i: u32, a: u32, f: u32, t: u32, s: &[u64], fbk: u64, m: String| {
        fail(run, "draw", format!("draw({i},{a},{f},{t},{:?},{fbk:#x})", hexw(s)), m, json!({"interval": i, "activation": a, "funding": f, "tip": t, "words": hexw(s), "fallback": format!("{fbk:#x}")}))
    };
    let fail_redraw = |i: u32, p: u32, b: u32, s: &[u64], fbk: u64, m: String| {
        fail(run, "redraw", format!("redraw({i},{p},{b},{:?},{fbk:#x})", hexw(s)), m, json!({"interval": i, "prior": p, "broadcast": b, "words": hexw(s), "fallback": format!("{fbk:#x}")}))
    };
    // shape sweep: rich height lattice, scripts of length <= 1
    for &i in &INTERVALS {
        let hs = anchor::heights(i, true);
        hs.par_iter().for_each(|&a| {
            if saturated(run, &["draw", "redraw", "earliest"]) {
                return;
            }
            let mut h = Hist::new();
            let mut n = 0u64;
            for &f in &hs {
                for &t in &hs {
                    n += 1;
                    match anchor::check_earliest(i, a, f, t) {
                        Ok(o) => bump(&mut h, o),
                        Err(m) => fail(run, "earliest", format!("earliest({i},{a},{f},{t})"), m, json!({"interval": i, "activation": a, "funding": f, "tip": t})),
                    }
                    for fbk in [1u64, u64::MAX] {
                        for_each_seq(&words, &[], 1, &mut |s| {
                            n += 1;
                            match anchor::check_draw(i, a, f, t, s, fbk) {
                                Ok(o) => bump(&mut h, &o),
                                Err(m) => fail_draw(i, a, f, t, s, fbk, m),
                            }
                        });
                    }
                }
                // (prior, broadcast) = (a, f)
                for fbk in [1u64, u64::MAX] {
                    for_each_seq(&words, &[], 1, &mut |s| {
                        n += 1;
                        match anchor::check_redraw(i, a, f, s, fbk) {
                            Ok(o) => bump(&mut h, &o),
                            Err(m) => fail_redraw(i, a, f, s, fbk, m),
                        }
                    });
                }
            }
            flush(run, h, n);
        });
    }
    // stream sweep: every script up to max_len on a small lattice around the candidate-set edges
    for &i in &INTERVALS {
        let acts: Vec<u32> = [mult(i, 0, 0), mult(i, 1, 0)].into_iter().flatten().collect();
        let funds: Vec<u32> = [mult(i, 0, 0), mult(i, 2, 0), mult(i, 3, 1)].into_iter().flatten().collect();
        let tips: Vec<u32> = [mult(i, 2, -1), mult(i, 2, 0), mult(i, 4, 0), mult(i, 6, 1), mult(i, 7, -1), Some(TOP)].into_iter().flatten().collect();
        let priors: Vec<u32> = [mult(i, 0, 0), mult(i, 1, 0), mult(i, 1, 1), mult(i, 3, 0)].into_iter().flatten().collect();
        let mut starts: Vec<Vec<u64>> = vec![];
        for a in &words {
            for b in &words {
                starts.push(vec![*a, *b]);
            }
        }
        starts.par_iter().for_each(|start| {
            if saturated(run, &["draw", "redraw"]) {
                return;
            }
            let mut h = Hist::new();
            let mut n = 0u64;
            for fbk in [1u64, u64::MAX] {
                for_each_seq(&words, start, max_len, &mut |s| {
                    for &t in &tips {
                        for &a in &acts {
                            for &f in &funds {
                                n += 1;
                                match anchor::check_draw(i, a, f, t, s, fbk) {
                                    Ok(o) => bump(&mut h, &o),
                                    Err(m) => fail_draw(i, a, f, t, s, fbk, m),
                                }
                            }
                        }
                        for &p in &priors {
                            n += 1;
                            match anchor::check_redraw(i, p, t, s, fbk) {
                                Ok(o) => bump(&mut h, &o),
                                Err(m) => fail_redraw(i, p, t, s, fbk, m),
                            }
                        }
                    }
                });
            }
            flush(run, h, n);
        });
    }
}

#[derive(Clone, Copy)]
struct Set {
    n: usize,
    t: [(u32, u32); 5],
}
impl Set {
    fn vec(&self) -> Vec<(u32, u32)> {
        self.t[..self.n].to_vec()
    }
}

fn multisets(pairs: &[(u32, u32)], k: usize) -> Vec<Set> {
    fn rec(pairs: &[(u32, u32)], start: usize, k: usize, cur: &mut Set, out: &mut Vec<Set>) {
        if cur.n == k {
            out.push(*cur);
            return;
        }
        for i in start..pairs.len() {
            cur.t[cur.n] = pairs[i];
            cur.n += 1;
            rec(pairs, i, k, cur, out);
            cur.n -= 1;
        }
    }
    let mut out = Vec::new();
    rec(pairs, 0, k, &mut Set { n: 0, t: [(0, 0); 5] }, &mut out);
    out
}

fn sweep_wakeups(run: &Run, tier: Tier, alphabets: &mut serde_json::Map<String, Value>) {
    let full = rng::bounded_draw_words(&[2, 3, 4]);
    let small: Vec<u64> = vec![0, 1, 1 << 62, 1 << 63, 0xAAAA_AAAA_AAAA_AAAB, u64::MAX];
    alphabets.insert("wakeup_jitter(<=2 transfers; bounds 2..=4)".into(), json!(hexw(&full)));
    alphabets.insert("wakeup_jitter(>=3 transfers; one word per jitter value per bound, one rejected)".into(), json!(hexw(&small)));
    let wall_cap = tier.pick(45.0, 1500.0);
    let capped = AtomicBool::new(false);
    let jitters_seen = AtomicU32::new(0);
    let max_k = tier.pick(3, 4);
    let mut counts = serde_json::Map::new();
    for base in [0u32, TOP - 12] {
        let dom: Vec<u32> = (0..=12).map(|d| base + d).collect();
        let all: Vec<(u32, u32)> = dom.iter().flat_map(|a| dom.iter().map(move |b| (*a, *b))).collect();
        let feasible: Vec<(u32, u32)> = all.iter().copied().filter(|(a, b)| *b as u64 >= *a as u64 + 2).collect();
        let tips: Vec<u32> = (0..=13u64).filter_map(|d| u32::try_from(base as u64 + d).ok()).collect();
        let mut sets: Vec<Set> = vec![Set { n: 0, t: [(0, 0); 5] }];
        for p in &all {
            sets.push(Set { n: 1, t: [*p, (0, 0), (0, 0), (0, 0), (0, 0)] });
        }
        for p in &all {
            for q in &all {
                sets.push(Set { n: 2, t: [*p, *q, (0, 0), (0, 0), (0, 0)] });
            }
        }
        if base == 0 {
            for k in 3..=max_k {
                for s in multisets(&feasible, k) {
                    sets.push(s);
                    let mut r = s;
                    r.t[..k].reverse();
                    if r.t != s.t {
                        sets.push(r);
                    }
                }
            }
        }
        counts.insert(format!("transfer_sets(base={base})"), json!(sets.len()));
        sets.par_chunks(64).for_each(|chunk| {
            if run.elapsed() > wall_cap {
                capped.store(true, Ordering::Relaxed);
                return;
            }
            if saturated(run, &["wakeup"]) {
                return;
            }
            let mut h: BTreeMap<&'static str, u64> = BTreeMap::new();
            let mut n = 0u64;
            let mut js = 0u32;
            for set in chunk {
                let words: &[u64] = if set.n <= 2 { &full } else { &small };
                for &tip in &tips {
                    for margin in [0u32, 1, 2, 3] {
                        for jitter_cap in [0u32, 1, 3] {
                            let inst = wakeup::Instance { transfers: set.vec(), tip, margin, jitter_cap };
                            let mut one = |s: &[u64]| -> u32 {
                                n += 1;
                                match wakeup::check(&inst, s, 1) {
                                    Ok(v) => {
                                        *h.entry(v.class).or_insert(0) += 1;
                                        js |= v.jitters;
                                        v.draws
                                    }
                                    Err(m) => {
                                        fail(run, 
                                            "wakeup",
                                            format!("wakeup({:?},tip={tip},margin={margin},jitter={jitter_cap},{:?})", inst.transfers, hexw(s)),
                                            m,
                                            json!({"transfers": inst.transfers.iter().map(|(a, b)| vec![*a, *b]).collect::<Vec<_>>(), "tip": tip, "margin": margin, "jitter_cap": jitter_cap, "words": hexw(s), "fallback": "0x1"}),
                                        );
                                        0
                                    }
                                }
                            };
                            let draws = one(&[]) as usize;
                            if draws > 0 {
                                // every script of exactly `draws` words (one per jittered wake-up)
                                let mut idx = vec![0usize; draws];
                                let mut s = vec![words[0]; draws];
                                'outer: loop {
                                    one(&s);
                                    let mut p = 0;
                                    loop {
                                        idx[p] += 1;
                                        if idx[p] < words.len() {
                                            s[p] = words[idx[p]];
                                            break;
                                        }
                                        idx[p] = 0;
                                        s[p] = words[0];
                                        p += 1;
                                        if p == draws {
                                            break 'outer;
                                        }
                                    }
                                }
                            }
                        }
                    }
                }
            }
            flush(run, h.into_iter().map(|(k, v)| (k.to_string(), v)).collect(), n);
            jitters_seen.fetch_or(js, Ordering::Relaxed);
        });
    }
    if capped.load(Ordering::Relaxed) {
        run.cap_hit(&format!("wall cap {wall_cap}s hit during the wake-up sweep; remaining transfer sets skipped"));
    }
    counts.insert("jitters_observed_bitmask".into(), json!(jitters_seen.load(Ordering::Relaxed)));
    run.section("wakeups", Value::Object(counts));
    run.require(jitters_seen.load(Ordering::Relaxed) & 0b1111 == 0b1111 || run.failure_count() > 0, "not every jitter 0..=3 was observed in the wake-up sweep");
}

fn sweep_classify(run: &Run) {
    use classify::{check_edge, check_point, Point, ARITY, CLASS_NAMES};
    let mut points: Vec<Point> = Vec::new();
    let mut p: Point = [0; 8];
    'gen: loop {
        points.push(p);
        let mut f = 0;
        loop {
            p[f] += 1;
            if p[f] < ARITY[f] {
                break;
            }
            p[f] = 0;
            f += 1;
            if f == 8 {
                break 'gen;
            }
        }
    }
    let edges = AtomicU32::new(0);
    run.section("classification", json!({"lattice_points": points.len(), "constants": ["ZIP 318", "custom (3 preparation actions, 1 ZEC cap)"]}));
    for custom in [false, true] {
        points.par_chunks(1024).for_each(|chunk| {
            if saturated(run, &["point", "edge"]) {
                return;
            }
            let mut h = Hist::new();
            let mut n = 0u64;
            for p in chunk {
                n += 1;
                match check_point(p, custom) {
                    Ok(c) => bump(&mut h, &format!("point:{}", CLASS_NAMES[c as usize])),
                    Err(m) => fail(run, "point", format!("point({:?},custom={custom})", p), m, json!({"point": p, "custom": custom})),
                }
                for f in 0..8 {
                    if p[f] != 0 {
                        continue;
                    }
                    for v in 1..ARITY[f] {
                        n += 1;
                        match check_edge(p, f, v, custom) {
                            Ok(o) => bump(&mut h, o),
                            Err(m) => fail(run, "edge", format!("edge({:?},{f},{v},custom={custom})", p), m, json!({"point": p, "field": f, "value": v, "custom": custom})),
                        }
                    }
                }
            }
            edges.fetch_add((n - chunk.len() as u64) as u32, Ordering::Relaxed);
            flush(run, h, n);
        });
    }
    // the lattice as a graph: points are states, covering edges are transitions; every edge was executed
    // on the implementation at both ends
    let e = edges.load(Ordering::Relaxed) as u64;
    run.add_graph(2 * points.len() as u64, e, e);
}

pub fn run(args: &Args) -> i32 {
    let run = Run::new(args, "exploration");
    run.set_rule(
        "the random generator is scripted: for each randomised function every word sequence of length 0..=L (L=4; 5 in the thorough tier for \
         shuffles and anchors) over that function's threshold alphabet, followed by a constant under which it terminates, crossed with boundary \
         lattices (heights incl. u32::MAX edges, intervals {1,2,3,144,2^31,u32::MAX}, 7 delay distributions); wake-ups: every set of <=2 transfers \
         (ordered, all 169 anchor/broadcast pairs of a 13-height domain, also at the top of the height range) and every multiset of 3 (4 in the \
         thorough tier) feasible transfers in both input orders x 14 tips x 4 margins x 3 jitter caps x every jitter script; classification: \
         every point and every covering edge of the evidence lattice under two sets of constants. A case is distinct by its full tuple.",
    );
    run.assume("streams under which rejection sampling does not terminate are outside the property; after the scripted words the generator returns a constant under which the function under test terminates (0 or 2^11 for delays, 1 or u64::MAX for bounded draws and anchor ages)");
    run.assume("wake-up windows: [anchor + max(margin,1), broadcast - 1]; when the margin does not fit before the broadcast the window is the last height before the broadcast (the clamp the source documents for tiny test-network intervals); overdue transfers are covered by the immediate wake-up at the tip, which is then a mandatory point of the piercing set (as documented)");
    run.assume("classification monotonicity is demanded on the edges a single source can walk: the two CONFIRMATORY clauses (anchor_on_grid, fee_is_canonical) are documented as a fixed capability of the source, and a negative answer to one is documented to refute even a labelled transaction; those edges are checked against that documentation instead (positive answer: no change; negative answer: Nonconforming) and counted as 'edge:confirmatory-negative-overrides-label'");
    run.assume("a wrapped 32-bit rounding of an enormous exponential draw (means near u32::MAX) still yields a delay within the cap; only the cap is demanded of a delay");
    let quick = args.tier == Tier::Quick;
    let mut alphabets = serde_json::Map::new();

    sweep_plain(&run);
    sweep_expiry(&run);
    sweep_classify(&run);
    sweep_delays(&run, 4, &mut alphabets);
    sweep_shuffle(&run, if quick { 4 } else { 5 }, &mut alphabets);
    sweep_anchors(&run, if quick { 4 } else { 5 }, &mut alphabets);
    run.section("elapsed_before_wakeups_s", json!(run.elapsed()));
    sweep_wakeups(&run, args.tier, &mut alphabets);

    run.section("word_alphabets", Value::Object(alphabets));
    run.section("sequence_counts", json!({"delay_alphabet_max": DISTS.iter().map(|(m, c)| rng::delay_words(*m, *c).len()).max(), "age_sequences_len4": seq_count(rng::age_words().len() as u64, 4)}));
    run.sample(json!({"kind": "draw", "interval": 144, "activation": 0, "funding": 0, "tip": 1000, "words": ["0x10", "0x4"], "expected": "first word has age 5 (redrawn), second age 3: boundary 864 - 3*144 = 432"}));
    run.sample(json!({"kind": "wakeup", "transfers": [[0, 6], [3, 9]], "tip": 0, "margin": 2, "jitter_cap": 3, "expected": "one wake-up at 5 covering both (windows [2,5] and [5,8])"}));
    run.sample(json!({"kind": "edge", "from": "16 source actions, 0 destination actions, no other bundles, canonical expiry, send-to-self", "answer": "anchor_on_grid = false", "expected": "Preparation -> Nonconforming (documented confirmatory refutation)"}));
    run.require(run.outcomes_distinct() >= 60 || run.failure_count() > 0, "fewer than 60 distinct outcome classes observed");
    for must in [
        "delay(1,1):at-cap:first-word", "delay(16,96):at-cap:first-word", "delay(66,576):at-cap:first-word", "delay(5,48):at-cap:first-word", "delay(134217728,134217728):at-cap:first-word",
        "delay(1,1):zero:after-rejection", "delay(16,96):zero:after-rejection", "delay(66,576):inside:after-rejection", "delay(134217728,134217728):inside:first-word-wrapped-32-bits",
        "draw:age4:after-redraw", "draw:none", "redraw:age4:first-word", "redraw:none", "shuffle:moved-after-rejection", "earliest:saturated",
        "wakeup:shared", "wakeup:immediate-plus-groups", "wakeup:infeasible-reported", "point:preparation", "point:transfer", "edge:unknown-decided", "edge:decision-kept",
        "edge:confirmatory-negative-overrides-label", "schedule:saturated", "expiry:saturated", "grid:saturated", "scaled:saturated",
    ] {
        run.require(seen(must) || run.failure_count() > 0, &format!("outcome {must} never observed"));
    }
    run.finish(&replay)
}
