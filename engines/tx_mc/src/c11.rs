//! C11 — key encodings round-trip and derived addresses belong to their keys.
//!
//! Enumerated (complete product, no sampling): seed shapes x ZIP 32 accounts x networks x key
//! component subsets x diversifier-index alphabet x all `UnifiedAddressRequest`s x key levels
//! (USK -> UFVK -> UIVK, each also after an encode/decode round trip).
//!
//! Oracles (all commutation / round-trip laws, no hand-written expected values):
//!  * `enc`   encode/decode/re-encode equality and component preservation at every level (USK bytes,
//!            UFVK/UIVK strings, legacy Sapling ESK/EFVK/address, transparent keys/addresses/WIF/DER);
//!  * `addr`  every level returns the same result for `address(j, request)`, and that result is
//!            what a plain-boolean model of the documented Require/Allow/Omit semantics gives:
//!            exactly the requested receivers the key supports, each equal to the receiver derived
//!            from the *spending* side of the component keys; the key recognises the address;
//!  * `find`  `find_address` returns the smallest index >= start whose address conforms;
//!  * `recog` Sapling/Orchard diversifier and scope recovery, transparent pubkey-hash law;
//!  * `note`  Sapling / Orchard / Ironwood notes to each derived receiver decrypt under the
//!            matching-scope IVK obtained at every level and under no other key of the lattice;
//!  * `req`, `tindex`, `gap` small boundary lattices of the request and index machinery.
//!
//! Index alphabet, from the code: 0..=12 (dense start), first Sapling-invalid index and the next
//! valid one per key (`address_at(j) == None`, the only search trigger in `find_address`),
//! 2^31-1 | 2^31 (`NonHardenedChildIndex::from_index`), 2^32-1 | 2^32 (low four bytes vs the
//! `rest.iter().any(..)` test in `to_transparent_child_index`), 2^88-2 | 2^88-1
//! (`DiversifierIndex::increment` overflow -> `DiversifierSpaceExhausted`).

mod addr;
mod enc;
mod keys;
mod misc;
mod model;
mod notes;

use keys::{subset_name, KeyCtx, MAX_DI, NET_NAMES, O, S, SEED_NAMES, T};
use mc_core::{Args, Run, Tier};
use model::Req;
use rayon::prelude::*;
use serde_json::{json, Value};
use std::sync::atomic::{AtomicU64, Ordering};

/// Index alphabet for one key.
fn index_alphabet(ctx: &KeyCtx, tier: Tier) -> Vec<u128> {
    let mut v: Vec<u128> = (0..=12u128).collect();
    let mut from = 0u128;
    for _ in 0..tier.pick(1, 3) {
        if let Some(inv) = ctx.first_sapling(from, false) {
            v.push(inv);
            if let Some(nv) = ctx.first_sapling(inv + 1, true) {
                v.push(nv);
                from = nv + 1;
            }
        }
        from = from.max(13);
    }
    v.extend([(1u128 << 31) - 1, 1u128 << 31, (1u128 << 32) - 1, 1u128 << 32, MAX_DI - 1, MAX_DI]);
    if tier == Tier::Thorough {
        v.extend(13..=40u128);
        v.extend([(1u128 << 31) - 2, (1u128 << 31) + 1, (1u128 << 32) + 1, (1u128 << 64) - 1, 1u128 << 64, 1u128 << 87]);
    }
    v.sort();
    v.dedup();
    v
}

fn s(v: &Value, k: &str) -> Result<String, String> {
    v[k].as_str().map(|x| x.to_string()).ok_or_else(|| format!("case lacks {k}"))
}
fn n(v: &Value, k: &str) -> Result<u64, String> {
    v[k].as_u64().ok_or_else(|| format!("case lacks {k}"))
}
fn big(v: &Value, k: &str) -> Result<u128, String> {
    v[k].as_str().and_then(|x| x.parse().ok()).ok_or_else(|| format!("case lacks {k}"))
}
fn ctx_of(c: &Value) -> Result<KeyCtx, String> {
    KeyCtx::build(&s(c, "seed")?, n(c, "account")? as u32, &s(c, "net")?)
}
fn key_json(ctx: &KeyCtx) -> Value {
    json!({"seed": ctx.seed_name, "account": ctx.account, "net": ctx.net_name})
}
fn with(mut base: Value, extra: Value) -> Value {
    if let (Some(b), Some(e)) = (base.as_object_mut(), extra.as_object()) {
        for (k, v) in e {
            b.insert(k.clone(), v.clone());
        }
    }
    base
}

/// A key unrelated to `ctx` (another account of the same seed and network).
fn foreign_uivk(ctx: &KeyCtx) -> Result<zcash_keys::keys::UnifiedIncomingViewingKey, String> {
    let other = if ctx.account == 0 { 1 } else { ctx.account - 1 };
    let f = KeyCtx::build(&ctx.seed_name, other, &ctx.net_name)?;
    let m = if f.has_t() { O | S | T } else { O | S };
    Ok(f.levels(m)?.uivk)
}

pub fn replay(kind: &str, c: &Value) -> Result<(), String> {
    match kind {
        "enc" => enc::check_encodings(&ctx_of(c)?).map(|_| ()),
        "addr" => {
            let ctx = ctx_of(c)?;
            let lv = ctx.levels(n(c, "subset")? as u8)?;
            let at = addr::At::new(&ctx, big(c, "j")?);
            let req = Req::parse(&s(c, "req")?).ok_or("bad req")?;
            addr::check_address(&ctx, &lv, &at, req, &foreign_uivk(&ctx)?).map(|_| ())
        }
        "find" => {
            let ctx = ctx_of(c)?;
            let lv = ctx.levels(n(c, "subset")? as u8)?;
            let req = Req::parse(&s(c, "req")?).ok_or("bad req")?;
            addr::check_find(&ctx, &lv, &addr::Window::new(&ctx, big(c, "j")?), req).map(|_| ())
        }
        "recog" => addr::check_recognition(&ctx_of(c)?, big(c, "j")?).map(|_| ()),
        "uarecog" => {
            let ctx = ctx_of(c)?;
            let lvs: Vec<keys::Levels> = ctx.subsets().into_iter().map(|m| ctx.levels(m)).collect::<Result<_, _>>()?;
            addr::check_ua_recognition(&ctx, &lvs, &addr::Window::new(&ctx, big(c, "j")?), &foreign_uivk(&ctx)?).map(|_| ())
        }
        "note" => {
            let ctx = ctx_of(c)?;
            let seeds: Vec<String> = c["lattice_seeds"].as_array().ok_or("lattice_seeds")?.iter().filter_map(|x| x.as_str().map(|y| y.to_string())).collect();
            let accounts: Vec<u32> = c["lattice_accounts"].as_array().ok_or("lattice_accounts")?.iter().filter_map(|x| x.as_u64().map(|y| y as u32)).collect();
            let lat = notes::Lattice::build(&seeds, &accounts)?;
            let lv = ctx.levels(if ctx.has_t() { O | S | T } else { O | S })?;
            notes::check_note(&lat, &ctx, &notes::Own::new(&lv), c["internal"].as_bool().ok_or("internal")?, &s(c, "pool")?, big(c, "j")?).map(|_| ())
        }
        "req" => misc::check_request_pair(Req::parse(&s(c, "a")?).ok_or("bad a")?, Req::parse(&s(c, "b")?).ok_or("bad b")?).map(|_| ()),
        "tindex" => misc::check_tindex(n(c, "v")?, n(c, "d")?).map(|_| ()),
        "gap" => {
            let ctx = ctx_of(c)?;
            let lv = ctx.levels(n(c, "subset")? as u8)?;
            let req = Req::parse(&s(c, "req")?).ok_or("bad req")?;
            misc::check_gap_list(&ctx, &lv, n(c, "scope")? as u32, req, n(c, "start")?, c["with_ufvk"].as_bool().ok_or("with_ufvk")?, c["require_key"].as_bool().ok_or("require_key")?).map(|_| ())
        }
        _ => Err(format!("unknown kind {kind}")),
    }
}

pub fn run(args: &Args) -> i32 {
    let run = Run::new(args, "exploration");
    run.set_rule(
        "complete product of seed shapes x ZIP 32 accounts x networks x key component subsets x diversifier-index alphabet x all \
         UnifiedAddressRequests (AllAvailableKeys + every constructible Require/Allow/Omit triple) x key levels (UFVK, UIVK, decoded UFVK, \
         decoded UIVK, UFVK of the decoded USK); a case is one (key, subset, index, request) and is distinct by that tuple; it is non-trivial \
         because every case derives addresses on the real code and is compared with level-0 receivers derived from the spending-side \
         component keys and with a boolean model of the documented request semantics. Notes: one note per (key, scope, pool, index) tried \
         against every incoming viewing key of the lattice. Encodings are evaluated for every key of seeds x accounts x networks; the          address/find/recognition/gap/note product runs over the keys named by the address_product_* sections (thorough: all of them).",
    );
    run.section(
        "observed_only",
        json!([
            "enc:observed:decoded-uivk-*: whether decode(encode(uivk)) compares equal to / is subsumed by the original under the API's own PartialEq/subsumes; key equality is not part of C11 (on this tree it is NOT equal whenever a transparent item is present: ExternalIvk's derived PartialEq compares BIP 32 metadata that deserialize fills with dummies)",
            "recog:sapling:internal:dfvk-decrypt_diversifier-none(external-crate): sapling-crypto's DiversifiableFullViewingKey::decrypt_diversifier on an internal address (trusted external crate; scope recovery for internal Sapling addresses is checked through diversified_change_address instead)",
            "tindex:observed:empty-range-yields-N-items: what NonHardenedChildRange yields for an empty range (range cardinality for empty ranges is not part of C11)"
        ]),
    );
    run.assume("seeds are a finite set of shapes (all-zero, all-ones, counting; lengths 32, 64, 252): the claim covered is the commutation law over the index/request/level lattice, not 'all seeds'");
    run.assume("orchard, sapling-crypto, zcash_note_encryption, bip32, secp256k1 are trusted: which diversifier indices are valid for Sapling is taken from sapling-crypto's own derivation on the spending-side key");
    run.assume("Require of a receiver type the key has no item for must be an error; which variant (KeyNotAvailable / ReceiverTypeNotSupported / ShieldedReceiverRequired) is not demanded because the variant docs and receiver_requirements disagree");
    run.assume("test and regtest share coin type 1 and the transparent prefixes (documented): keys are identified by (seed, coin type, account); their string encodings still differ by prefix and must not cross-decode");
    run.assume("UnifiedSpendingKey::from_seed is fallible by signature; with a transparent component only BIP 32 seed lengths (32, 64 here) can succeed, so the 252-byte seed is exercised on the shielded components and legacy Sapling encodings only");

    let tier = args.tier;
    let seeds: Vec<String> = SEED_NAMES.iter().map(|x| x.to_string()).collect();
    let accounts: Vec<u32> = tier.pick(vec![0, (1u32 << 31) - 1], vec![0, 1, 2, (1u32 << 31) - 2, (1u32 << 31) - 1]);
    // Encodings are checked for every key of seeds x accounts x networks in both tiers. The
    // address / find / recognition / gap / note product ("deep" keys) is the full product in
    // thorough; quick restricts it to the two longest seed shapes (one with, one without a
    // transparent component), the two extreme accounts and main + test (test and regtest are the
    // same keys: coin type 1, and address derivation never looks at the network).
    let deep_seeds: Vec<&str> = tier.pick(vec!["count64", "count252"], SEED_NAMES.to_vec());
    let deep_nets: Vec<&str> = tier.pick(vec!["main", "test"], NET_NAMES.to_vec());
    let deep = |c: &KeyCtx| deep_seeds.contains(&c.seed_name.as_str()) && deep_nets.contains(&c.net_name.as_str());
    run.section("seeds", json!(seeds));
    run.section("accounts", json!(accounts));
    run.section("networks", json!(NET_NAMES));
    run.section("address_product_seeds", json!(deep_seeds));
    run.section("address_product_networks", json!(deep_nets));

    // ---- key contexts ----
    let mut specs = Vec::new();
    for sd in &seeds {
        for &a in &accounts {
            for nn in NET_NAMES {
                specs.push((sd.clone(), a, nn.to_string()));
            }
        }
    }
    let ctxs: Vec<KeyCtx> = specs
        .par_iter()
        .map(|(sd, a, nn)| KeyCtx::build(sd, *a, nn).unwrap_or_else(|e| mc_core::machinery_error(&format!("cannot build key {sd}/{a}/{nn}: {e}"))))
        .collect();
    run.section("keys", json!(ctxs.len()));

    // ---- request and index boundary lattices ----
    if let Err(e) = misc::check_request_constants() {
        run.fail("req", "request-constants".into(), e, json!({"a": "AAA", "b": "AAA"}));
    }
    let reqs_all = Req::all();
    let customs: Vec<Req> = reqs_all.iter().copied().filter(|r| matches!(r, Req::Custom(..))).collect();
    let mut cnt = 0u64;
    for &a in &customs {
        for &b in &customs {
            cnt += 1;
            match misc::check_request_pair(a, b) {
                Ok(o) => run.outcome(&format!("req:{o}")),
                Err(m) => run.fail("req", format!("req:{}x{}", a.code(), b.code()), m, json!({"a": a.code(), "b": b.code()})),
            }
        }
    }
    let tl = misc::tindex_lattice();
    for &v in &tl {
        for d in [0u64, 1, 2, 3, 4, 10, (1 << 31) - 1, 1 << 31, u32::MAX as u64] {
            cnt += 1;
            match misc::check_tindex(v, d) {
                Ok(os) => os.iter().for_each(|o| run.outcome(&format!("tindex:{o}"))),
                Err(m) => run.fail("tindex", format!("tindex:{v}+{d}"), m, json!({"v": v, "d": d})),
            }
        }
    }
    run.eval_distinct(cnt);

    // ---- encodings ----
    let mut phases = serde_json::Map::new();
    let mut t0 = run.elapsed();
    let mut lap = |name: &str, run: &Run| {
        let t = run.elapsed();
        phases.insert(name.to_string(), json!(((t - t0) * 10.0).round() / 10.0));
        t0 = t;
    };
    ctxs.par_iter().for_each(|ctx| match enc::check_encodings(ctx) {
        Ok(os) => {
            run.eval_distinct(os.len() as u64);
            os.iter().for_each(|o| run.outcome(&format!("enc:{o}")));
        }
        Err(m) => run.fail("enc", format!("enc:{}", ctx.id()), m, key_json(ctx)),
    });
    run.sample(json!({"kind": "enc", "key": "zero32/0/main", "laws": ["USK to_bytes/from_bytes", "UFVK+UIVK string per component subset", "Sapling ESK/EFVK/address", "transparent keys, addresses, WIF, DER"]}));

    lap("enc_s", &run);
    // ---- addresses: (key, subset, index) units, all requests inside ----
    let reqs: Vec<Req> = reqs_all.iter().copied().filter(|r| r.constructible()).collect();
    run.section("requests", json!(reqs.iter().map(|r| r.code()).collect::<Vec<_>>()));
    struct Unit<'a> {
        ctx: &'a KeyCtx,
        j: u128,
    }
    let mut units = Vec::new();
    let mut alphabets = serde_json::Map::new();
    for ctx in ctxs.iter().filter(|c| deep(c)) {
        let al = index_alphabet(ctx, tier);
        if alphabets.len() < 4 {
            alphabets.insert(ctx.id(), json!(al.iter().map(|x| x.to_string()).collect::<Vec<_>>()));
        }
        for j in al {
            units.push(Unit { ctx, j });
        }
    }
    run.section("index_alphabet_examples", Value::Object(alphabets));
    // per-key level sets and a foreign key, built once
    let prepared: Vec<(Vec<keys::Levels>, zcash_keys::keys::UnifiedIncomingViewingKey)> = ctxs
        .par_iter()
        .map(|ctx| {
            let lvs = ctx.subsets().into_iter().map(|m| ctx.levels(m).unwrap_or_else(|e| mc_core::machinery_error(&format!("levels {} {}: {e}", ctx.id(), subset_name(m))))).collect();
            let f = foreign_uivk(ctx).unwrap_or_else(|e| mc_core::machinery_error(&format!("foreign key for {}: {e}", ctx.id())));
            (lvs, f)
        })
        .collect();
    let idx_of = |ctx: &KeyCtx| ctxs.iter().position(|c| std::ptr::eq(c, ctx)).expect("ctx index");
    // Wall budget per phase, so that a slow machine truncates every phase a little instead of
    // starving the later ones; regtest keys (the same keys as test) are derived last.
    let addr_cap = tier.pick(36.0, 380.0);
    let gap_cap = tier.pick(40.0, 420.0);
    let wall_cap = tier.pick(50.0, 540.0);
    let skipped_addr = AtomicU64::new(0);
    let skipped = AtomicU64::new(0);
    units.sort_by_key(|u| u.ctx.net_name == "regtest");
    let split = units.iter().position(|u| u.ctx.net_name == "regtest").unwrap_or(units.len());
    let (primary, secondary) = units.split_at(split);
    let addr_unit = |u: &Unit| {
        if run.elapsed() > addr_cap {
            skipped_addr.fetch_add(1, Ordering::Relaxed);
            return;
        }
        let ctx = u.ctx;
        let (lvs, foreign) = &prepared[idx_of(ctx)];
        let win = addr::Window::new(ctx, u.j);
        let at = &win.at;
        let mut evals = 0u64;
        match addr::check_recognition(ctx, u.j) {
            Ok(os) => {
                evals += 1;
                os.iter().for_each(|o| run.outcome(&format!("recog:{o}")));
            }
            Err(m) => run.fail("recog", format!("recog:{}:j={}", ctx.id(), u.j), m, with(key_json(ctx), json!({"j": u.j.to_string()}))),
        }
        match addr::check_ua_recognition(ctx, lvs, &win, foreign) {
            Ok(os) => {
                evals += os.len() as u64;
                os.iter().for_each(|o| run.outcome(&format!("uarecog:{o}")));
            }
            Err(m) => run.fail("uarecog", format!("uarecog:{}:j={}", ctx.id(), u.j), m, with(key_json(ctx), json!({"j": u.j.to_string()}))),
        }
        for lv in lvs {
            for &req in &reqs {
                let case = || with(key_json(ctx), json!({"subset": lv.mask, "j": u.j.to_string(), "req": req.code()}));
                let key = |k: &str| format!("{k}:{}:{}:j={}:{}", ctx.id(), subset_name(lv.mask), u.j, req.code());
                evals += 2;
                match addr::check_address(ctx, lv, at, req, foreign) {
                    Ok(o) => run.outcome(&format!("addr:{o}")),
                    Err(m) => run.fail("addr", key("addr"), m, case()),
                }
                match addr::check_find(ctx, lv, &win, req) {
                    Ok(o) => run.outcome(&format!("find:{o}")),
                    Err(m) => run.fail("find", key("find"), m, case()),
                }
            }
        }
        run.eval_distinct(evals);
    };
    primary.par_iter().for_each(addr_unit);
    secondary.par_iter().for_each(addr_unit);
    run.sample(json!({"kind": "addr", "key": "count32/0/main", "subset": "OST", "j": "first Sapling-invalid index", "req": "ARA", "expected": "InvalidSaplingDiversifierIndex(j) at every level"}));
    run.sample(json!({"kind": "addr", "key": "count32/0/main", "subset": "OST", "j": (1u128 << 32).to_string(), "req": "AAA", "expected": "address with Orchard (+Sapling if valid) and no transparent receiver"}));
    run.sample(json!({"kind": "find", "key": "ff32/0/test", "subset": "ST", "j": MAX_DI.to_string(), "req": "ORO", "expected": "DiversifierSpaceExhausted iff the last index is invalid for Sapling"}));

    lap("addr_find_recog_s", &run);
    // ---- gap-limit address lists ----
    let gap_units: Vec<(&KeyCtx, usize)> = ctxs.iter().enumerate().filter(|(_, c)| c.has_t() && deep(c)).map(|(i, c)| (c, i)).collect();
    gap_units.par_iter().for_each(|(ctx, i)| {
        if run.elapsed() > gap_cap {
            skipped.fetch_add(1, Ordering::Relaxed);
            return;
        }
        let (lvs, _) = &prepared[*i];
        let inv = ctx.first_sapling(0, false).unwrap_or(0) as u64;
        let starts = [0u64, inv.saturating_sub(1), (1u64 << 31) - 3];
        let mut evals = 0u64;
        for lv in lvs {
            for scope in [0u32, 1, 2, 7] {
                let rs: Vec<Req> = if scope == 0 { reqs.clone() } else { vec![Req::All] };
                for &req in &rs {
                    for &start in &starts {
                        for (with_ufvk, require_key) in [(true, true), (true, false), (false, true), (false, false)] {
                            // `require_key` and a missing UFVK only matter for the key lookup: one start / request suffices
                            if (!with_ufvk || !require_key) && (start != 0 || req != Req::All) {
                                continue;
                            }
                            evals += 1;
                            match misc::check_gap_list(ctx, lv, scope, req, start, with_ufvk, require_key) {
                                Ok(o) => run.outcome(&format!("gap:{o}")),
                                Err(m) => run.fail(
                                    "gap",
                                    format!("gap:{}:{}:scope{scope}:{}:start={start}:ufvk={with_ufvk}:req_key={require_key}", ctx.id(), subset_name(lv.mask), req.code()),
                                    m,
                                    with(key_json(ctx), json!({"subset": lv.mask, "scope": scope, "req": req.code(), "start": start, "with_ufvk": with_ufvk, "require_key": require_key})),
                                ),
                            }
                        }
                    }
                }
            }
        }
        run.eval_distinct(evals);
    });

    lap("gap_s", &run);
    // ---- notes ----
    let lat = notes::Lattice::build(&seeds, &accounts).unwrap_or_else(|e| mc_core::machinery_error(&format!("lattice: {e}")));
    run.section("note_lattice_incoming_viewing_keys", json!(lat.ivks.len()));
    struct NoteUnit<'a> {
        ctx: &'a KeyCtx,
        internal: bool,
        pool: &'static str,
        j: u128,
    }
    let mut nunits = Vec::new();
    for ctx in ctxs.iter().filter(|c| deep(c)) {
        // test and regtest are the same keys (coin type 1): notes are enumerated once per coin type
        if ctx.net_name == "regtest" {
            continue;
        }
        for j in index_alphabet(ctx, tier) {
            for internal in [false, true] {
                for pool in notes::POOLS {
                    nunits.push(NoteUnit { ctx, internal, pool, j });
                }
            }
        }
    }
    let note_own: Vec<Option<notes::Own>> = ctxs
        .par_iter()
        .map(|ctx| {
            deep(ctx).then(|| {
                let lv = ctx.levels(if ctx.has_t() { O | S | T } else { O | S }).unwrap_or_else(|e| mc_core::machinery_error(&format!("levels: {e}")));
                notes::Own::new(&lv)
            })
        })
        .collect();
    let trials = AtomicU64::new(0);
    nunits.par_iter().for_each(|u| {
        if run.elapsed() > wall_cap {
            skipped.fetch_add(1, Ordering::Relaxed);
            return;
        }
        let own = note_own[idx_of(u.ctx)].as_ref().expect("own keys of a deep key");
        match notes::check_note(&lat, u.ctx, own, u.internal, u.pool, u.j) {
            Ok(o) => {
                if o != "no-address-at-index" {
                    trials.fetch_add(lat.ivks.len() as u64, Ordering::Relaxed);
                    run.eval_distinct(1);
                }
                run.outcome(&format!("note:{}:{}:{o}", u.pool, if u.internal { "internal" } else { "external" }));
            }
            Err(m) => run.fail(
                "note",
                format!("note:{}:{}:{}:j={}", u.ctx.id(), u.pool, if u.internal { "internal" } else { "external" }, u.j),
                m,
                with(key_json(u.ctx), json!({"internal": u.internal, "pool": u.pool, "j": u.j.to_string(), "lattice_seeds": seeds, "lattice_accounts": accounts})),
            ),
        }
    });
    lap("notes_s", &run);
    run.section("phase_wall_s", Value::Object(phases));
    run.section("note_trial_decryptions_against_lattice", json!(trials.load(Ordering::Relaxed)));
    run.sample(json!({"kind": "note", "key": "count64/0/main", "pool": "ironwood", "scope": "internal", "j": "12", "expected": "decrypts under the internal Orchard IVK of this key at every level, in IronwoodDomain only, and under no other IVK of the lattice"}));

    let (ska, sk) = (skipped_addr.load(Ordering::Relaxed), skipped.load(Ordering::Relaxed));
    if ska > 0 {
        run.cap_hit(&format!("address phase wall budget {addr_cap}s: {ska} of {} (key, index) units not evaluated", units.len()));
    }
    if sk > 0 {
        run.cap_hit(&format!("gap/note phase wall budgets {gap_cap}s/{wall_cap}s: {sk} units not evaluated"));
    }
    run.require(run.outcomes_distinct() >= 40 || run.failure_count() > 0, "fewer than 40 distinct outcome classes observed");
    run.finish(&replay)
}
