//! tx_mc — keys, PCZT and transaction builder
mod c11;
mod c13;
mod c14;

use mc_core::{machinery_error, replay_file, Args};
use serde_json::Value;

fn replay(prop: &str) -> fn(&str, &Value) -> Result<(), String> {
    match prop {
        "C11" => c11::replay,
        "C13" => c13::replay,
        "C14" => c14::replay,
        _ => machinery_error(&format!("tx_mc does not serve {prop}")),
    }
}

fn main() {
    let args = Args::parse();
    let rp = replay(&args.prop);
    if let Some(p) = &args.replay {
        std::process::exit(replay_file(p, &rp));
    }
    let code = match args.prop.as_str() {
        "C11" => c11::run(&args),
        "C13" => c13::run(&args),
        "C14" => c14::run(&args),
        _ => unreachable!(),
    };
    std::process::exit(code);
}
