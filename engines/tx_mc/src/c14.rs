//! C14 — built transactions contain what was requested and pay exactly the fee.
//!
//! Bounded exhaustive exploration of the transaction builder over a shape lattice: numbers of
//! transparent / Sapling / Orchard / Ironwood inputs and outputs in {0,1,2}, target heights on
//! each side of every upgrade boundary that changes builder behaviour, requested transaction
//! version, bundle padding, fee rule, funding (exact, -1, +1, +fee), memo alphabet, anchor
//! configuration and build route (`mock_build`/`build` with mock Sapling provers,
//! `build_for_pczt` + PCZT Creator, the deferred-anchor PCZT builder, and a few real proofs).
//! Every case runs the real builder; the oracle is a reference model written from the
//! property, ZIP 317, ZIP 212 and the documented padding rules (see `c14/oracle.rs`).

mod drive;
mod observe;
mod oracle;
mod world;

use mc_core::{catch, Args, Run, Tier};
use serde::{Deserialize, Serialize};
use serde_json::{json, Value};
use std::collections::BTreeMap;
use std::sync::atomic::{AtomicU64, Ordering};
use std::sync::Mutex;

use drive::{drive, BuildErr, Built, Stop};
use world::{CANOPY, NU5, NU6_2, NU6_3, SAPLING, ZIP212_GRACE_END};

#[derive(Clone, Debug, Serialize, Deserialize, PartialEq, Eq, Hash, PartialOrd, Ord)]
pub struct Case {
    /// Target height.
    pub h: u32,
    /// Requested version: 0 = none, 2 = Sprout v2, 3..=6.
    pub ver: u8,
    /// 0 = `propose_version` before anything is added, 1 = after everything is added.
    pub ver_when: u8,
    /// [inputs, outputs] per pool.
    pub t: [u8; 2],
    pub s: [u8; 2],
    pub o: [u8; 2],
    pub i: [u8; 2],
    /// Orchard outputs: 0 = `add_orchard_output` (external address), 1 = `add_orchard_change_output`.
    pub o_kind: u8,
    /// [Orchard, Ironwood] padding: 0 = DEFAULT, 1 = UNPADDED.
    pub pad: [u8; 2],
    /// 0 = ZIP 317 standard, 1 = fixed non-standard fee.
    pub fee: u8,
    /// 0 = exact, 1 = one zatoshi short, 2 = one zatoshi over, 3 = over by the fee,
    /// 4 = exact for a fee that also counts a required bundle the version cannot carry.
    pub fund: u8,
    /// Memo alphabet base (output k of pool p gets memo kind (base + k + p) mod 3).
    pub memo: u8,
    /// 0 = anchors only for the pools used, 1 = anchors for all three shielded pools.
    pub anchors: u8,
    /// 0 = `mock_build` / `build` with mock Sapling provers, 1 = `build_for_pczt`,
    /// 2 = `DeferredPcztBuilder`, 3 = `build` with real Sapling and Orchard proofs.
    pub route: u8,
    /// Value alphabet: 0 = ordinary amounts, 1 = the requested inputs sum to MAX_MONEY.
    #[serde(default)]
    pub vals: u8,
    /// Kind of transparent input 0 / 1: 0 = P2PKH, 1 = P2SH 1-of-1 multisig, 2 = P2SH 2-of-3.
    #[serde(default)]
    pub tk: [u8; 2],
}

/// Padding alphabet in keys: D = DEFAULT, U = UNPADDED (Some(1)), Z = Some(0), T = Some(3);
/// lower case = the same with `bundle_required`.
const PAD_CHARS: [char; 8] = ['D', 'U', 'Z', 'T', 'd', 'u', 'z', 't'];

impl Case {
    pub fn key(&self) -> String {
        format!(
            "h{}/v{}{}/t{}-{}/s{}-{}/o{}-{}{}/i{}-{}/p{}{}/f{}/x{}/m{}/a{}/r{}{}{}",
            self.h,
            self.ver,
            if self.ver == 0 { "" } else if self.ver_when == 0 { "b" } else { "a" },
            self.t[0],
            self.t[1],
            self.s[0],
            self.s[1],
            self.o[0],
            self.o[1],
            if self.o_kind == 1 { "c" } else { "" },
            self.i[0],
            self.i[1],
            PAD_CHARS[self.pad[0] as usize % 8],
            PAD_CHARS[self.pad[1] as usize % 8],
            self.fee,
            self.fund,
            self.memo,
            self.anchors,
            self.route,
            if self.vals == 0 { "" } else { "/max" },
            if self.tk == [0, 0] { String::new() } else { format!("/k{}{}", self.tk[0], self.tk[1]) }
        )
    }
    fn n_in(&self) -> u8 {
        self.t[0] + self.s[0] + self.o[0] + self.i[0]
    }
    fn pools_used(&self) -> usize {
        [self.t, self.s, self.o, self.i].iter().filter(|p| **p != [0, 0]).count()
    }
}

fn stop_class(s: &Stop) -> String {
    match s {
        Stop::Add(which, e) => format!("add:{which}:{}", e.split(['(', ' ', '{']).next().unwrap_or("")),
        Stop::Propose(_) => "propose".into(),
        Stop::New(_) => "new".into(),
        Stop::Build(BuildErr::Insufficient(_)) => "build:InsufficientFunds".into(),
        Stop::Build(BuildErr::Change(_)) => "build:ChangeRequired".into(),
        Stop::Build(BuildErr::TargetIncompatible(_)) => "build:TargetIncompatible".into(),
        Stop::Build(BuildErr::Other(e)) => format!("build:{}", e.split([' ', '{']).next().unwrap_or("")),
    }
}

/// Outcome labels starting with this prefix are not verdicts but signs that the harness's
/// expectations and the code disagree in a way the property does not speak about.
const UNEXPECTED: &str = "UNEXPECTED";

fn check_built(c: &Case, r: &world::Request, built: Built) -> Result<String, String> {
    let pad_flag = |o: &observe::Obs| {
        let padded = o.s.as_ref().is_some_and(|p| p.n_spends > r.s_in.0.len() || p.n_outputs > r.s_out.len())
            || o.o.as_ref().is_some_and(|p| p.n_outputs > r.o_in.0.len().max(r.o_out.len()))
            || o.i.as_ref().is_some_and(|p| p.n_outputs > r.i_in.0.len().max(r.i_out.len()));
        if padded {
            ":padded"
        } else {
            ""
        }
    };
    match built {
        Built::Tx(tx) => {
            let o = observe::obs_txdata(&tx, r, c.h, true, observe::t_obs_authorized);
            oracle::check_obs(c, r, &o)?;
            oracle::check_signatures(&tx, r)?;
            Ok(format!("ok:tx:r{}:v{}{}{}", c.route, oracle::effective_version(c), pad_flag(&o), if r.t_in.is_empty() { "" } else { ":signed" }))
        }
        Built::Pczt(parts) => {
            let o = observe::obs_parts(&parts, c.h)?;
            oracle::check_obs(c, r, &o).map_err(|e| format!("PCZT parts: {e}"))?;
            let label = format!("ok:pczt:r{}:v{}{}", c.route, oracle::effective_version(c), pad_flag(&o));
            // hand the parts to the PCZT Creator and look at the partial transaction's effects
            match pczt::roles::creator::Creator::build_from_parts(*parts) {
                None => Ok(format!("{label}:creator-none")),
                Some(p) => match p.into_effects() {
                    Ok(d) => {
                        // the ciphertexts were already opened above: require them unchanged
                        // instead of decrypting a second time
                        let mut o2 = observe::obs_txdata(&d, r, c.h, false, observe::t_obs_effects);
                        for (name, a, b) in [("Sapling", &o.s, &mut o2.s), ("Orchard", &o.o, &mut o2.o), ("Ironwood", &o.i, &mut o2.i)] {
                            match (a, b) {
                                (Some(a), Some(b)) if a.out_fp == b.out_fp => b.dec = a.dec.clone(),
                                (None, None) => {}
                                _ => return Err(format!("PCZT effects after Creator: {name} outputs (commitments/ciphertexts) differ from the builder's parts")),
                            }
                        }
                        oracle::check_obs(c, r, &o2).map_err(|e| format!("PCZT effects after Creator: {e}"))?;
                        Ok(format!("{label}:effects"))
                    }
                    // "PCZT only supports v5 and v6 transaction data": a v4 partial transaction
                    // cannot be turned into effects, which is recorded, not judged
                    Err(e) if oracle::effective_version(c) < 5 => Ok(format!("{label}:effects-err:{}", format!("{e:?}").split(['(', ' ', '{']).next().unwrap_or(""))),
                    Err(e) => Err(format!("the partial transaction made from the builder's parts has no extractable effects: {e:?}")),
                },
            }
        }
    }
}

fn check_inner(c: &Case) -> Result<String, String> {
    let r = world::request(c);
    let invalid = oracle::invalid_reason(c);
    let refusal = oracle::documented_refusal(c);
    // > 0: change required, < 0: insufficient funds (relative to the reference fee)
    let diff: i128 = r.surplus - r.fee as i128;
    match drive(c, &r) {
        Err(stop) => {
            let cls = stop_class(&stop);
            if invalid.is_some() {
                return Ok(format!("reject:invalid:{cls}"));
            }
            match &stop {
                Stop::Build(BuildErr::Insufficient(d)) => {
                    if diff < 0 && *d as i128 == -diff {
                        Ok("reject:insufficient-exact".into())
                    } else {
                        Err(format!("builder reports InsufficientFunds({d}) but requested inputs - outputs - fee = {diff} (reference fee {} for the documented padded shape)", r.fee))
                    }
                }
                Stop::Build(BuildErr::Change(d)) => {
                    if diff > 0 && *d as i128 == diff {
                        Ok("reject:change-exact".into())
                    } else {
                        Err(format!("builder reports ChangeRequired({d}) but requested inputs - outputs - fee = {diff} (reference fee {} for the documented padded shape)", r.fee))
                    }
                }
                _ if refusal.is_some() => Ok(format!("reject:documented:{cls}")),
                _ => Ok(format!("{UNEXPECTED}-REJECT:{cls}:{stop:?}")),
            }
        }
        Ok(built) => {
            if let Some(why) = invalid {
                return Err(format!("builder emitted a result although {why} (requested version {}, height {})", c.ver, c.h));
            }
            let label = check_built(c, &r, built)?;
            if diff != 0 {
                // emitted and self-consistent with the fee rule, yet the reference padding model
                // called it unbalanced: the model, not the code, is off
                return Ok(format!("{UNEXPECTED}-ACCEPT:unbalanced-by-model:{label}"));
            }
            if refusal.is_some() {
                return Ok(format!("{UNEXPECTED}-ACCEPT:documented-refusal:{label}"));
            }
            Ok(label)
        }
    }
}

/// Decide one case: Ok(outcome label) or Err(violation message). Panics are violations.
pub fn check_case(c: &Case) -> Result<String, String> {
    match catch(|| check_inner(c)) {
        Ok(r) => r,
        Err(p) => Err(format!("panic: {p}")),
    }
}

pub fn replay(kind: &str, case: &Value) -> Result<(), String> {
    match kind {
        "case" => {
            let c: Case = serde_json::from_value(case.clone()).map_err(|e| format!("bad case: {e}"))?;
            check_case(&c).map(|_| ())
        }
        _ => Err(format!("unknown kind {kind}")),
    }
}

// ---- enumeration -------------------------------------------------------------------------------

pub const HEIGHTS: &[u32] = &[SAPLING - 1, CANOPY - 1, CANOPY, ZIP212_GRACE_END - 1, ZIP212_GRACE_END, NU5 - 1, NU5, NU6_2 - 1, NU6_2, NU6_3 - 1, NU6_3];

fn pairs() -> Vec<[u8; 2]> {
    let mut v = Vec::new();
    for a in 0..=2u8 {
        for b in 0..=2u8 {
            v.push([a, b]);
        }
    }
    v
}

/// All shapes over the pools available at `h` with at most `max_pools` non-empty pools.
fn shapes(h: u32, max_pools: usize) -> Vec<[[u8; 2]; 4]> {
    let avail = [true, h >= SAPLING, h >= NU5, h >= NU6_3];
    let dom = |k: usize| if avail[k] { pairs() } else { vec![[0, 0]] };
    let mut v = Vec::new();
    for t in dom(0) {
        for s in dom(1) {
            for o in dom(2) {
                for i in dom(3) {
                    let sh = [t, s, o, i];
                    if sh.iter().filter(|p| **p != [0, 0]).count() <= max_pools {
                        v.push(sh);
                    }
                }
            }
        }
    }
    v
}

fn base(h: u32, sh: [[u8; 2]; 4]) -> Case {
    Case { h, ver: 0, ver_when: 0, t: sh[0], s: sh[1], o: sh[2], i: sh[3], o_kind: 0, pad: [0, 0], fee: 0, fund: 0, memo: 0, anchors: 1, route: 0, vals: 0, tk: [0, 0] }
}

fn routes(c: &Case) -> Vec<u8> {
    if c.o == [0, 0] && c.i == [0, 0] {
        vec![0, 1]
    } else if c.t == [0, 0] && c.s == [0, 0] && c.h >= NU6_3 {
        vec![1, 2]
    } else {
        vec![1]
    }
}

fn o_kinds(c: &Case) -> Vec<u8> {
    if c.o[1] == 0 {
        vec![0]
    } else if c.h >= NU6_3 {
        vec![1]
    } else {
        vec![0, 1]
    }
}

fn pads(c: &Case) -> Vec<[u8; 2]> {
    let po: &[u8] = if c.o != [0, 0] { &[0, 1] } else { &[0] };
    let pi: &[u8] = if c.i != [0, 0] { &[0, 1] } else { &[0] };
    let mut v = Vec::new();
    for a in po {
        for b in pi {
            v.push([*a, *b]);
        }
    }
    v
}

/// Heights at which the full shape set of the tier is run; at the other ("far side of the
/// boundary, same epoch behaviour as a primary height") heights the quick tier runs the shapes
/// with at most one non-empty pool.
pub const PRIMARY: &[u32] = &[SAPLING - 1, CANOPY, ZIP212_GRACE_END, NU6_2, NU6_3];

/// G1: shape x Orchard output kind x padding x route x fee rule x funding (x memo x anchors).
///
/// "Rich" shapes (quick: <= 1 non-empty pool, thorough: <= 2) get both fee rules and, under the
/// ZIP 317 rule, the memo alphabet and both anchor configurations; the other shapes get the
/// ZIP 317 rule, memo base 0 and all anchors. Unbalanced funding is added for every combination
/// with at least one input (shapes that are not rich: DEFAULT padding only).
fn group_shapes(tier: Tier, out: &mut Vec<Case>) {
    for &h in HEIGHTS {
        let max_pools = match tier {
            Tier::Quick => {
                if PRIMARY.contains(&h) {
                    2
                } else {
                    1
                }
            }
            Tier::Thorough => 4,
        };
        for sh in shapes(h, max_pools) {
            let b0 = base(h, sh);
            let np = b0.pools_used();
            let rich = np <= tier.pick(1, 2);
            let has_shielded_out = b0.s[1] + b0.o[1] + b0.i[1] > 0;
            for o_kind in o_kinds(&b0) {
                for pad in pads(&b0) {
                    for route in routes(&b0) {
                        let fees: &[u8] = if rich { &[0, 1] } else { &[0] };
                        for &fee in fees {
                            let b = Case { o_kind, pad, fee, route, ..b0.clone() };
                            out.push(b.clone());
                            if rich && fee == 0 {
                                if has_shielded_out {
                                    out.push(Case { memo: 1, ..b.clone() });
                                    out.push(Case { memo: 2, ..b.clone() });
                                }
                                if route != 2 {
                                    out.push(Case { anchors: 0, ..b.clone() });
                                }
                            }
                            if b.n_in() > 0 && (rich || pad == [0, 0]) {
                                for fund in [1u8, 2, 3] {
                                    out.push(Case { fund, ..b.clone() });
                                }
                            }
                        }
                    }
                }
            }
        }
    }
}

/// G2: requested versions (each version, proposed before or after the parts are added), over
/// shapes that range over ALL four pools (also the ones the height or version does not have).
fn group_versions(tier: Tier, out: &mut Vec<Case>) {
    let mut shs: Vec<[[u8; 2]; 4]> = shapes(NU6_3, tier.pick(1, 2));
    if tier == Tier::Quick {
        // pairs of pools, one spend and one output each
        for a in 0..4 {
            for b in a + 1..4 {
                let mut sh = [[0u8, 0]; 4];
                sh[a] = [1, 1];
                sh[b] = [1, 1];
                shs.push(sh);
            }
        }
    }
    for &h in HEIGHTS {
        for sh in &shs {
            // away from the primary heights: quick nothing, thorough at most one non-empty pool
            let np = sh.iter().filter(|p| **p != [0, 0]).count();
            if !PRIMARY.contains(&h) && (tier == Tier::Quick || np > 1) {
                continue;
            }
            for ver in [2u8, 3, 4, 5, 6] {
                for ver_when in [0u8, 1] {
                    let b0 = Case { ver, ver_when, ..base(h, *sh) };
                    let valid = oracle::invalid_reason(&b0).is_none();
                    for o_kind in o_kinds(&b0) {
                        // both entry points (build, build_for_pczt) have their own version check
                        let rs: Vec<u8> = if valid { routes(&b0).into_iter().filter(|r| *r != 2).collect() } else { vec![0, 1] };
                        for route in rs {
                            out.push(Case { o_kind, route, ..b0.clone() });
                        }
                    }
                }
            }
        }
    }
}

/// G3: pools requested at heights that do not have them, documented refusals.
fn group_probes(out: &mut Vec<Case>) {
    for &h in HEIGHTS {
        for (k, avail) in [(1usize, h >= SAPLING), (2, h >= NU5), (3, h >= NU6_3)] {
            if avail {
                continue;
            }
            for p in [[1u8, 0], [0, 1], [1, 1]] {
                let mut sh = [[1u8, 1], [0, 0], [0, 0], [0, 0]];
                sh[k] = p;
                for route in [0u8, 1] {
                    for anchors in [0u8, 1] {
                        out.push(Case { route, anchors, ..base(h, sh) });
                    }
                }
            }
        }
        // the deferred-anchor builder before NU6.3
        if h < NU6_3 && h >= NU5 {
            out.push(Case { route: 2, ..base(h, [[0, 0], [0, 0], [1, 1], [0, 0]]) });
        }
    }
    // plain Orchard outputs where cross-address transfers are disabled
    for o in [[0u8, 1], [1, 1], [0, 2], [2, 2]] {
        for route in [1u8, 2] {
            let t = if route == 2 { [0, 0] } else { [1, 1] };
            out.push(Case { route, o_kind: 0, ..base(NU6_3, [t, [0, 0], o, [0, 0]]) });
        }
    }
}

/// G5: amounts at the top of the range (the requested inputs sum to MAX_MONEY): one or two
/// inputs/outputs in one pool, and one spend + one output in each pair of pools, at the three
/// heights with distinct pool sets, every route, both fee rules, funding exact / -1 / +1.
fn group_big_values(out: &mut Vec<Case>) {
    for h in [ZIP212_GRACE_END, NU6_2, NU6_3] {
        let avail = [true, true, h >= NU5, h >= NU6_3];
        let mut shs: Vec<[[u8; 2]; 4]> = Vec::new();
        for a in 0..4 {
            for p in [[1u8, 1], [2, 1], [2, 2]] {
                let mut sh = [[0u8, 0]; 4];
                sh[a] = p;
                shs.push(sh);
            }
            for b in 0..4 {
                if a != b {
                    // a pays b
                    let mut sh = [[0u8, 0]; 4];
                    sh[a] = [1, 0];
                    sh[b] = [0, 1];
                    shs.push(sh);
                }
            }
        }
        for sh in shs {
            if (0..4).any(|k| sh[k] != [0, 0] && !avail[k]) {
                continue;
            }
            let b0 = Case { vals: 1, ..base(h, sh) };
            for o_kind in o_kinds(&b0) {
                for route in routes(&b0) {
                    for fee in [0u8, 1] {
                        for fund in [0u8, 1, 2] {
                            out.push(Case { o_kind, route, fee, fund, ..b0.clone() });
                        }
                    }
                }
            }
        }
    }
}

/// G6: every field combination of `BundlePadding` (bundle_required x pad_to_minimum in
/// {None, Some(1), Some(0), Some(3)}) for both Orchard-family pools, each pool used (one spend,
/// one output) / unused but anchored / unused and unanchored (there: DEFAULT and required-DEFAULT
/// only), on each side of NU6.3, funded transparently (1 in, 1 out) through build_for_pczt, and
/// through mock_build where the reference model expects no Orchard-family bundle; the
/// deferred-anchor builder (no anchors to configure) with each pool used / unused. Fee rules
/// {ZIP 317, fixed} with exact funding, ZIP 317 with -1 / +1. Plus the same required-but-unused
/// bundles under an explicitly requested version that cannot carry them.
fn group_padding_fields(out: &mut Vec<Case>, slow: &mut Vec<Case>, tier: Tier) {
    let variants = |b: &Case, out: &mut Vec<Case>| {
        out.push(b.clone());
        out.push(Case { fee: 1, ..b.clone() });
        if b.n_in() > 0 {
            out.push(Case { fund: 1, ..b.clone() });
            out.push(Case { fund: 2, ..b.clone() });
        }
    };
    for h in [NU6_3 - 1, NU6_3] {
        // (used, anchored) per pool
        let states = [(true, true), (false, true), (false, false)];
        for (o_used, o_anch) in states {
            for (i_used, i_anch) in states {
                if i_used && h < NU6_3 {
                    continue; // no Ironwood pool yet: covered by the G3 probes
                }
                let anchors = match (o_anch && !o_used, i_anch && !i_used) {
                    (true, true) => 1,
                    (true, false) => 2,
                    (false, true) => 3,
                    (false, false) => 0,
                };
                let pads_of = |anch: bool| -> Vec<u8> { if anch { (0..8).collect() } else { vec![0, 4] } };
                for po in pads_of(o_anch) {
                    for pi in pads_of(i_anch) {
                        let sh = [[1, 1], [0, 0], if o_used { [1, 1] } else { [0, 0] }, if i_used { [1, 1] } else { [0, 0] }];
                        let b = Case { pad: [po, pi], anchors, o_kind: u8::from(o_used && h >= NU6_3), route: 1, ..base(h, sh) };
                        variants(&b, out);
                        let (_, _, orc, iron) = world::predicted_shape(&b);
                        if orc + iron == 0 {
                            variants(&Case { route: 0, ..b.clone() }, out);
                        }
                    }
                }
            }
        }
    }
    // deferred-anchor builder
    for o_used in [true, false] {
        for i_used in [true, false] {
            for po in 0..8u8 {
                for pi in 0..8u8 {
                    let sh = [[0, 0], [0, 0], if o_used { [1, 1] } else { [0, 0] }, if i_used { [1, 1] } else { [0, 0] }];
                    variants(&Case { pad: [po, pi], o_kind: u8::from(o_used), route: 2, ..base(NU6_3, sh) }, out);
                }
            }
        }
    }
    // a required but unused bundle together with a requested version that cannot carry it
    for (ver, pad, anchors) in [(4u8, [4u8, 0u8], 2u8), (4, [0, 4], 3), (5, [0, 4], 3), (5, [4, 0], 2), (4, [5, 5], 1), (5, [6, 6], 1)] {
        for ver_when in [0u8, 1] {
            for route in [1u8, 0] {
                let b = Case { ver, ver_when, pad, anchors, route, ..base(NU6_3, [[1, 1], [0, 0], [0, 0], [0, 0]]) };
                let (_, _, orc, iron) = world::predicted_shape(&b);
                // route 0 with an expected Orchard bundle needs a real proof
                if route == 0 && orc + iron > 0 {
                    slow.push(b);
                } else {
                    variants(&b, out);
                    // funded exactly for a fee that counts the bundle the version cannot carry
                    out.push(Case { fund: 4, ..b.clone() });
                }
            }
        }
    }
    // required bundles through `build` (mock Sapling provers, real Orchard-family proofs)
    let t11 = [[1u8, 1], [0, 0], [0, 0], [0, 0]];
    slow.push(Case { pad: [0, 4], anchors: 3, route: 0, ..base(NU6_3, t11) });
    slow.push(Case { pad: [4, 0], anchors: 2, route: 0, ..base(NU6_3, t11) });
    if tier == Tier::Thorough {
        slow.push(Case { pad: [5, 6], anchors: 1, route: 0, ..base(NU6_3, t11) });
        slow.push(Case { pad: [7, 0], anchors: 2, route: 0, fee: 1, ..base(NU6_3, t11) });
        slow.push(Case { pad: [4, 0], anchors: 2, route: 0, ..base(NU6_3 - 1, t11) });
        slow.push(Case { pad: [6, 4], anchors: 1, route: 0, ..base(NU6_3 - 1, t11) });
        slow.push(Case { pad: [4, 4], anchors: 0, route: 0, o_kind: 1, ..base(NU6_3, [[1, 1], [0, 0], [1, 1], [1, 1]]) });
    }
}

/// G7: transparent input kinds {P2PKH, P2SH 1-of-1 multisig, P2SH 2-of-3 multisig} in input
/// positions 0 and 1 (one or two inputs, every combination), 0..2 transparent outputs, with and
/// without a Sapling output, at Canopy (v4 signature hash), NU5 (v5) and NU6.3 (v6), through
/// mock_build/build and build_for_pczt, both fee rules, funding exact / -1 / +1, and with the
/// older versions requested explicitly where they are valid.
fn group_transparent_kinds(out: &mut Vec<Case>) {
    for h in [CANOPY, NU5, NU6_3] {
        for n_in in [1u8, 2] {
            for k0 in 0..3u8 {
                for k1 in 0..(if n_in == 2 { 3u8 } else { 1 }) {
                    for t_out in 0..=2u8 {
                        for s in [[0u8, 0], [0, 1]] {
                            let b0 = Case { tk: [k0, k1], anchors: 0, ..base(h, [[n_in, t_out], s, [0, 0], [0, 0]]) };
                            for route in [0u8, 1] {
                                let b = Case { route, ..b0.clone() };
                                out.push(b.clone());
                                out.push(Case { fee: 1, ..b.clone() });
                                out.push(Case { fund: 1, ..b.clone() });
                                out.push(Case { fund: 2, ..b.clone() });
                            }
                            for ver in [4u8, 5] {
                                if ver < oracle::default_version(h) && oracle::version_valid(ver, h) {
                                    out.push(Case { ver, ver_when: 1, ..b0.clone() });
                                }
                            }
                        }
                    }
                }
            }
        }
    }
}

/// G4 (thorough): a handful of shapes through `build` with real Sapling and Orchard proofs.
fn group_real_proofs(out: &mut Vec<Case>) {
    let mk = |h: u32, sh: [[u8; 2]; 4], o_kind: u8, pad: [u8; 2], fee: u8| Case { route: 3, o_kind, pad, fee, memo: 1, ..base(h, sh) };
    out.push(mk(NU6_3, [[1, 1], [1, 1], [1, 1], [1, 1]], 1, [0, 0], 0));
    out.push(mk(NU6_3, [[0, 1], [0, 0], [1, 0], [1, 1]], 0, [1, 1], 0));
    out.push(mk(NU6_2, [[1, 0], [0, 0], [0, 1], [0, 0]], 0, [0, 0], 1));
    out.push(mk(NU5, [[0, 0], [0, 0], [1, 2], [0, 0]], 0, [0, 0], 0));
    out.push(mk(NU5 - 1, [[1, 1], [1, 1], [0, 0], [0, 0]], 0, [0, 0], 0));
    out.push(mk(NU6_3, [[2, 0], [0, 0], [0, 0], [0, 2]], 0, [0, 0], 0));
}

/// The enumerated space in execution stages (a wall-clock cap can only cut a later stage).
fn stages(tier: Tier) -> Vec<(String, Vec<Case>)> {
    let mut seen = std::collections::BTreeSet::new();
    let mut dedup = |v: Vec<Case>| -> Vec<Case> { v.into_iter().filter(|c| seen.insert(c.clone())).collect() };
    let mut st = Vec::new();
    let mut v = Vec::new();
    group_probes(&mut v);
    st.push(("G3 probes".to_string(), dedup(v)));
    let mut v = Vec::new();
    group_big_values(&mut v);
    st.push(("G5 amounts up to MAX_MONEY".to_string(), dedup(v)));
    let mut v = Vec::new();
    group_transparent_kinds(&mut v);
    st.push(("G7 transparent input kinds".to_string(), dedup(v)));
    let mut v = Vec::new();
    let mut slow = Vec::new();
    group_padding_fields(&mut v, &mut slow, tier);
    st.push(("G6 BundlePadding fields".to_string(), dedup(v)));
    st.insert(0, ("SLOW G6 required bundles through build (real Orchard-family proofs)".to_string(), dedup(slow)));
    let mut v = Vec::new();
    group_versions(tier, &mut v);
    st.push(("G2 versions".to_string(), dedup(v)));
    let mut v = Vec::new();
    group_shapes(tier, &mut v);
    let v = dedup(v);
    for np in 0..=4usize {
        let part: Vec<Case> = v.iter().filter(|c| c.pools_used() == np).cloned().collect();
        if !part.is_empty() {
            st.push((format!("G1 shapes with {np} non-empty pools"), part));
        }
    }
    if tier == Tier::Thorough {
        let mut v = Vec::new();
        group_real_proofs(&mut v);
        // first: the proving keys take long to build, start them early (own stage, own threads)
        st.insert(0, ("SLOW G4 real proofs".to_string(), dedup(v)));
    }
    st
}

/// Run `f` on every item from `threads` plain OS threads (dynamic scheduling, item order).
fn par_for_each<T: Sync>(items: &[T], threads: usize, f: impl Fn(&T) + Sync) {
    let next = std::sync::atomic::AtomicUsize::new(0);
    std::thread::scope(|s| {
        for _ in 0..threads.min(items.len()).max(1) {
            std::thread::Builder::new()
                .stack_size(16 << 20)
                .spawn_scoped(s, || loop {
                    let i = next.fetch_add(1, Ordering::Relaxed);
                    if i >= items.len() {
                        break;
                    }
                    f(&items[i]);
                })
                .expect("spawn worker");
        }
    });
}

pub fn run(args: &Args) -> i32 {
    let run = Run::new(args, "exploration");
    run.set_rule(
        "every case is one run of the real builder. G1 = shapes (transparent/Sapling/Orchard/Ironwood inputs x outputs, each count in {0,1,2}, only pools the \
         height has; thorough: all shapes at all 11 heights; quick: <= 2 non-empty pools at the 5 primary heights, <= 1 at the 6 others) x Orchard output kind \
         {plain, change} x padding {DEFAULT,UNPADDED} per used Orchard-family pool x route {mock_build/build with mock Sapling provers, build_for_pczt + PCZT \
         Creator, deferred-anchor PCZT builder} x fee rule {ZIP 317; fixed 1234 for rich shapes} x funding {exact, -1, +1, +fee; shapes that are not rich: unbalanced only with DEFAULT padding} \
         (+ memo base {1,2} and anchors {used pools only} for rich shapes under ZIP 317; rich = <= 1 non-empty pool (quick) / <= 2 (thorough)); G2 = requested \
         version {Sprout v2, v3, v4, v5, v6} x {proposed before, after adding} x shapes over all four pools (quick: <= 1 non-empty pool + pool pairs at the \
         primary heights; thorough: <= 2 at the primary heights, <= 1 at the others); G3 = pools \
         requested at heights without them, plain Orchard outputs at NU6.3, deferred builder before NU6.3; G4 (thorough) = 6 shapes with real Sapling/Orchard \
         proofs; G5 = inputs summing to MAX_MONEY for 1-pool shapes (1,1),(2,1),(2,2) and every ordered pair of pools (one spend pays one output) at 3 heights x \
         routes x fee rules x funding {exact,-1,+1}. 11 heights: each side of Sapling, Canopy, end of the ZIP 212 grace period, NU5, NU6.2, NU6.3. A case is distinct by its full parameter tuple.",
    );
    run.assume("padding reference model from the documentation: Sapling bundles hold >=1 spend and >=2 outputs when used; Orchard-family bundles hold max(spends,outputs) actions (spends+outputs where cross-address transfers are disabled: Orchard pool from NU6.3), padded to 2 (DEFAULT) or 1 (UNPADDED)");
    run.assume("ZIP 317 fee of the built shape: 5000 x max(2, max(ceil(tx_in bytes/150), ceil(tx_out bytes/34)) + max(Sapling spends, Sapling outputs) + Orchard actions + Ironwood actions); an unsigned P2PKH input counts 149 bytes");
    run.assume("signature hashes are computed with zcash_primitives::transaction::sighash::signature_hash (its correctness is C04's subject) over the built transaction, with the script and value of the REQUESTED coin");
    run.assume("a refusal other than InsufficientFunds/ChangeRequired for a valid balanced request is not a violation of C14 (the property only says when the builder must fail); such refusals outside the documented ones (plain Orchard output at NU6.3, Sapling PCZT before ZIP 212 enforcement) fail the run as a machinery error instead");
    run.assume("Sapling outputs are trial-decrypted with ZIP 212 enforcement On from Canopy activation and Off before; spent Sapling notes use post-ZIP-212 rseeds at every height");
    run.assume("target heights before Overwinter are outside the domain (signature hashing for pre-Overwinter transactions is documented as unsupported); transparent inputs are P2PKH");
    run.assume("PCZT results: the builder's parts are checked directly, then handed to the PCZT Creator and the partial transaction's effects (Pczt::into_effects) are checked again with unchanged output ciphertexts; signing a PCZT is C13's subject");

    let mut stages = stages(args.tier);
    let mut partial = false;
    if let Ok(only) = std::env::var("C14_ONLY_STAGE") {
        partial = true;
        // debugging aid: run only the stages whose name contains the given text
        stages.retain(|(n, _)| n.contains(&only));
        run.cap_hit(&format!("C14_ONLY_STAGE={only}: other stages not executed"));
    }
    let total: usize = stages.iter().map(|(_, v)| v.len()).sum();
    run.section("stages", json!(stages.iter().map(|(n, v)| json!({"stage": n, "cases": v.len()})).collect::<Vec<_>>()));
    run.section("heights", json!(HEIGHTS));
    run.section("primary_heights", json!(PRIMARY));
    run.section("distinct_cases_enumerated", json!(total));

    world::world();
    // C14_CAP_S: debugging aid to lift the wall-clock cap on a loaded machine
    let cap_s = std::env::var("C14_CAP_S").ok().and_then(|s| s.parse::<f64>().ok()).unwrap_or(args.tier.pick(50.0, 570.0));
    let done = AtomicU64::new(0);
    let unexpected: Mutex<Vec<String>> = Mutex::new(Vec::new());
    let per_height: Mutex<BTreeMap<u32, [u64; 2]>> = Mutex::new(BTreeMap::new());
    let mut capped = false;
    let mut stage_report = Vec::new();
    let process = |c: &Case, skipped: &AtomicU64| {
        if run.elapsed() > cap_s {
            skipped.fetch_add(1, Ordering::Relaxed);
            return;
        }
        let res = check_case(c);
        done.fetch_add(1, Ordering::Relaxed);
        match res {
            Ok(label) => {
                {
                    let mut g = per_height.lock().unwrap();
                    let e = g.entry(c.h).or_insert([0, 0]);
                    e[usize::from(!label.starts_with("ok:"))] += 1;
                }
                if label.starts_with(UNEXPECTED) {
                    let mut g = unexpected.lock().unwrap();
                    if g.len() < 20 {
                        g.push(format!("{} -> {}", c.key(), label));
                    }
                    run.outcome(label.splitn(4, ':').take(3).collect::<Vec<_>>().join(":").as_str());
                } else {
                    run.outcome(&label);
                }
                if label.starts_with("ok:") && c.pools_used() >= 2 && c.fund == 0 {
                    run.sample(json!({"case": c.key(), "outcome": label}));
                }
            }
            Err(msg) => run.fail("case", c.key(), msg, serde_json::to_value(c).unwrap()),
        }
    };
    // The real-proof stage runs on a plain thread next to the others: the Sapling prover
    // (bellman) refuses to run inside a rayon pool.
    let real: Vec<Case> = stages.iter().filter(|(n, _)| n.starts_with("SLOW")).flat_map(|(_, v)| v.iter().cloned()).collect();
    // Cases run on plain worker threads, not inside a rayon pool: the provers use rayon (and a
    // process-wide lazily built proving key) themselves, and a pool thread that waits for the key
    // while stealing another case that needs the same key would deadlock.
    let n_threads = std::thread::available_parallelism().map_or(8, |n| n.get());
    let real_skipped = AtomicU64::new(0);
    let real_wall = Mutex::new(0.0f64);
    std::thread::scope(|sc| {
        let h = std::thread::Builder::new().stack_size(16 << 20).spawn_scoped(sc, || {
            for c in &real {
                process(c, &real_skipped);
            }
            *real_wall.lock().unwrap() = run.elapsed();
        }).expect("spawn real-proof thread");
        for (name, cases) in stages.iter().filter(|(n, _)| !n.starts_with("SLOW")) {
            let skipped = AtomicU64::new(0);
            let t0 = run.elapsed();
            par_for_each(cases, n_threads, |c| process(c, &skipped));
            let sk = skipped.load(Ordering::Relaxed);
            stage_report.push(json!({"stage": name, "cases": cases.len(), "not_executed": sk, "wall_s": run.elapsed() - t0}));
            if sk > 0 {
                capped = true;
                run.cap_hit(&format!("wall cap {cap_s}s hit in stage '{name}': {sk} of its {} cases not executed (earlier stages complete)", cases.len()));
            }
        }
        h.join().expect("real-proof thread");
    });
    if !real.is_empty() {
        let sk = real_skipped.load(Ordering::Relaxed);
        stage_report.push(json!({"stage": "SLOW stages: real proofs (own thread, concurrent)", "cases": real.len(), "not_executed": sk, "finished_at_s": *real_wall.lock().unwrap()}));
        if sk > 0 {
            capped = true;
            run.cap_hit(&format!("wall cap {cap_s}s: {sk} of {} real-proof cases not executed", real.len()));
        }
    }
    run.eval_distinct(done.load(Ordering::Relaxed));
    run.section("stage_report", json!(stage_report));
    run.section("per_height_built_vs_refused", json!(per_height.lock().unwrap().iter().map(|(h, v)| (h.to_string(), json!({"built": v[0], "refused": v[1]}))).collect::<BTreeMap<_, _>>()));
    let unexpected = unexpected.into_inner().unwrap();
    run.section("unexpected", json!(unexpected));
    let failed = run.failure_count() > 0;
    run.require(unexpected.is_empty() || failed, &format!("the builder's refusals/acceptances disagree with the reference expectations: {unexpected:?}"));
    run.require(run.outcomes_distinct() >= 12 || failed || partial, "fewer than 12 distinct outcome classes");
    {
        let g = per_height.lock().unwrap();
        run.require(failed || capped || partial || HEIGHTS.iter().all(|h| g.get(h).is_some_and(|v| v[0] > 0 && v[1] > 0)), "some height saw no built result or no refusal");
    }
    run.finish(&replay)
}
