//! Reference transaction identifier, computed from the *fields of the PCZT encoding* (the tree of
//! `v2::Pczt`) rather than through `extract_tx_data`.
//!
//! Written from ZIP 244 (v5) and from the documentation of the v6 digests in this repository
//! (`zcash_primitives::transaction::txid` doc comments and the `orchard` crate's
//! `bundle::commitments` documentation: v6 drops the anchors from the txid digests, uses
//! `ZTxIdSSpendNH_v6`, `ZTxIdOrchardH_v6` and the Ironwood personalisations, and appends the
//! Ironwood digest). Lock time follows BIP 370 as quoted in `pczt::common::determine_lock_time`.

use super::tree::T;
use blake2b_simd::Params;

fn h(personal: &[u8; 16], data: &[u8]) -> [u8; 32] {
    let d = Params::new().hash_length(32).personal(personal).hash(data);
    d.as_bytes().try_into().expect("32 bytes")
}

fn compact_size(n: usize, out: &mut Vec<u8>) {
    if n < 253 {
        out.push(n as u8);
    } else if n <= 0xffff {
        out.push(253);
        out.extend_from_slice(&(n as u16).to_le_bytes());
    } else {
        out.push(254);
        out.extend_from_slice(&(n as u32).to_le_bytes());
    }
}

fn fld<'a>(t: &'a T, name: &str) -> Result<&'a T, String> {
    t.field(name).ok_or_else(|| format!("no field {name}"))
}
fn bytes(t: &T, name: &str) -> Result<Vec<u8>, String> {
    fld(t, name)?.bytes().ok_or_else(|| format!("{name}: not bytes"))
}
fn opt_bytes(t: &T, name: &str) -> Result<Vec<u8>, String> {
    fld(t, name)?.some().ok_or_else(|| format!("{name} is absent"))?.bytes().ok_or_else(|| format!("{name}: not bytes"))
}
fn num(t: &T, name: &str) -> Result<u64, String> {
    fld(t, name)?.as_u64().ok_or_else(|| format!("{name}: not a number"))
}
fn opt_num(t: &T, name: &str) -> Result<Option<u64>, String> {
    match fld(t, name)? {
        T::None => Ok(None),
        T::Some(x) => x.as_u64().map(Some).ok_or_else(|| format!("{name}: not a number")),
        _ => Err(format!("{name}: not an option")),
    }
}

fn lock_time(global: &T, inputs: &[T]) -> Result<u32, String> {
    let mut times = vec![];
    let mut heights = vec![];
    for i in inputs {
        if let Some(t) = opt_num(i, "required_time_lock_time")? {
            times.push(t as u32);
        }
        if let Some(t) = opt_num(i, "required_height_lock_time")? {
            heights.push(t as u32);
        }
    }
    // BIP 370: the field chosen is the one supported by all inputs that specify a lock time; an
    // input that specifies both supports both; if both kinds remain possible the height is chosen.
    let only = |i: &T, has: &str, lacks: &str| matches!(opt_num(i, has), Ok(Some(_))) && matches!(opt_num(i, lacks), Ok(None));
    let height_ok = !inputs.iter().any(|i| only(i, "required_time_lock_time", "required_height_lock_time"));
    let time_ok = !inputs.iter().any(|i| only(i, "required_height_lock_time", "required_time_lock_time"));
    if times.is_empty() && heights.is_empty() {
        return Ok(opt_num(global, "fallback_lock_time")?.unwrap_or(0) as u32);
    }
    if height_ok {
        return heights.iter().copied().max().ok_or_else(|| "no height lock time".to_string());
    }
    if time_ok {
        return times.iter().copied().max().ok_or_else(|| "no time lock time".to_string());
    }
    Err("incompatible lock times".into())
}

fn enc_ciphertext(output: &T) -> Result<Vec<u8>, String> {
    match fld(output, "enc_ciphertext")? {
        T::Variant(0, _, x) => x.bytes().ok_or_else(|| "enc_ciphertext: not bytes".to_string()),
        T::Variant(_, _, _) => Err("enc_ciphertext is carried as memo plaintext".into()),
        // Sapling: a plain byte vector
        x => x.bytes().ok_or_else(|| "enc_ciphertext: not bytes".to_string()),
    }
}

struct OrchardPersonal {
    bundle: &'static [u8; 16],
    compact: &'static [u8; 16],
    memos: &'static [u8; 16],
    noncompact: &'static [u8; 16],
    anchor: bool,
}

fn orchard_digest(bundle: Option<&T>, p: &OrchardPersonal) -> Result<[u8; 32], String> {
    let Some(b) = bundle else { return Ok(h(p.bundle, &[])) };
    let actions = fld(b, "actions")?.items();
    if actions.is_empty() {
        return Ok(h(p.bundle, &[]));
    }
    let (mut c, mut m, mut n) = (vec![], vec![], vec![]);
    for a in actions {
        let spend = fld(a, "spend")?;
        let output = fld(a, "output")?;
        let enc = enc_ciphertext(output)?;
        if enc.len() < 564 {
            return Err("enc_ciphertext too short".into());
        }
        c.extend(opt_bytes(spend, "nullifier")?);
        c.extend(opt_bytes(output, "cmx")?);
        c.extend(bytes(output, "ephemeral_key")?);
        c.extend(&enc[..52]);
        m.extend(&enc[52..564]);
        n.extend(opt_bytes(a, "cv_net")?);
        n.extend(opt_bytes(spend, "rk")?);
        n.extend(&enc[564..]);
        n.extend(bytes(output, "out_ciphertext")?);
    }
    let mut d = vec![];
    d.extend(h(p.compact, &c));
    d.extend(h(p.memos, &m));
    d.extend(h(p.noncompact, &n));
    d.push(num(b, "flags")? as u8);
    let vs = fld(b, "value_sum")?.items();
    let (mag, neg) = match vs {
        [mag, T::Bool(neg)] => (mag.as_u64().ok_or("value_sum magnitude")?, *neg),
        _ => return Err("value_sum: unexpected shape".into()),
    };
    let vb: i64 = if neg { -(mag as i128) as i64 } else { mag as i64 };
    d.extend(vb.to_le_bytes());
    if p.anchor {
        d.extend(opt_bytes(b, "anchor")?);
    }
    Ok(h(p.bundle, &d))
}

fn sapling_digest(bundle: Option<&T>, v6: bool) -> Result<[u8; 32], String> {
    let Some(b) = bundle else { return Ok(h(b"ZTxIdSaplingHash", &[])) };
    let spends = fld(b, "spends")?.items();
    let outputs = fld(b, "outputs")?.items();
    if spends.is_empty() && outputs.is_empty() {
        return Ok(h(b"ZTxIdSaplingHash", &[]));
    }
    let spends_digest = if spends.is_empty() {
        h(b"ZTxIdSSpendsHash", &[])
    } else {
        let (mut c, mut n) = (vec![], vec![]);
        for s in spends {
            c.extend(bytes(s, "nullifier")?);
            n.extend(bytes(s, "cv")?);
            if !v6 {
                n.extend(opt_bytes(b, "anchor")?);
            }
            n.extend(bytes(s, "rk")?);
        }
        let mut d = vec![];
        d.extend(h(b"ZTxIdSSpendCHash", &c));
        d.extend(h(if v6 { b"ZTxIdSSpendNH_v6" } else { b"ZTxIdSSpendNHash" }, &n));
        h(b"ZTxIdSSpendsHash", &d)
    };
    let outputs_digest = if outputs.is_empty() {
        h(b"ZTxIdSOutputHash", &[])
    } else {
        let (mut c, mut m, mut n) = (vec![], vec![], vec![]);
        for o in outputs {
            let enc = enc_ciphertext(o)?;
            if enc.len() < 564 {
                return Err("sapling enc_ciphertext too short".into());
            }
            c.extend(bytes(o, "cmu")?);
            c.extend(bytes(o, "ephemeral_key")?);
            c.extend(&enc[..52]);
            m.extend(&enc[52..564]);
            n.extend(bytes(o, "cv")?);
            n.extend(&enc[564..]);
            n.extend(bytes(o, "out_ciphertext")?);
        }
        let mut d = vec![];
        d.extend(h(b"ZTxIdSOutC__Hash", &c));
        d.extend(h(b"ZTxIdSOutM__Hash", &m));
        d.extend(h(b"ZTxIdSOutN__Hash", &n));
        h(b"ZTxIdSOutputHash", &d)
    };
    let vb = match fld(b, "value_sum")? {
        T::I128(v) => i64::try_from(*v).map_err(|_| "sapling value_sum out of range".to_string())?,
        _ => return Err("sapling value_sum: unexpected shape".into()),
    };
    let mut d = vec![];
    d.extend(spends_digest);
    d.extend(outputs_digest);
    d.extend(vb.to_le_bytes());
    Ok(h(b"ZTxIdSaplingHash", &d))
}

fn transparent_digest(bundle: Option<&T>) -> Result<([u8; 32], Vec<T>), String> {
    let Some(b) = bundle else { return Ok((h(b"ZTxIdTranspaHash", &[]), vec![])) };
    let inputs = fld(b, "inputs")?.items();
    let outputs = fld(b, "outputs")?.items();
    if inputs.is_empty() && outputs.is_empty() {
        return Ok((h(b"ZTxIdTranspaHash", &[]), vec![]));
    }
    let (mut pv, mut sq, mut ou) = (vec![], vec![], vec![]);
    for i in inputs {
        pv.extend(bytes(i, "prevout_txid")?);
        pv.extend((num(i, "prevout_index")? as u32).to_le_bytes());
        sq.extend((opt_num(i, "sequence")?.unwrap_or(0xffff_ffff) as u32).to_le_bytes());
    }
    for o in outputs {
        ou.extend(num(o, "value")?.to_le_bytes());
        let spk = bytes(o, "script_pubkey")?;
        compact_size(spk.len(), &mut ou);
        ou.extend(spk);
    }
    let mut d = vec![];
    d.extend(h(b"ZTxIdPrevoutHash", &pv));
    d.extend(h(b"ZTxIdSequencHash", &sq));
    d.extend(h(b"ZTxIdOutputsHash", &ou));
    Ok((h(b"ZTxIdTranspaHash", &d), inputs.to_vec()))
}

/// The transaction identifier implied by the fields of a (field-resolved) `v2::Pczt` tree.
pub fn txid(t: &T) -> Result<[u8; 32], String> {
    let g = fld(t, "global")?;
    let version = num(g, "tx_version")? as u32;
    let vgid = num(g, "version_group_id")? as u32;
    let branch = num(g, "consensus_branch_id")? as u32;
    let v6 = match (version, vgid) {
        (5, 0x26A7_270A) => false,
        (6, 0xD884_B698) => true,
        _ => return Err(format!("unsupported version {version}/{vgid:#x}")),
    };
    let ironwood = fld(t, "ironwood")?.some();
    if !v6 && ironwood.is_some() {
        return Err("Ironwood data in a v5 transaction".into());
    }
    let (tdig, inputs) = transparent_digest(fld(t, "transparent")?.some())?;
    let mut hd = vec![];
    hd.extend((version | 1 << 31).to_le_bytes());
    hd.extend(vgid.to_le_bytes());
    hd.extend(branch.to_le_bytes());
    hd.extend(lock_time(g, &inputs)?.to_le_bytes());
    hd.extend((num(g, "expiry_height")? as u32).to_le_bytes());
    let mut d = vec![];
    d.extend(h(b"ZTxIdHeadersHash", &hd));
    d.extend(tdig);
    d.extend(sapling_digest(fld(t, "sapling")?.some(), v6)?);
    let orchard_p = if v6 {
        OrchardPersonal { bundle: b"ZTxIdOrchardH_v6", compact: b"ZTxIdOrcActCHash", memos: b"ZTxIdOrcActMHash", noncompact: b"ZTxIdOrcActNHash", anchor: false }
    } else {
        OrchardPersonal { bundle: b"ZTxIdOrchardHash", compact: b"ZTxIdOrcActCHash", memos: b"ZTxIdOrcActMHash", noncompact: b"ZTxIdOrcActNHash", anchor: true }
    };
    d.extend(orchard_digest(fld(t, "orchard")?.some(), &orchard_p)?);
    if v6 {
        let p = OrchardPersonal { bundle: b"ZTxIdIronwd_H_v6", compact: b"ZTxIdIrnActCH_v6", memos: b"ZTxIdIrnActMH_v6", noncompact: b"ZTxIdIrnActNH_v6", anchor: false };
        d.extend(orchard_digest(ironwood, &p)?);
    }
    let mut personal = [0u8; 16];
    personal[..12].copy_from_slice(b"ZcashTxHash_");
    personal[12..].copy_from_slice(&branch.to_le_bytes());
    Ok(h(&personal, &d))
}
