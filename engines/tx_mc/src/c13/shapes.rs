//! Subject PCZTs (built by the real transaction builder and Creator) and the roles that act on them.

use incrementalmerkletree::{Hashable, Level};
use orchard::keys::{FullViewingKey, Scope, SpendAuthorizingKey, SpendingKey};
use orchard::note::{ExtractedNoteCommitment, NoteVersion, RandomSeed, Rho};
use orchard::tree::MerkleHashOrchard;
use pczt::roles::{
    combiner::Combiner, creator::Creator, io_finalizer::IoFinalizer, prover::Prover, redactor::Redactor, signer::Signer,
    spend_finalizer::SpendFinalizer, updater::Updater, verifier::Verifier,
};
use pczt::Pczt;
use rand_chacha::ChaCha20Rng;
use rand_core::SeedableRng;
use std::sync::OnceLock;
use zcash_primitives::transaction::builder::{BuildConfig, Builder, BundlePadding, PcztResult};
use zcash_primitives::transaction::fees::zip317;
use zcash_proofs::prover::LocalTxProver;
use zcash_protocol::consensus::BlockHeight;
use zcash_protocol::local_consensus::LocalNetwork;
use zcash_protocol::memo::MemoBytes;
use zcash_protocol::value::Zatoshis;
use zcash_transparent::address::TransparentAddress;
use zcash_transparent::bundle::{OutPoint, TxOut};
use zcash_transparent::keys::{AccountPrivKey, IncomingViewingKey};

pub const SHAPES: &[&str] = &["t2o_v5", "s2o_v5", "o2i_v6", "multi_v6", "memo_v5", "memo_v6", "t2t_v5", "cltvt_v5", "cltvh_v6"];

/// Shapes whose transparent inputs carry a required lock time (the spend of a CLTV coin): the
/// transaction's nLockTime, an effect, is then *determined from input fields* (BIP 370), so a role
/// that rewrites the transparent bundle must carry them through. `(input, height, time)`.
pub fn required_lock_times(name: &str) -> Vec<(usize, Option<u32>, Option<u32>)> {
    match name {
        // two inputs: the lock time is the maximum of the required heights
        "t2t_v5" => vec![(0, Some(1_700_000), None), (1, Some(1_600_000), None)],
        "cltvt_v5" => vec![(0, None, Some(1_800_000_000))],
        "cltvh_v6" => vec![(0, Some(1_700_000), None)],
        _ => vec![],
    }
}

/// Shapes that get the reduced treatment in the quick tier (they exist for one field family).
pub fn is_aux_shape(name: &str) -> bool {
    is_memo_shape(name) || name.starts_with("cltv")
}

/// The memo-length lattice of the stripped memo-plaintext representation (one symbol on each side
/// of `len > MEMO_SIZE`, of "trailing zero bytes are stripped", and of the empty memo): all zero
/// (stripped length 0), the 0xF6 "no memo" marker, one byte, 511 bytes, all 512 bytes used (last
/// byte non-zero), content followed by explicit zero padding.
pub fn memo_lattice() -> Vec<MemoBytes> {
    let m = |b: &[u8]| MemoBytes::from_bytes(b).expect("memo of at most 512 bytes");
    vec![m(&[]), MemoBytes::empty(), m(b"a"), m(&[0x42; 511]), m(&[0x43; 512]), m(&[&[0x44u8; 256][..], &[0u8; 256][..]].concat())]
}

pub fn is_memo_shape(name: &str) -> bool {
    name.starts_with("memo_")
}

fn network(nu6_3: bool) -> LocalNetwork {
    LocalNetwork {
        overwinter: Some(BlockHeight::from_u32(1)),
        sapling: Some(BlockHeight::from_u32(2)),
        blossom: Some(BlockHeight::from_u32(3)),
        heartwood: Some(BlockHeight::from_u32(4)),
        canopy: Some(BlockHeight::from_u32(5)),
        nu5: Some(BlockHeight::from_u32(6)),
        nu6: Some(BlockHeight::from_u32(7)),
        nu6_1: Some(BlockHeight::from_u32(8)),
        nu6_2: Some(BlockHeight::from_u32(9)),
        nu6_3: if nu6_3 { Some(BlockHeight::from_u32(10)) } else { None },
    }
}

pub struct Keys {
    pub t_sk: secp256k1::SecretKey,
    pub t_pk: secp256k1::PublicKey,
    pub t_addr: TransparentAddress,
    pub s_extsk: sapling::zip32::ExtendedSpendingKey,
    pub o_sk: SpendingKey,
    pub o_fvk: FullViewingKey,
}

fn keys(params: &LocalNetwork) -> Keys {
    let acct = AccountPrivKey::from_seed(params, &[1; 32], zip32::AccountId::ZERO).expect("transparent account key");
    let (t_addr, idx) = acct.to_account_pubkey().derive_external_ivk().expect("external ivk").default_address();
    let t_sk = acct.derive_external_secret_key(idx).expect("transparent secret key");
    let secp = secp256k1::Secp256k1::signing_only();
    let t_pk = t_sk.public_key(&secp);
    let o_sk = SpendingKey::from_bytes([0; 32]).expect("orchard spending key");
    Keys { t_sk, t_pk, t_addr, s_extsk: sapling::zip32::ExtendedSpendingKey::master(&[1; 32]), o_fvk: FullViewingKey::from(&o_sk), o_sk }
}

fn orchard_note(fvk: &FullViewingKey, value: u64, version: NoteVersion, tag: u8) -> orchard::Note {
    let recipient = fvk.address_at(0u32, Scope::External);
    let mut n = 0u8;
    let rho = loop {
        let mut b = [0u8; 32];
        b[0] = tag;
        b[1] = n;
        if let Some(r) = Rho::from_bytes(&b).into_option() {
            break r;
        }
        n += 1;
    };
    let mut n = 0u8;
    let rseed = loop {
        let mut b = [tag; 32];
        b[0] = n;
        if let Some(r) = RandomSeed::from_bytes(b, &rho).into_option() {
            break r;
        }
        n += 1;
    };
    orchard::Note::from_parts(recipient, orchard::value::NoteValue::from_raw(value), rho, rseed, version).into_option().expect("valid note")
}

fn orchard_witness(note: &orchard::Note) -> (orchard::tree::MerklePath, orchard::Anchor) {
    let cmx = ExtractedNoteCommitment::from(note.commitment());
    let auth: [MerkleHashOrchard; 32] = core::array::from_fn(|l| MerkleHashOrchard::empty_root(Level::from(l as u8)));
    let path = orchard::tree::MerklePath::from_parts(0, auth);
    let anchor = path.root(cmx);
    (path, anchor)
}

fn sapling_note_and_witness(extsk: &sapling::zip32::ExtendedSpendingKey, value: u64) -> (sapling::Note, sapling::MerklePath, sapling::Anchor) {
    let dfvk = extsk.to_diversifiable_full_viewing_key();
    let recipient = dfvk.default_address().1;
    let note = sapling::Note::from_parts(recipient, sapling::value::NoteValue::from_raw(value), sapling::Rseed::AfterZip212([9; 32]));
    let leaf = sapling::Node::from_cmu(&note.cmu());
    let elems: Vec<sapling::Node> = (0..32u8).map(|l| sapling::Node::empty_root(Level::from(l))).collect();
    let path = sapling::MerklePath::from_parts(elems, 0u64.into()).expect("32 path elements");
    let anchor: sapling::Anchor = path.root(leaf).into();
    (note, path, anchor)
}

/// One party's action on a PCZT. Every role is `Role::new(pczt) … finish()` on a plain `Pczt`.
#[derive(Clone, Debug, PartialEq, Eq, PartialOrd, Ord)]
pub enum Role {
    IoFinalizer,
    /// Proprietary / derivation / user-address / proof-generation-key fields.
    UpdaterMeta,
    /// v6 only: (re-)installs the real anchors and spend witnesses (ZIP 374 deferral).
    UpdaterAnchors,
    SignTransparent(usize),
    SignSapling(usize),
    SignOrchard(usize),
    SignIronwood(usize),
    SpendFinalizer,
    /// Proprietary values, user addresses, derivation paths, `ock`.
    RedactLight,
    /// `compact_resolvable_fields` on both Orchard-protocol bundles (cv_net / cmx / memo plaintext).
    RedactCompact,
    /// Everything a later Prover or Signer would need, short of the inputs of derived fields.
    RedactHeavy,
    ProveSapling,
    ProveOrchard,
    ProveIronwood,
}

impl Role {
    pub fn name(&self) -> String {
        match self {
            Role::SignTransparent(i) => format!("SignTransparent{i}"),
            Role::SignSapling(i) => format!("SignSapling{i}"),
            Role::SignOrchard(i) => format!("SignOrchard{i}"),
            Role::SignIronwood(i) => format!("SignIronwood{i}"),
            r => format!("{:?}", r),
        }
    }
}

pub struct Shape {
    pub name: &'static str,
    pub v6: bool,
    pub keys: Keys,
    pub created: Pczt,
    /// Indices of the spends this wallet must sign (real spends and wallet-controlled zero-value spends).
    pub t_inputs: Vec<usize>,
    pub s_spends: Vec<usize>,
    pub o_actions: Vec<usize>,
    pub i_actions: Vec<usize>,
    pub s_witness: Option<(usize, sapling::MerklePath, sapling::Anchor)>,
    pub o_witness: Option<(usize, orchard::tree::MerklePath, orchard::Anchor)>,
    pub i_witness: Option<(usize, orchard::tree::MerklePath, orchard::Anchor)>,
}

static PK_V5: OnceLock<orchard::circuit::ProvingKey> = OnceLock::new();
static PK_V6: OnceLock<orchard::circuit::ProvingKey> = OnceLock::new();
static SAPLING_PROVER: OnceLock<LocalTxProver> = OnceLock::new();

pub fn orchard_pk(v6: bool) -> &'static orchard::circuit::ProvingKey {
    if v6 {
        PK_V6.get_or_init(|| orchard::circuit::ProvingKey::build(orchard::circuit::OrchardCircuitVersion::PostNu6_3))
    } else {
        PK_V5.get_or_init(|| orchard::circuit::ProvingKey::build(orchard::circuit::OrchardCircuitVersion::FixedPostNu6_2))
    }
}
pub fn sapling_prover() -> &'static LocalTxProver {
    SAPLING_PROVER.get_or_init(LocalTxProver::bundled)
}

fn zat(v: u64) -> Zatoshis {
    Zatoshis::from_u64(v).expect("amount in range")
}

type B = Builder<LocalNetwork, ()>;
type FE = zip317::FeeError;

pub fn build_shape(name: &str) -> Result<Shape, String> {
    let v6 = name.ends_with("_v6");
    let params = network(v6);
    let k = keys(&params);
    let o_ovk = k.o_fvk.to_ovk(Scope::External);
    let o_recipient = k.o_fvk.address_at(0u32, Scope::External);
    let o_change = k.o_fvk.address_at(0u32, Scope::Internal);
    let s_dfvk = k.s_extsk.to_diversifiable_full_viewing_key();
    let s_internal = k.s_extsk.derive_internal().to_diversifiable_full_viewing_key();
    let coin = TxOut::new(zat(1_000_000), k.t_addr.script().into());
    let utxo = OutPoint::new([7; 32], 1);
    let height = BlockHeight::from_u32(10_000_000);

    let o_note_v2 = orchard_note(&k.o_fvk, 1_000_000, NoteVersion::V2, 3);
    let (o_path, o_anchor) = orchard_witness(&o_note_v2);
    let (s_note, s_path, s_anchor) = sapling_note_and_witness(&k.s_extsk, 1_000_000);
    let empty_o = orchard::Anchor::empty_tree();

    // `fill(builder, change)` adds every input and output of the shape; the change amount is
    // `inputs - outputs - fee`, with the fee asked of the real builder.
    let (config, total_in, fixed_out): (BuildConfig, u64, u64) = match name {
        "t2o_v5" => (
            BuildConfig::Standard { sapling_anchor: None, orchard_anchor: Some(empty_o), ironwood_anchor: None, orchard_padding: BundlePadding::DEFAULT, ironwood_padding: BundlePadding::DEFAULT },
            1_000_000,
            100_000,
        ),
        "cltvt_v5" => (
            BuildConfig::Standard { sapling_anchor: None, orchard_anchor: Some(empty_o), ironwood_anchor: None, orchard_padding: BundlePadding::DEFAULT, ironwood_padding: BundlePadding::DEFAULT },
            1_000_000,
            100_000,
        ),
        "cltvh_v6" => (
            BuildConfig::Standard { sapling_anchor: None, orchard_anchor: None, ironwood_anchor: Some(empty_o), ironwood_padding: BundlePadding::DEFAULT, orchard_padding: BundlePadding::DEFAULT },
            1_000_000,
            100_000,
        ),
        "t2t_v5" => (
            BuildConfig::Standard { sapling_anchor: None, orchard_anchor: None, ironwood_anchor: None, orchard_padding: BundlePadding::DEFAULT, ironwood_padding: BundlePadding::DEFAULT },
            2_000_000,
            300_000,
        ),
        "s2o_v5" => (
            BuildConfig::Standard { sapling_anchor: Some(s_anchor), orchard_anchor: Some(empty_o), ironwood_anchor: None, orchard_padding: BundlePadding::DEFAULT, ironwood_padding: BundlePadding::DEFAULT },
            1_000_000,
            100_000,
        ),
        "o2i_v6" => (
            BuildConfig::Standard { sapling_anchor: None, orchard_anchor: Some(o_anchor), ironwood_anchor: Some(empty_o), orchard_padding: BundlePadding::DEFAULT, ironwood_padding: BundlePadding::DEFAULT },
            1_000_000,
            0,
        ),
        "memo_v5" => (
            BuildConfig::Standard { sapling_anchor: None, orchard_anchor: Some(empty_o), ironwood_anchor: None, orchard_padding: BundlePadding::DEFAULT, ironwood_padding: BundlePadding::DEFAULT },
            1_000_000,
            50_000,
        ),
        "memo_v6" => (
            BuildConfig::Standard { sapling_anchor: None, orchard_anchor: None, ironwood_anchor: Some(empty_o), orchard_padding: BundlePadding::DEFAULT, ironwood_padding: BundlePadding::DEFAULT },
            1_000_000,
            50_000,
        ),
        "multi_v6" => (
            BuildConfig::Standard { sapling_anchor: Some(s_anchor), orchard_anchor: Some(o_anchor), ironwood_anchor: Some(empty_o), orchard_padding: BundlePadding::DEFAULT, ironwood_padding: BundlePadding::DEFAULT },
            3_000_000,
            150_000 + 250_000,
        ),
        _ => return Err(format!("unknown shape {name}")),
    };
    let fill = |b: &mut B, change: u64| -> Result<(), String> {
        let e = |x: String| x;
        match name {
            "t2t_v5" => {
                b.add_transparent_p2pkh_input(k.t_pk, utxo.clone(), coin.clone()).map_err(|x| e(format!("{x:?}")))?;
                b.add_transparent_p2pkh_input(k.t_pk, OutPoint::new([8; 32], 0), coin.clone()).map_err(|x| e(format!("{x:?}")))?;
                b.add_transparent_output(&TransparentAddress::PublicKeyHash([1; 20]), zat(300_000)).map_err(|x| e(format!("{x:?}")))?;
                b.add_transparent_output(&k.t_addr, zat(change)).map_err(|x| e(format!("{x:?}")))?;
            }
            "cltvh_v6" => {
                b.add_transparent_p2pkh_input(k.t_pk, utxo.clone(), coin.clone()).map_err(|x| e(format!("{x:?}")))?;
                b.add_ironwood_output::<FE>(Some(o_ovk.clone()), o_recipient, zat(100_000), MemoBytes::empty()).map_err(|x| e(format!("{x:?}")))?;
                b.add_ironwood_output::<FE>(Some(k.o_fvk.to_ovk(Scope::Internal)), o_change, zat(change), MemoBytes::empty()).map_err(|x| e(format!("{x:?}")))?;
            }
            "t2o_v5" | "cltvt_v5" => {
                b.add_transparent_p2pkh_input(k.t_pk, utxo.clone(), coin.clone()).map_err(|x| e(format!("{x:?}")))?;
                b.add_orchard_output::<FE>(Some(o_ovk.clone()), o_recipient, zat(100_000), MemoBytes::empty()).map_err(|x| e(format!("{x:?}")))?;
                b.add_orchard_output::<FE>(Some(k.o_fvk.to_ovk(Scope::Internal)), o_change, zat(change), MemoBytes::empty()).map_err(|x| e(format!("{x:?}")))?;
            }
            "s2o_v5" => {
                b.add_sapling_spend::<FE>(s_dfvk.fvk().clone(), s_note.clone(), s_path.clone()).map_err(|x| e(format!("{x:?}")))?;
                b.add_orchard_output::<FE>(Some(o_ovk.clone()), o_recipient, zat(100_000), MemoBytes::from_bytes(b"verif memo").expect("memo")).map_err(|x| e(format!("{x:?}")))?;
                b.add_sapling_output::<FE>(Some(s_dfvk.to_ovk(zip32::Scope::Internal)), s_internal.find_address(0u32.into()).expect("address").1, zat(change), MemoBytes::empty())
                    .map_err(|x| e(format!("{x:?}")))?;
            }
            "o2i_v6" => {
                b.add_orchard_spend::<FE>(k.o_fvk.clone(), o_note_v2, o_path.clone()).map_err(|x| e(format!("{x:?}")))?;
                b.add_ironwood_output::<FE>(Some(o_ovk.clone()), o_recipient, zat(change), MemoBytes::from_bytes(b"to ironwood").expect("memo")).map_err(|x| e(format!("{x:?}")))?;
            }
            "memo_v5" | "memo_v6" => {
                b.add_transparent_p2pkh_input(k.t_pk, utxo.clone(), coin.clone()).map_err(|x| e(format!("{x:?}")))?;
                let memos = memo_lattice();
                let last = memos.len() - 1;
                for (i, memo) in memos.into_iter().enumerate() {
                    let v = zat(if i == last { change } else { 10_000 });
                    if name == "memo_v5" {
                        b.add_orchard_output::<FE>(Some(o_ovk.clone()), o_recipient, v, memo).map_err(|x| e(format!("{x:?}")))?;
                    } else {
                        b.add_ironwood_output::<FE>(Some(o_ovk.clone()), o_recipient, v, memo).map_err(|x| e(format!("{x:?}")))?;
                    }
                }
            }
            "multi_v6" => {
                b.add_transparent_p2pkh_input(k.t_pk, utxo.clone(), coin.clone()).map_err(|x| e(format!("{x:?}")))?;
                b.add_sapling_spend::<FE>(s_dfvk.fvk().clone(), s_note.clone(), s_path.clone()).map_err(|x| e(format!("{x:?}")))?;
                b.add_orchard_spend::<FE>(k.o_fvk.clone(), o_note_v2, o_path.clone()).map_err(|x| e(format!("{x:?}")))?;
                b.add_transparent_output(&k.t_addr, zat(150_000)).map_err(|x| e(format!("{x:?}")))?;
                b.add_sapling_output::<FE>(Some(s_dfvk.to_ovk(zip32::Scope::External)), s_dfvk.default_address().1, zat(250_000), MemoBytes::empty()).map_err(|x| e(format!("{x:?}")))?;
                b.add_ironwood_output::<FE>(Some(o_ovk.clone()), o_recipient, zat(change), MemoBytes::from_bytes(b"multi").expect("memo")).map_err(|x| e(format!("{x:?}")))?;
            }
            _ => unreachable!(),
        }
        Ok(())
    };
    let rule = zip317::FeeRule::standard();
    let mut probe: B = Builder::new(params, height, config.clone());
    fill(&mut probe, 1)?;
    let fee = u64::from(probe.get_fee(&rule).map_err(|e| format!("get_fee: {e:?}"))?);
    let change = total_in.checked_sub(fixed_out + fee).ok_or("fee exceeds inputs")?;
    let mut builder: B = Builder::new(params, height, config);
    fill(&mut builder, change)?;
    let PcztResult { pczt_parts, sapling_meta, orchard_meta, ironwood_meta, .. } =
        builder.build_for_pczt(ChaCha20Rng::from_seed([13; 32]), &rule).map_err(|e| format!("build_for_pczt({name}): {e:?}"))?;
    let created = Creator::build_from_parts(pczt_parts).ok_or("Creator::build_from_parts returned None")?;

    // Which spends are ours to sign: everything that is not a protocol padding dummy.
    let ours = |b: &pczt::orchard::Bundle| -> Vec<usize> { b.actions().iter().enumerate().filter(|(_, a)| a.spend().dummy_sk().is_none()).map(|(i, _)| i).collect() };
    let o_actions = ours(created.orchard());
    let i_actions = ours(created.ironwood());
    let t_inputs: Vec<usize> = (0..created.transparent().inputs().len()).collect();
    let has_s = matches!(name, "s2o_v5" | "multi_v6");
    let has_o = matches!(name, "o2i_v6" | "multi_v6");
    let s_spends: Vec<usize> = if has_s { vec![sapling_meta.spend_index(0).ok_or("no sapling spend index")?] } else { vec![] };
    let s_witness = if has_s { Some((s_spends[0], s_path, s_anchor)) } else { None };
    let o_witness = if has_o { Some((orchard_meta.spend_action_index(0).ok_or("no orchard spend index")?, o_path, o_anchor)) } else { None };
    let _ = ironwood_meta;
    Ok(Shape { name: SHAPES.iter().find(|s| **s == name).copied().unwrap_or("?"), v6, keys: k, created, t_inputs, s_spends, o_actions, i_actions, s_witness, o_witness, i_witness: None })
}

fn d<E: std::fmt::Debug>(what: &str) -> impl Fn(E) -> String + '_ {
    move |e| format!("{what}: {e:?}")
}

/// Error text with payload bytes removed, so that outcome classes are stable across runs.
pub fn err_class(e: &str) -> String {
    let cut = e.find(['(', '{']).unwrap_or(e.len());
    let head = &e[..cut];
    // keep one level of nesting: `Role: Variant(Inner(..))` -> `Role: Variant(Inner`
    let rest = &e[cut..];
    let inner: String = rest.chars().skip(1).take_while(|c| c.is_alphanumeric() || *c == '_' || *c == ':').collect();
    if inner.is_empty() {
        head.trim().to_string()
    } else {
        format!("{}({}", head.trim(), inner)
    }
}

impl Shape {
    /// The roles of this shape, in a fixed order (`provers` adds the Prover roles).
    pub fn roles(&self, provers: bool) -> Vec<Role> {
        let mut r = vec![Role::IoFinalizer, Role::UpdaterMeta];
        if self.v6 {
            r.push(Role::UpdaterAnchors);
        }
        r.extend(self.t_inputs.iter().map(|i| Role::SignTransparent(*i)));
        r.extend(self.s_spends.iter().map(|i| Role::SignSapling(*i)));
        r.extend(self.o_actions.iter().map(|i| Role::SignOrchard(*i)));
        r.extend(self.i_actions.iter().map(|i| Role::SignIronwood(*i)));
        if !self.t_inputs.is_empty() {
            r.push(Role::SpendFinalizer);
        }
        r.extend([Role::RedactLight, Role::RedactCompact, Role::RedactHeavy]);
        if provers {
            if !self.created.sapling().spends().is_empty() || !self.created.sapling().outputs().is_empty() {
                r.push(Role::ProveSapling);
            }
            if !self.created.orchard().actions().is_empty() {
                r.push(Role::ProveOrchard);
            }
            if !self.created.ironwood().actions().is_empty() {
                r.push(Role::ProveIronwood);
            }
        }
        r
    }

    pub fn role_by_name(&self, n: &str) -> Option<Role> {
        self.roles(true).into_iter().find(|r| r.name() == n)
    }

    /// Apply one role on the real code. `Err` is the role's own refusal.
    pub fn apply(&self, role: &Role, p: Pczt) -> Result<Pczt, String> {
        let k = &self.keys;
        match role {
            Role::IoFinalizer => IoFinalizer::new(p).finalize_io().map_err(d("IoFinalizer")),
            Role::SignTransparent(i) => {
                let mut s = Signer::new(p).map_err(d("Signer::new"))?;
                s.sign_transparent(*i, &k.t_sk).map_err(d("sign_transparent"))?;
                Ok(s.finish())
            }
            Role::SignSapling(i) => {
                let mut s = Signer::new(p).map_err(d("Signer::new"))?;
                s.sign_sapling(*i, &k.s_extsk.expsk.ask).map_err(d("sign_sapling"))?;
                Ok(s.finish())
            }
            Role::SignOrchard(i) => {
                let mut s = Signer::new(p).map_err(d("Signer::new"))?;
                s.sign_orchard(*i, &SpendAuthorizingKey::from(&k.o_sk)).map_err(d("sign_orchard"))?;
                Ok(s.finish())
            }
            Role::SignIronwood(i) => {
                let mut s = Signer::new(p).map_err(d("Signer::new"))?;
                s.sign_ironwood(*i, &SpendAuthorizingKey::from(&k.o_sk)).map_err(d("sign_ironwood"))?;
                Ok(s.finish())
            }
            Role::SpendFinalizer => SpendFinalizer::new(p).finalize_spends().map_err(d("SpendFinalizer")),
            Role::UpdaterMeta => self.updater_meta(p),
            Role::UpdaterAnchors => self.updater_anchors(p),
            Role::RedactLight => Ok(redact_light(p)),
            Role::RedactCompact => Ok(Redactor::new(p)
                .redact_orchard_with(|mut o| o.compact_resolvable_fields())
                .redact_ironwood_with(|mut o| o.compact_resolvable_fields())
                .finish()),
            Role::RedactHeavy => Ok(redact_heavy(p)),
            Role::ProveSapling => {
                let pr = sapling_prover();
                Ok(Prover::new(p).create_sapling_proofs(pr, pr).map_err(d("create_sapling_proofs"))?.finish())
            }
            Role::ProveOrchard => Ok(Prover::new(p).create_orchard_proof(orchard_pk(self.v6)).map_err(d("create_orchard_proof"))?.finish()),
            Role::ProveIronwood => Ok(Prover::new(p).create_ironwood_proof(orchard_pk(true)).map_err(d("create_ironwood_proof"))?.finish()),
        }
    }

    fn updater_meta(&self, p: Pczt) -> Result<Pczt, String> {
        let k = &self.keys;
        let fp = [0x5e; 32];
        let n_tin = p.transparent().inputs().len();
        let n_tout = p.transparent().outputs().len();
        let n_ss = p.sapling().spends().len();
        let n_so = p.sapling().outputs().len();
        let n_oa = p.orchard().actions().len();
        let n_ia = p.ironwood().actions().len();
        let mut u = Updater::new(p).update_global_with(|mut g| {
            g.set_proprietary("verif.global".into(), vec![1, 2, 3]);
            g.set_proprietary("verif.other".into(), vec![]);
        });
        if n_tin + n_tout > 0 {
            let pk = k.t_pk.serialize();
            u = u
                .update_transparent_with(|mut t| {
                    for i in 0..n_tin {
                        t.update_input_with(i, |mut inp| {
                            inp.set_bip32_derivation(
                                pk,
                                zcash_transparent::pczt::Bip32Derivation::parse(fp, vec![44 | 0x8000_0000, 1 | 0x8000_0000, 0x8000_0000, 0, 0]).expect("derivation"),
                            );
                            inp.set_ripemd160_preimage(vec![0xaa; 5]);
                            inp.set_sha256_preimage(vec![0xbb; 6]);
                            inp.set_hash160_preimage(vec![0xcc; 7]);
                            inp.set_hash256_preimage(vec![0xdd; 8]);
                            inp.set_proprietary("verif.tin".into(), vec![9]);
                            Ok(())
                        })?;
                    }
                    for i in 0..n_tout {
                        t.update_output_with(i, |mut out| {
                            out.set_bip32_derivation(
                                pk,
                                zcash_transparent::pczt::Bip32Derivation::parse(fp, vec![44 | 0x8000_0000, 1 | 0x8000_0000, 0x8000_0000, 1, 3]).expect("derivation"),
                            );
                            out.set_user_address("tmVerifUserAddress".into());
                            out.set_proprietary("verif.tout".into(), vec![8, 8]);
                            Ok(())
                        })?;
                    }
                    Ok(())
                })
                .map_err(d("update_transparent_with"))?;
        }
        if n_ss + n_so > 0 {
            let pgk = k.s_extsk.expsk.proof_generation_key();
            let ours = self.s_spends.clone();
            u = u
                .update_sapling_with(|mut s| {
                    for i in 0..n_ss {
                        let pgk = pgk.clone();
                        let mine = ours.contains(&i);
                        s.update_spend_with(i, |mut sp| {
                            if mine {
                                sp.set_proof_generation_key(pgk)?;
                                sp.set_zip32_derivation(sapling::pczt::Zip32Derivation::parse(fp, vec![32 | 0x8000_0000, 1 | 0x8000_0000, 0x8000_0000]).expect("derivation"));
                            }
                            sp.set_proprietary("verif.sspend".into(), vec![7]);
                            Ok(())
                        })?;
                    }
                    for i in 0..n_so {
                        s.update_output_with(i, |mut o| {
                            o.set_zip32_derivation(sapling::pczt::Zip32Derivation::parse(fp, vec![32 | 0x8000_0000, 1 | 0x8000_0000, 0x8000_0000]).expect("derivation"));
                            o.set_user_address("zregtestsaplingVerifUserAddress".into());
                            o.set_proprietary("verif.sout".into(), vec![6, 6, 6]);
                            Ok(())
                        })?;
                    }
                    Ok(())
                })
                .map_err(d("update_sapling_with"))?;
        }
        let stamp = |mut o: orchard::pczt::Updater<'_>, n: usize, tag: &str| -> Result<(), orchard::pczt::UpdaterError> {
            for i in 0..n {
                let tag = tag.to_string();
                o.update_action_with(i, |mut a| {
                    a.set_spend_zip32_derivation(orchard::pczt::Zip32Derivation::parse(fp, vec![32 | 0x8000_0000, 1 | 0x8000_0000, 0x8000_0000]).expect("derivation"));
                    a.set_spend_proprietary(format!("verif.{tag}.spend"), vec![5]);
                    a.set_output_zip32_derivation(orchard::pczt::Zip32Derivation::parse(fp, vec![32 | 0x8000_0000, 1 | 0x8000_0000, 0x8000_0001]).expect("derivation"));
                    a.set_output_user_address("uregtestVerifUserAddress".into());
                    a.set_output_proprietary(format!("verif.{tag}.output"), vec![4, 4]);
                    Ok(())
                })?;
            }
            Ok(())
        };
        if n_oa > 0 {
            u = u.update_orchard_with(|o| stamp(o, n_oa, "orchard")).map_err(d("update_orchard_with"))?;
        }
        if n_ia > 0 {
            u = u.update_ironwood_with(|o| stamp(o, n_ia, "ironwood")).map_err(d("update_ironwood_with"))?;
        }
        Ok(u.finish())
    }

    fn updater_anchors(&self, p: Pczt) -> Result<Pczt, String> {
        let mut u = Updater::new(p);
        if let Some((i, path, anchor)) = &self.s_witness {
            u = u.set_sapling_anchor(*anchor).map_err(d("set_sapling_anchor"))?;
            u = u.set_sapling_spend_witnesses([(*i, path.clone())]).map_err(d("set_sapling_spend_witnesses"))?;
        }
        if let Some((i, path, anchor)) = &self.o_witness {
            u = u.set_orchard_anchor(*anchor).map_err(d("set_orchard_anchor"))?;
            u = u.set_orchard_spend_witnesses([(*i, path.clone())]).map_err(d("set_orchard_spend_witnesses"))?;
        }
        if let Some((i, path, anchor)) = &self.i_witness {
            u = u.set_ironwood_anchor(*anchor).map_err(d("set_ironwood_anchor"))?;
            u = u.set_ironwood_spend_witnesses([(*i, path.clone())]).map_err(d("set_ironwood_spend_witnesses"))?;
        } else if !self.created.ironwood().actions().is_empty() {
            u = u.set_ironwood_anchor(orchard::Anchor::empty_tree()).map_err(d("set_ironwood_anchor"))?;
        }
        Ok(u.finish())
    }
}

pub fn redact_light(p: Pczt) -> Pczt {
    Redactor::new(p)
        .redact_global_with(|mut g| g.clear_proprietary())
        .redact_transparent_with(|mut t| {
            t.redact_inputs(|mut i| {
                i.clear_bip32_derivation();
                i.clear_proprietary();
            });
            t.redact_outputs(|mut o| {
                o.clear_bip32_derivation();
                o.clear_user_address();
                o.clear_proprietary();
            });
        })
        .redact_sapling_with(|mut s| {
            s.redact_spends(|mut x| {
                x.clear_zip32_derivation();
                x.clear_proprietary();
            });
            s.redact_outputs(|mut x| {
                x.clear_zip32_derivation();
                x.clear_user_address();
                x.clear_ock();
                x.clear_proprietary();
            });
        })
        .redact_orchard_with(light_orchard)
        .redact_ironwood_with(light_orchard)
        .finish()
}

fn light_orchard(mut o: pczt::roles::redactor::orchard::OrchardRedactor<'_>) {
    o.redact_actions(|mut a| {
        a.clear_spend_zip32_derivation();
        a.clear_spend_proprietary();
        a.clear_output_zip32_derivation();
        a.clear_output_user_address();
        a.clear_output_ock();
        a.clear_output_proprietary();
    });
}

fn heavy_orchard(mut o: pczt::roles::redactor::orchard::OrchardRedactor<'_>) {
    // Not cleared: spend.value, output.value, output.recipient, output.rseed, rcv — the inputs from
    // which a compacted cv_net / cmx / enc_ciphertext is recomputed.
    o.redact_actions(|mut a| {
        a.clear_spend_recipient();
        a.clear_spend_rho();
        a.clear_spend_rseed();
        a.clear_spend_fvk();
        a.clear_spend_witness();
        a.clear_spend_alpha();
        a.clear_spend_dummy_sk();
    });
}

pub fn redact_heavy(p: Pczt) -> Pczt {
    Redactor::new(p)
        .redact_transparent_with(|mut t| {
            t.redact_inputs(|mut i| {
                i.clear_redeem_script();
                i.clear_ripemd160_preimages();
                i.clear_sha256_preimages();
                i.clear_hash160_preimages();
                i.clear_hash256_preimages();
            });
            t.redact_outputs(|mut o| o.clear_redeem_script());
        })
        .redact_sapling_with(|mut s| {
            s.redact_spends(|mut x| {
                x.clear_recipient();
                x.clear_value();
                x.clear_rcm();
                x.clear_rseed();
                x.clear_proof_generation_key();
                x.clear_witness();
                x.clear_alpha();
                x.clear_dummy_ask();
            });
            s.redact_outputs(|mut x| {
                x.clear_recipient();
                x.clear_value();
                x.clear_rseed();
            });
        })
        .redact_orchard_with(heavy_orchard)
        .redact_ironwood_with(heavy_orchard)
        .finish()
}

/// Split a PCZT into two complementary redacted copies: between them every field survives.
pub fn split(p: &Pczt) -> (Pczt, Pczt) {
    fn spend_side(mut o: pczt::roles::redactor::orchard::OrchardRedactor<'_>) {
        o.redact_actions(|mut a| {
            a.clear_spend_auth_sig();
            a.clear_spend_recipient();
            a.clear_spend_value();
            a.clear_spend_rho();
            a.clear_spend_rseed();
            a.clear_spend_fvk();
            a.clear_spend_witness();
            a.clear_spend_alpha();
            a.clear_spend_zip32_derivation();
            a.clear_spend_dummy_sk();
            a.clear_spend_proprietary();
        });
    }
    fn output_side(mut o: pczt::roles::redactor::orchard::OrchardRedactor<'_>) {
        o.redact_actions(|mut a| {
            a.clear_output_recipient();
            a.clear_output_value();
            a.clear_output_rseed();
            a.clear_output_ock();
            a.clear_output_zip32_derivation();
            a.clear_output_user_address();
            a.clear_output_proprietary();
            a.clear_rcv();
        });
        o.clear_zkproof();
        o.clear_bsk();
    }
    let a = Redactor::new(p.clone())
        .redact_global_with(|mut g| g.clear_proprietary())
        .redact_transparent_with(|mut t| {
            t.redact_inputs(|mut i| {
                i.clear_partial_signatures();
                i.clear_bip32_derivation();
                i.clear_ripemd160_preimages();
                i.clear_sha256_preimages();
                i.clear_hash160_preimages();
                i.clear_hash256_preimages();
                i.clear_proprietary();
            });
        })
        .redact_sapling_with(|mut s| {
            s.redact_spends(|mut x| {
                x.clear_spend_auth_sig();
                x.clear_recipient();
                x.clear_value();
                x.clear_rcm();
                x.clear_rseed();
                x.clear_rcv();
                x.clear_proof_generation_key();
                x.clear_witness();
                x.clear_alpha();
                x.clear_zip32_derivation();
                x.clear_dummy_ask();
                x.clear_proprietary();
            });
        })
        .redact_orchard_with(spend_side)
        .redact_ironwood_with(spend_side)
        .finish();
    let b = Redactor::new(p.clone())
        .redact_transparent_with(|mut t| {
            t.redact_inputs(|mut i| {
                i.clear_script_sig();
                i.clear_redeem_script();
            });
            t.redact_outputs(|mut o| {
                o.clear_redeem_script();
                o.clear_bip32_derivation();
                o.clear_user_address();
                o.clear_proprietary();
            });
        })
        .redact_sapling_with(|mut s| {
            s.redact_spends(|mut x| x.clear_zkproof());
            s.redact_outputs(|mut x| {
                x.clear_zkproof();
                x.clear_recipient();
                x.clear_value();
                x.clear_rseed();
                x.clear_rcv();
                x.clear_ock();
                x.clear_zip32_derivation();
                x.clear_user_address();
                x.clear_proprietary();
            });
            s.clear_bsk();
        })
        .redact_orchard_with(output_side)
        .redact_ironwood_with(output_side)
        .finish();
    (a, b)
}

pub fn combine(ps: Vec<Pczt>) -> Result<Pczt, String> {
    Combiner::new(ps).combine().map_err(|e| format!("{e:?}"))
}

/// The Verifier role over every bundle (it parses and re-serialises each bundle).
pub fn verifier_pass(p: Pczt) -> Result<Pczt, String> {
    Ok(Verifier::new(p)
        .with_transparent::<(), _>(|_| Ok(()))
        .map_err(d("Verifier::with_transparent"))?
        .with_sapling::<(), _>(|_| Ok(()))
        .map_err(d("Verifier::with_sapling"))?
        .with_orchard::<(), _>(|_| Ok(()))
        .map_err(d("Verifier::with_orchard"))?
        .with_ironwood::<(), _>(|_| Ok(()))
        .map_err(d("Verifier::with_ironwood"))?
        .finish())
}

/// Error of the no-op low-level Signer pass.
#[derive(Debug)]
pub struct LowLevelError(pub String);
impl From<zcash_transparent::pczt::ParseError> for LowLevelError {
    fn from(e: zcash_transparent::pczt::ParseError) -> Self {
        LowLevelError(format!("Transparent({e:?})"))
    }
}
impl From<pczt::sapling::ParseError> for LowLevelError {
    fn from(e: pczt::sapling::ParseError) -> Self {
        LowLevelError(format!("Sapling({e:?})"))
    }
}
impl From<pczt::roles::low_level_signer::OrchardParseError> for LowLevelError {
    fn from(e: pczt::roles::low_level_signer::OrchardParseError) -> Self {
        LowLevelError(format!("Orchard({e:?})"))
    }
}

/// The low-level Signer role over every bundle with closures that sign nothing (it parses each
/// bundle and writes it back).
pub fn lowlevel_pass(p: Pczt) -> Result<Pczt, String> {
    pczt::roles::low_level_signer::Signer::new(p)
        .sign_transparent_with::<LowLevelError, _>(|_, _, _| Ok(()))
        .and_then(|s| s.sign_sapling_with::<LowLevelError, _>(|_, _, _| Ok(())))
        .and_then(|s| s.sign_orchard_with::<LowLevelError, _>(|_, _, _| Ok(())))
        .and_then(|s| s.sign_ironwood_with::<LowLevelError, _>(|_, _, _| Ok(())))
        .map(|s| s.finish())
        .map_err(|e| format!("low-level Signer: {}", e.0))
}
