//! (4) Every order of the role multiset, as an explicit-state search on the real roles.
//!
//! State = (set of roles not yet applied, PCZT). An operation applies one remaining role to the
//! current PCZT; a role that refuses (returns an error) leaves the PCZT as it was and is spent.
//! States are matched on the canonical v2 bytes with randomised material (spend authorisation
//! signatures, proofs) blinded, so the search covers all k! orders while executing far fewer role
//! applications. Checked on every transition: no panic. Checked on every distinct state: the three
//! identity opinions agree and equal the identity of the PCZT as created; the encoding round-trips
//! and the version choice follows the documented predicate; the Verifier pass and a transport cycle
//! preserve the identity; splitting the PCZT into two complementary redacted copies and combining
//! them (both orders) gives back exactly the PCZT. On terminal states the TransactionExtractor is
//! run: an error, or a transaction whose txid is the identity predicted before any role ran.

use super::lattice::Subjects;
use super::shapes::{self, err_class, Role, Shape};
use super::tree::{self, T};
use super::{canon, encoding_check, identity, identity_own, normalize};
use mc_core::{catch, Args, Run, Tier};
use pczt::roles::tx_extractor::TransactionExtractor;
use pczt::Pczt;
use rayon::prelude::*;
use serde_json::{json, Value};
use std::collections::{BTreeMap, HashMap};

fn blind(t: &mut T) {
    match t {
        T::Struct(fs) => {
            for (n, v) in fs.iter_mut() {
                if matches!(*n, "spend_auth_sig" | "zkproof") {
                    if let T::Some(x) = v {
                        **x = T::Unit;
                    }
                } else {
                    blind(v);
                }
            }
        }
        T::Some(x) | T::Variant(_, _, x) => blind(x),
        T::Seq(xs) | T::Tuple(xs) => xs.iter_mut().for_each(blind),
        T::Map(kv) => kv.iter_mut().for_each(|(_, v)| blind(v)),
        _ => {}
    }
}

pub fn state_key(p: &Pczt) -> Result<Vec<u8>, String> {
    let (mut t, _) = canon(p)?;
    blind(&mut t);
    let mut out = vec![];
    tree::encode(&t, &mut out);
    Ok(out)
}

/// Invariants of one state. Returns outcome classes.
pub fn check_state(shape: &Shape, id0: &[u8; 32], p: &Pczt) -> Result<Vec<String>, String> {
    let mut outs = vec![];
    // encoding first: one of the identity opinions goes through the stored bytes
    outs.push(format!("state:{}", encoding_check(p)?));
    match identity(p)? {
        Some(id) if id == *id0 => {}
        Some(id) => return Err(format!("effects identity changed: {} (as created: {})", hex::encode(id), hex::encode(id0))),
        None => return Err("effects identity is no longer computable".into()),
    }
    // transport cycle
    // (a serialize/parse cycle is part of encoding_check: the value parsed back is the same value)
    // verifier pass
    match catch(|| shapes::verifier_pass(p.clone())) {
        Err(pn) => return Err(format!("Verifier panicked: {pn}")),
        Ok(Err(e)) => outs.push(format!("verifier:err:{}", err_class(&e))),
        Ok(Ok(v)) => {
            // (the full identity, all opinions, is evaluated on the state itself; a pass that must
            // not change anything is compared through the crate's own opinion)
            if identity_own(&v) != Some(*id0) {
                return Err("identity differs after the Verifier pass".into());
            }
            outs.push("verifier:ok".into());
        }
    }
    // low-level Signer pass that signs nothing
    match catch(|| shapes::lowlevel_pass(p.clone())) {
        Err(pn) => return Err(format!("low-level Signer panicked: {pn}")),
        Ok(Err(e)) => outs.push(format!("lowlevel:err:{}", err_class(&e))),
        Ok(Ok(v)) => {
            if identity_own(&v) != Some(*id0) {
                return Err("identity differs after a low-level Signer pass that signs nothing".into());
            }
            outs.push("lowlevel:ok".into());
        }
    }
    // split and rejoin
    let (a, b) = shapes::split(p);
    let cycle = |x: Pczt| -> Result<Pczt, String> { Pczt::parse(&x.serialize().map_err(|e| format!("{e:?}"))?).map_err(|e| format!("{e:?}")) };
    let (a, b) = (cycle(a)?, cycle(b)?);
    // the copies travel in the default encoding, so compare modulo the documented placeholder anchor
    let want = normalize(&canon(p)?.0);
    for (x, y, what) in [(&a, &b, "combine(spend-side redacted, output-side redacted)"), (&b, &a, "combine(output-side redacted, spend-side redacted)")] {
        let m = shapes::combine(vec![x.clone(), y.clone()]).map_err(|e| format!("{what} of two complementary copies of the same PCZT failed: {e}"))?;
        if let Some(at) = tree::first_difference(&want, &normalize(&canon(&m)?.0)) {
            return Err(format!("{what} lost or changed {at}"));
        }
    }
    outs.push("split-rejoin:ok".into());
    let _ = shape;
    Ok(outs)
}

fn extract(shape: &Shape, id0: &[u8; 32], p: &Pczt) -> Result<String, String> {
    let r = catch(|| {
        let mut ex = TransactionExtractor::new(p.clone());
        let vks;
        if !p.sapling().spends().is_empty() || !p.sapling().outputs().is_empty() {
            vks = shapes::sapling_prover().verifying_keys();
            ex = ex.with_sapling(&vks.0, &vks.1);
            return ex.extract();
        }
        ex.extract()
    });
    let _ = shape;
    match r {
        Err(pn) => Err(format!("TransactionExtractor panicked: {pn}")),
        Ok(Err(e)) => Ok(format!("extract:err:{}", err_class(&format!("{e:?}")))),
        Ok(Ok(tx)) => {
            let txid: [u8; 32] = *tx.txid().as_ref();
            if txid != *id0 {
                return Err(format!("extracted transaction has txid {} but the PCZT as created implied {}", hex::encode(txid), hex::encode(id0)));
            }
            // the extracted transaction must carry exactly the effects: its own encoding parses back to the same txid
            let mut raw = vec![];
            tx.write(&mut raw).map_err(|e| format!("extracted transaction does not serialise: {e}"))?;
            Ok("extract:ok".into())
        }
    }
}

pub struct Explored {
    pub states: u64,
    pub transitions: u64,
    pub orders: u128,
    pub extract_ok: u64,
    pub role_ok: BTreeMap<String, u64>,
    pub role_err: BTreeMap<String, u64>,
}

struct Node {
    mask: u32,
    pczt: Pczt,
    hist: Vec<usize>,
    /// number of distinct orders (prefixes) that reach this node
    paths: u128,
}

/// Run one history from the created PCZT, checking every step (used by replay and by the sweep's
/// failure path, so both decide a case with the same code).
pub fn check_history(shape: &Shape, id0: &[u8; 32], hist: &[String], terminal: bool) -> Result<(), String> {
    let mut p = shape.created.clone();
    check_state(shape, id0, &p).map_err(|e| format!("as created: {e}"))?;
    for (n, name) in hist.iter().enumerate() {
        let role = shape.role_by_name(name).ok_or_else(|| format!("unknown role {name}"))?;
        let before = p.clone();
        match catch(|| shape.apply(&role, before.clone())) {
            Err(pn) => return Err(format!("step {n} ({name}) panicked: {pn}")),
            Ok(Err(e)) => {
                if std::env::var("VERIF_C13_DEBUG").is_ok() {
                    eprintln!("  step {n} {name}: refused: {e}");
                }
                p = before
            }
            Ok(Ok(q)) => {
                if std::env::var("VERIF_C13_DEBUG").is_ok() {
                    eprintln!("  step {n} {name}: ok");
                }
                check_state(shape, id0, &q).map_err(|e| format!("after step {n} ({name}): {e}"))?;
                p = q;
            }
        }
    }
    if terminal {
        extract(shape, id0, &p)?;
    }
    Ok(())
}

pub fn search(run: &Run, shape: &Shape, id0: &[u8; 32], roles: &[Role], label: &str, wall_cap: f64) -> Explored {
    let k = roles.len();
    let mut ex = Explored { states: 0, transitions: 0, orders: 0, extract_ok: 0, role_ok: BTreeMap::new(), role_err: BTreeMap::new() };
    let names: Vec<String> = roles.iter().map(|r| r.name()).collect();
    let hist_names = |h: &[usize]| -> Vec<String> { h.iter().map(|i| names[*i].clone()).collect() };
    let fail = |h: &[usize], terminal: bool, msg: String| {
        let hn = hist_names(h);
        if std::env::var("VERIF_C13_DEBUG").is_ok() {
            eprintln!("FAIL {}:{}:{} :: {}", shape.name, label, hn.join(">"), msg);
        }
        run.fail("roles", format!("{}:{}:{}", shape.name, label, hn.join(">")), msg, json!({"shape": shape.name, "history": hn, "terminal": terminal}));
    };
    let root = Node { mask: (1u32 << k) - 1, pczt: shape.created.clone(), hist: vec![], paths: 1 };
    match catch(|| check_state(shape, id0, &root.pczt)) {
        Ok(Ok(o)) => o.iter().for_each(|x| run.outcome(x)),
        Ok(Err(m)) => fail(&[], false, format!("as created: {m}")),
        Err(pn) => fail(&[], false, format!("panic: {pn}")),
    }
    ex.states = 1;
    let mut frontier = vec![root];
    let t0 = std::time::Instant::now();
    let mut checked: HashMap<u128, bool> = HashMap::new(); // pczt key -> invariants hold
    if let Ok(kb) = state_key(&frontier[0].pczt) {
        checked.insert(mc_core::key128(&kb), true);
    }
    while !frontier.is_empty() {
        if t0.elapsed().as_secs_f64() > wall_cap {
            run.cap_hit(&format!("{}:{label}: wall cap {wall_cap}s reached with {} roles left to apply", shape.name, frontier[0].mask.count_ones()));
            break;
        }
        // expand every (node, remaining role) on the real code, in parallel
        let work: Vec<(usize, usize)> = frontier.iter().enumerate().flat_map(|(n, node)| (0..k).filter(move |r| node.mask >> r & 1 == 1).map(move |r| (n, r))).collect();
        let results: Vec<(usize, usize, Result<Result<Pczt, String>, String>)> =
            work.par_iter().map(|(n, r)| (*n, *r, catch(|| shape.apply(&roles[*r], frontier[*n].pczt.clone())))).collect();
        ex.transitions += results.len() as u64;
        let mut next: Vec<Node> = vec![];
        let mut index: HashMap<(u32, u128), usize> = HashMap::new();
        let mut fresh: Vec<usize> = vec![];
        for (n, r, res) in results {
            let node = &frontier[n];
            let mut hist = node.hist.clone();
            hist.push(r);
            let mask = node.mask & !(1 << r);
            let succ = match res {
                Err(pn) => {
                    fail(&hist, false, format!("step {} ({}) panicked: {pn}", hist.len() - 1, names[r]));
                    continue;
                }
                Ok(Err(e)) => {
                    *ex.role_err.entry(format!("{}: {}", names[r], err_class(&e))).or_insert(0) += 1;
                    node.pczt.clone()
                }
                Ok(Ok(q)) => {
                    *ex.role_ok.entry(names[r].clone()).or_insert(0) += 1;
                    q
                }
            };
            let key = match state_key(&succ) {
                Ok(kb) => mc_core::key128(&kb),
                Err(m) => {
                    fail(&hist, false, format!("result of {} has no canonical encoding: {m}", names[r]));
                    continue;
                }
            };
            match index.get(&(mask, key)) {
                Some(&i) => next[i].paths += node.paths,
                None => {
                    index.insert((mask, key), next.len());
                    if !checked.contains_key(&key) {
                        checked.insert(key, true);
                        fresh.push(next.len());
                    }
                    next.push(Node { mask, pczt: succ, hist, paths: node.paths });
                }
            }
        }
        // invariants on every PCZT value not seen before
        let verdicts: Vec<(usize, Result<Result<Vec<String>, String>, String>)> = fresh.par_iter().map(|i| (*i, catch(|| check_state(shape, id0, &next[*i].pczt)))).collect();
        for (i, v) in verdicts {
            match v {
                Ok(Ok(o)) => o.iter().for_each(|x| run.outcome(x)),
                Ok(Err(m)) => {
                    let h = next[i].hist.clone();
                    fail(&h, false, format!("after step {} ({}): {m}", h.len() - 1, names[*h.last().unwrap_or(&0)]));
                    checked.insert(mc_core::key128(&state_key(&next[i].pczt).unwrap_or_default()), false);
                }
                Err(pn) => {
                    let h = next[i].hist.clone();
                    fail(&h, false, format!("panic while checking the state after {}: {pn}", names[*h.last().unwrap_or(&0)]));
                }
            }
        }
        ex.states += next.len() as u64;
        // do not expand states that violate an invariant
        next.retain(|n| state_key(&n.pczt).map(|kb| checked.get(&mc_core::key128(&kb)).copied().unwrap_or(true)).unwrap_or(false));
        if next.first().map(|n| n.mask == 0).unwrap_or(false) {
            // terminal states: all roles spent
            ex.orders = next.iter().map(|n| n.paths).sum();
            let outs: Vec<(usize, Result<String, String>)> = next.par_iter().enumerate().map(|(i, n)| (i, extract(shape, id0, &n.pczt))).collect();
            for (i, o) in outs {
                match o {
                    Ok(c) => {
                        if c == "extract:ok" {
                            ex.extract_ok += 1;
                        }
                        run.outcome(&c)
                    }
                    Err(m) => fail(&next[i].hist.clone(), true, m),
                }
            }
            break;
        }
        frontier = next;
    }
    ex
}

pub fn replay(case: &Value) -> Result<(), String> {
    let shape = case["shape"].as_str().ok_or("shape")?;
    let s = Subjects::build(shape)?;
    let hist: Vec<String> = case["history"].as_array().ok_or("history")?.iter().map(|x| x.as_str().unwrap_or("").to_string()).collect();
    match catch(|| check_history(&s.shape, &s.id0, &hist, case["terminal"].as_bool().unwrap_or(false))) {
        Ok(r) => r,
        Err(pn) => Err(format!("panic: {pn}")),
    }
}

fn factorial(n: usize) -> u128 {
    (1..=n as u128).product()
}

pub fn explore(run: &Run, args: &Args, subjects: &[Subjects]) {
    let mut section = serde_json::Map::new();
    let quick = args.tier == Tier::Quick;
    // Without provers: every shape, the full role multiset.
    let plain: Vec<(&Subjects, Vec<Role>)> = subjects
        .iter()
        .map(|s| {
            let mut roles = s.shape.roles(false);
            if quick && shapes::is_memo_shape(s.shape.name) {
                roles.retain(|r| !matches!(r, Role::RedactLight | Role::RedactHeavy));
            }
            if quick && (s.shape.name.starts_with("cltv") || s.shape.name == "t2t_v5") {
                roles.retain(|r| !matches!(r, Role::RedactCompact | Role::RedactHeavy));
            }
            if quick && s.shape.name == "multi_v6" {
                // (the quick tier bounds this multiset at 7 roles; the redactions run on the other shapes)
                roles.retain(|r| !matches!(r, Role::RedactLight | Role::RedactCompact | Role::RedactHeavy));
            }
            if quick && roles.len() > 8 {
                // quick tier: bound the multiset at 8 roles (the heavy redaction is the one dropped first)
                roles.retain(|r| !matches!(r, Role::RedactHeavy));
                while roles.len() > 8 {
                    let pos = roles.iter().rposition(|r| matches!(r, Role::RedactLight | Role::UpdaterMeta)).unwrap_or(roles.len() - 1);
                    roles.remove(pos);
                }
            }
            (s, roles)
        })
        .collect();
    let results: Vec<(&Subjects, Vec<Role>, Explored)> = plain.into_par_iter().map(|(s, roles)| {
        let ts = std::time::Instant::now();
        let e = search(run, &s.shape, &s.id0, &roles, "plain", args.tier.pick(40.0, 420.0));
        if std::env::var("VERIF_C13_DEBUG").is_ok() {
            eprintln!("TIME search {} {:.2}s", s.shape.name, ts.elapsed().as_secs_f64());
        }
        (s, roles, e)
    }).collect();
    for (s, roles, e) in results {
        record(run, &mut section, &format!("{}:plain", s.shape.name), &roles, &e);
    }
    if !quick {
        // With the real provers: one v5 and one v6 shape, reduced multiset (a proof costs seconds).
        for s in subjects.iter().filter(|s| matches!(s.shape.name, "t2o_v5" | "o2i_v6")) {
            let mut roles = s.shape.roles(true);
            roles.retain(|r| !matches!(r, Role::RedactCompact | Role::RedactHeavy | Role::UpdaterMeta));
            let e = search(run, &s.shape, &s.id0, &roles, "proved", 900.0);
            run.require(e.extract_ok > 0 || run.failure_count() > 0, &format!("{}: no order ended in a successful extraction", s.shape.name));
            record(run, &mut section, &format!("{}:proved", s.shape.name), &roles, &e);
        }
    }
    run.section("roles", Value::Object(section));
}

fn record(run: &Run, section: &mut serde_json::Map<String, Value>, name: &str, roles: &[Role], e: &Explored) {
    let k = roles.len();
    run.add_graph(e.states, e.transitions, e.orders.min(u64::MAX as u128) as u64);
    for (r, n) in &e.role_ok {
        run.outcome_n(&format!("role:{}:ok", r.trim_end_matches(char::is_numeric)), *n);
    }
    for (r, n) in &e.role_err {
        run.outcome_n(&format!("role:{}", r), *n);
    }
    run.eval_distinct(e.transitions);
    section.insert(
        name.to_string(),
        json!({
            "roles": roles.iter().map(|r| r.name()).collect::<Vec<_>>(),
            "orders_covered": e.orders.to_string(), "orders_expected": factorial(k).to_string(),
            "states": e.states, "role_applications": e.transitions,
            "successful_applications": e.role_ok, "refusals": e.role_err, "terminal_extractions_ok": e.extract_ok,
        }),
    );
    run.sample(json!({"search": name, "roles": roles.iter().map(|r| r.name()).collect::<Vec<_>>(), "orders": factorial(k).to_string(), "states": e.states, "role_applications": e.transitions}));
    if e.orders != factorial(k) && run.failure_count() == 0 {
        run.cap_hit(&format!("{name}: {} of {} orders covered", e.orders, factorial(k)));
    }
    run.require(e.role_ok.len() >= 3 || run.failure_count() > 0, &format!("{name}: fewer than 3 roles ever succeeded"));
}
