//! (2) Combination laws over the mechanically derived field lattice, and (3) encoding of every copy.

use super::shapes::{self, Role, Shape};
use super::tree::{self, Atom, T};
use super::{canon, canon_bytes, encoding_check, identity, parse_tree};
use mc_core::{catch, Args, Run};
use pczt::Pczt;
use rayon::prelude::*;
use serde_json::{json, Value};
use std::collections::{BTreeMap, BTreeSet};

/// The PCZTs of one shape that serve as tops of a lattice.
pub struct Subjects {
    pub shape: Shape,
    /// Identity of the transaction as created, before any role ran.
    pub id0: [u8; 32],
    /// Creator output taken through IoFinalizer, Updater(s), every Signer and the SpendFinalizer.
    pub maximal: Pczt,
}

impl Subjects {
    pub fn build(name: &str) -> Result<Subjects, String> {
        let mut shape = shapes::build_shape(name)?;
        // The builder leaves the optional effecting fields at their defaults (lock time 0, final
        // sequence), for which "field dropped" and "field kept" are the same transaction. Give them
        // non-default values, as a Creator / Constructor may, so that a role that loses one of
        // them changes the identity.
        let (mut t, _) = canon(&shape.created)?;
        *t.get_mut(&[tree::Step::Field("global"), tree::Step::Field("fallback_lock_time")]).ok_or("no fallback_lock_time")? = T::Some(Box::new(T::U32(77)));
        let inputs = [tree::Step::Field("transparent"), tree::Step::Inner, tree::Step::Field("inputs")];
        let n = t.get(&inputs).map(|i| i.items().len()).unwrap_or(0);
        for i in 0..n {
            let mut at = inputs.to_vec();
            at.extend([tree::Step::Index(i), tree::Step::Field("sequence")]);
            *t.get_mut(&at).ok_or("no sequence")? = T::Some(Box::new(T::U32(0xffff_fffe)));
        }
        for (i, height, time) in shapes::required_lock_times(name) {
            for (field, v) in [("required_height_lock_time", height), ("required_time_lock_time", time)] {
                if let Some(v) = v {
                    let mut at = inputs.to_vec();
                    at.extend([tree::Step::Index(i), tree::Step::Field(field)]);
                    *t.get_mut(&at).ok_or("no required lock time field")? = T::Some(Box::new(T::U32(v)));
                }
            }
        }
        shape.created = parse_tree(&t).map_err(|e| format!("created PCZT with non-default lock time and sequence: {e}"))?;
        // (a disagreement between the identity opinions on the PCZT as created is a verdict, not a
        // machinery error: the caller recognises the prefix)
        let id0 = identity(&shape.created).map_err(|e| format!("identity: {e}"))?.ok_or("identity: the identity of the PCZT as created is not computable")?;
        let mut p = shape.created.clone();
        for r in shape.roles(false) {
            if matches!(r, Role::RedactLight | Role::RedactCompact | Role::RedactHeavy) {
                continue;
            }
            p = shape.apply(&r, p).map_err(|e| format!("canonical order, role {}: {e}", r.name()))?;
            // (a verdict, like the identity as created: the maximal PCZT must describe the same transaction)
            match identity(&p).map_err(|e| format!("identity: canonical order, after {}: {e}", r.name()))? {
                Some(id) if id == id0 => {}
                Some(id) => return Err(format!("identity: canonical order, after {}: effects identity changed: {} (as created: {})", r.name(), hex::encode(id), hex::encode(id0))),
                None => return Err(format!("identity: canonical order, after {}: effects identity is no longer computable", r.name())),
            }
        }
        Ok(Subjects { shape, id0, maximal: p })
    }

    pub fn base(&self, base: &str) -> Result<Base, String> {
        let name = self.shape.name;
        // The memo shapes (6-7 actions) exist for the encodings of the memo representations: their
        // lattices are structural (encoding of every copy, combination laws); the identity of
        // their states is checked by the role search.
        let real = !shapes::is_memo_shape(name);
        match base {
            "created" => Base::new(name, base, &self.shape.created, real),
            "maximal" => Base::new(name, base, &self.maximal, real),
            // the v2-only representation: cv_net / cmx removed and the encrypted notes replaced by
            // their stripped memo plaintexts wherever they can be recomputed
            "compacted" => Base::new(name, base, &self.shape.apply(&Role::RedactCompact, self.maximal.clone())?, real),
            "saturated" => {
                let (t, _) = canon(&self.maximal)?;
                let (sat, filled, unfilled) = saturate(&t);
                let p = parse_tree(&sat).map_err(|e| format!("saturated tree: {e}"))?;
                let mut b = Base::new(name, base, &p, false)?;
                b.filled = filled;
                b.unfilled = unfilled;
                Ok(b)
            }
            _ => Err(format!("unknown base {base}")),
        }
    }
}

pub const BASES: &[&str] = &["created", "maximal", "compacted", "saturated"];

/// Optional fields the documentation lists as transaction-effecting (used where the identity of a
/// synthetic subject cannot be computed; cross-checked against the mechanical classification).
const EFFECTING_NAMES: &[&str] = &["fallback_lock_time", "sequence", "required_time_lock_time", "required_height_lock_time", "anchor"];

#[derive(Clone, Copy, Debug, PartialEq, Eq)]
pub enum Class {
    /// Removal makes the encoding unparseable (counted and listed).
    Required,
    /// Removal changes (or destroys) the transaction identity: copies that differ in it describe different transactions.
    Effecting,
    Free,
}

fn saturate(t: &T) -> (T, Vec<String>, Vec<String>) {
    let mut cur = t.clone();
    let (mut filled, mut unfilled) = (vec![], vec![]);
    for path in tree::nones(t) {
        if path.len() == 1 {
            continue; // an absent bundle, not a field
        }
        let mut ok = false;
        for f in tree::fillers() {
            let mut cand = cur.clone();
            if let Some(slot) = cand.get_mut(&path) {
                *slot = T::Some(Box::new(f));
            }
            if parse_tree(&cand).is_ok() {
                cur = cand;
                ok = true;
                break;
            }
        }
        if ok { &mut filled } else { &mut unfilled }.push(tree::path_string(&path));
    }
    for path in tree::empty_maps(t) {
        let mut ok = false;
        for (k, v) in tree::entry_fillers() {
            let mut cand = cur.clone();
            if let Some(T::Map(kv)) = cand.get_mut(&path) {
                kv.push((k, v));
            }
            if parse_tree(&cand).is_ok() {
                cur = cand;
                ok = true;
                break;
            }
        }
        if ok { &mut filled } else { &mut unfilled }.push(tree::path_string(&path));
    }
    (cur, filled, unfilled)
}

pub struct Base {
    pub subject: String,
    pub base: String,
    pub real: bool,
    pub top: T,
    pub top_id: Option<[u8; 32]>,
    pub atoms: Vec<Atom>,
    pub class: Vec<Class>,
    pub ids: BTreeMap<String, usize>,
    pub filled: Vec<String>,
    pub unfilled: Vec<String>,
    pub classify_failures: Vec<(String, String)>,
    /// Parsed copies with at most one free atom (shared by the pair enumeration).
    small: std::sync::Mutex<BTreeMap<BTreeSet<usize>, Pczt>>,
}

impl Base {
    pub fn new(subject: &str, base: &str, top: &Pczt, real: bool) -> Result<Base, String> {
        // the top itself must survive its own encoding (a verdict, not a machinery error)
        match catch(|| encoding_check(top)) {
            Ok(Ok(_)) => {}
            Ok(Err(e)) => return Err(format!("encoding: {subject}/{base}: {e}")),
            Err(pn) => return Err(format!("encoding: {subject}/{base}: panic: {pn}")),
        }
        let (t, _) = canon(top)?;
        parse_tree(&t).map_err(|e| format!("{subject}/{base}: the encoder disagrees with the crate on the unedited subject: {e}"))?;
        let top_id = if real { identity(top).map_err(|e| format!("identity: {subject}/{base}: {e}"))? } else { None };
        if real && top_id.is_none() {
            return Err(format!("{subject}/{base}: identity of the top is not computable"));
        }
        let atoms = tree::atoms(&t);
        let classify_failures = vec![];
        let documented = |a: &Atom| a.path.len() == 1 || (!a.is_entry && EFFECTING_NAMES.contains(&tree::last_field(&a.path)));
        let mut class: Vec<Class> = atoms
            .par_iter()
            .map(|a| {
                let mut c = t.clone();
                tree::remove(&mut c, a);
                let p = match parse_tree(&c) {
                    Ok(p) => p,
                    Err(_) => return Class::Required,
                };
                if documented(a) {
                    return Class::Effecting;
                }
                // removal on its own changes or destroys the identity (also: another field depends
                // on this one, e.g. a note's rseed is only interpretable next to its rho)
                if real && !matches!(catch(|| super::identity_own(&p)), Ok(id) if id.is_some() && id == top_id) {
                    return Class::Effecting;
                }
                Class::Free
            })
            .collect();
        if real {
            // Which of the remaining atoms carry the identity? Walk them from the last to the
            // first, removing cumulatively; an atom whose removal now changes or destroys the
            // identity stays (it is kept in every copy, like the documented effecting fields).
            // This also settles effecting data that is carried redundantly (cv_net / cmx / the
            // encrypted note can be recomputed from the note fields): the explicit commitments
            // come first in document order, so they are the ones that stay. The classifier is
            // the crate's own identity; the full three-way identity is a verdict on the copies.
            let mut cur = t.clone();
            for i in (0..atoms.len()).rev() {
                if class[i] != Class::Free {
                    continue;
                }
                let mut c = cur.clone();
                if !tree::remove(&mut c, &atoms[i]) {
                    continue;
                }
                let same = parse_tree(&c).ok().and_then(|p| catch(|| super::identity_own(&p)).ok()).map(|id| id.is_some() && id == top_id).unwrap_or(false);
                if same {
                    cur = c;
                } else {
                    class[i] = Class::Effecting;
                }
            }
        }
        let ids = atoms.iter().enumerate().map(|(i, a)| (a.id(), i)).collect();
        Ok(Base { subject: subject.into(), base: base.into(), real, top: t, top_id, atoms, class, ids, filled: vec![], unfilled: vec![], classify_failures, small: Default::default() })
    }

    pub fn free(&self) -> Vec<usize> {
        (0..self.atoms.len()).filter(|i| self.class[*i] == Class::Free).collect()
    }
    pub fn effecting(&self) -> Vec<usize> {
        (0..self.atoms.len()).filter(|i| self.class[*i] == Class::Effecting).collect()
    }

    /// The tree of the copy that keeps the free atoms in `keep` (and all required / effecting atoms
    /// except those in `drop`).
    pub fn copy_tree(&self, keep: &BTreeSet<usize>, drop: &BTreeSet<usize>) -> T {
        let mut t = self.top.clone();
        // inner atoms first, so that a removed outer atom does not hide them
        for i in (0..self.atoms.len()).rev() {
            let remove = match self.class[i] {
                Class::Free => !keep.contains(&i),
                _ => drop.contains(&i),
            };
            if remove {
                tree::remove(&mut t, &self.atoms[i]);
            }
        }
        t
    }

    pub fn copy(&self, keep: &BTreeSet<usize>) -> Result<Pczt, String> {
        if keep.len() <= 1 {
            if let Some(p) = self.small.lock().unwrap().get(keep) {
                return Ok(p.clone());
            }
        }
        let p = parse_tree(&self.copy_tree(keep, &BTreeSet::new())).map_err(|e| format!("copy {:?} does not parse: {e}", self.names(keep)))?;
        if keep.len() <= 1 {
            self.small.lock().unwrap().insert(keep.clone(), p.clone());
        }
        Ok(p)
    }

    /// The canonical bytes of a copy, by construction (the postcard encoding of its tree).
    pub fn copy_bytes(&self, keep: &BTreeSet<usize>) -> Vec<u8> {
        tree::pczt_bytes(2, &self.copy_tree(keep, &BTreeSet::new()))
    }

    pub fn names(&self, s: &BTreeSet<usize>) -> Vec<String> {
        s.iter().map(|i| self.atoms[*i].id()).collect()
    }

    fn set_of(&self, v: &Value) -> Result<BTreeSet<usize>, String> {
        v.as_array()
            .ok_or("expected a list of atom ids")?
            .iter()
            .map(|x| {
                let id = x.as_str().ok_or("atom id must be a string")?;
                if id == "*" {
                    return Err("wildcard handled by caller".to_string());
                }
                self.ids.get(id).copied().ok_or_else(|| format!("no atom {id} in {}/{}", self.subject, self.base))
            })
            .collect()
    }

    /// One atom per struct kind (the path with indices and keys erased, minus the field name).
    pub fn reduced(&self, n: usize) -> Vec<usize> {
        let kind = |a: &Atom| -> String {
            let mut p = a.path.clone();
            if a.is_entry {
                // the entry's kind is the map it lives in
                p.pop();
            } else {
                while matches!(p.last(), Some(tree::Step::Inner)) {
                    p.pop();
                }
                p.pop();
            }
            tree::path_string(&p.into_iter().filter(|s| matches!(s, tree::Step::Field(_))).collect())
        };
        let mut by_kind: Vec<(String, Vec<usize>)> = vec![];
        for i in self.free() {
            let k = if self.atoms[i].is_entry { format!("{}{{}}", kind(&self.atoms[i])) } else { kind(&self.atoms[i]) };
            match by_kind.iter_mut().find(|(kk, _)| *kk == k) {
                Some((_, v)) => v.push(i),
                None => by_kind.push((k, vec![i])),
            }
        }
        // interleave the bundles (global, transparent, sapling, orchard, ironwood), so that a small
        // reduced set still has an atom of every bundle
        let bundle = |k: &str| k.split(['.', '{']).next().unwrap_or("").to_string();
        let mut bundles: Vec<String> = vec![];
        for (k, _) in &by_kind {
            if !bundles.contains(&bundle(k)) {
                bundles.push(bundle(k));
            }
        }
        let mut order: Vec<usize> = vec![];
        let mut depth = 0;
        while order.len() < by_kind.len() {
            for bn in &bundles {
                if let Some((pos, _)) = by_kind.iter().enumerate().filter(|(_, (k, _))| bundle(k) == *bn).nth(depth) {
                    order.push(pos);
                }
            }
            depth += 1;
        }
        let mut out = vec![];
        let mut round = 0;
        while out.len() < n && by_kind.iter().any(|(_, v)| v.len() > round) {
            for pos in &order {
                if out.len() < n {
                    if let Some(i) = by_kind[*pos].1.get(round) {
                        out.push(*i);
                    }
                }
            }
            round += 1;
        }
        out
    }
}

fn same_bytes(got: &Pczt, want: &[u8], what: &str) -> Result<(), String> {
    if canon_bytes(got)? == want {
        return Ok(());
    }
    let (t, _) = canon(got)?;
    let wt = canon(&Pczt::parse(want).map_err(|e| format!("{e:?}"))?)?.0;
    Err(format!("{what}: result differs from the union of the copies at {}", tree::first_difference(&wt, &t).unwrap_or_else(|| "?".into())))
}

// ---------------------------------------------------------------------------------------------
// Checks. Each returns an outcome class or a violation message and is used by sweep and replay.

/// Encoding of one copy (+ identity on real subjects).
fn check_copy(b: &Base, keep: &BTreeSet<usize>, with_identity: bool) -> Result<String, String> {
    let p = b.copy(keep)?;
    let enc = encoding_check(&p)?;
    if with_identity && b.real {
        match identity(&p)? {
            id if id == b.top_id => {}
            id => return Err(format!("copy {:?} keeps every effecting field but its identity is {:?}, the top's is {:?}", b.names(keep), id.map(hex::encode), b.top_id.map(hex::encode))),
        }
    }
    Ok(format!("copy:{enc}"))
}

/// combine(Q_S, Q_T) == combine(Q_T, Q_S) == Q_{S u T}; combine(Q_S, Q_S) == Q_S.
fn check_union(b: &Base, s: &BTreeSet<usize>, t: &BTreeSet<usize>) -> Result<String, String> {
    let x = b.copy(s)?;
    let y = b.copy(t)?;
    let u: BTreeSet<usize> = s.union(t).copied().collect();
    // (that the union copy itself parses to the value its tree denotes is the "copy" check)
    let want = b.copy_bytes(&u);
    let xy = shapes::combine(vec![x.clone(), y.clone()]).map_err(|e| format!("combine(Q_S, Q_T) failed with {e} although the copies agree on every shared field"))?;
    same_bytes(&xy, &want, "combine(Q_S, Q_T)")?;
    let yx = shapes::combine(vec![y.clone(), x.clone()]).map_err(|e| format!("combine(Q_T, Q_S) failed with {e} although the copies agree on every shared field"))?;
    same_bytes(&yx, &want, "combine(Q_T, Q_S)")?;
    if t.is_empty() || s == t || s.len() > 1 {
        let xb = b.copy_bytes(s);
        let xx = shapes::combine(vec![x.clone(), x.clone()]).map_err(|e| format!("combine(Q_S, Q_S) failed with {e}"))?;
        same_bytes(&xx, &xb, "combine(Q_S, Q_S)")?;
        let one = shapes::combine(vec![x.clone()]).map_err(|e| format!("combine([Q_S]) failed with {e}"))?;
        same_bytes(&one, &xb, "combine([Q_S])")?;
    }
    Ok("union:ok".into())
}

/// All binary bracketings of `items` in the given order (as index trees), evaluated on the real combiner.
fn bracketings(ps: &[Pczt]) -> Vec<Result<Pczt, String>> {
    if ps.len() == 1 {
        return vec![Ok(ps[0].clone())];
    }
    let mut out = vec![];
    for split in 1..ps.len() {
        for l in bracketings(&ps[..split]) {
            for r in bracketings(&ps[split..]) {
                out.push(match (&l, &r) {
                    (Ok(l), Ok(r)) => shapes::combine(vec![l.clone(), r.clone()]),
                    (Err(e), _) | (_, Err(e)) => Err(e.clone()),
                });
            }
        }
    }
    out
}

fn permutations(n: usize) -> Vec<Vec<usize>> {
    if n == 0 {
        return vec![vec![]];
    }
    let mut out = vec![];
    for p in permutations(n - 1) {
        for pos in 0..n {
            let mut q = p.clone();
            q.insert(pos, n - 1);
            out.push(q);
        }
    }
    out
}

/// Every permutation and every grouping of the copies (3 or 4 of them) gives the union.
fn check_assoc(b: &Base, sets: &[BTreeSet<usize>]) -> Result<String, String> {
    let copies: Vec<Pczt> = sets.iter().map(|s| b.copy(s)).collect::<Result<_, _>>()?;
    let u: BTreeSet<usize> = sets.iter().flatten().copied().collect();
    let want = canon_bytes(&b.copy(&u)?)?;
    let mut n = 0;
    for perm in permutations(copies.len()) {
        let ps: Vec<Pczt> = perm.iter().map(|i| copies[*i].clone()).collect();
        let flat = shapes::combine(ps.clone()).map_err(|e| format!("flat combine in order {perm:?} failed with {e}"))?;
        same_bytes(&flat, &want, &format!("flat combine in order {perm:?}"))?;
        for (g, r) in bracketings(&ps).into_iter().enumerate() {
            let r = r.map_err(|e| format!("grouping #{g} of order {perm:?} failed with {e}"))?;
            same_bytes(&r, &want, &format!("grouping #{g} of order {perm:?}"))?;
            n += 1;
        }
    }
    Ok(format!("assoc:{}copies:{}groupings", copies.len(), n))
}

/// A field altered in one copy: combining it with the unaltered top must fail with DataMismatch.
fn check_conflict(b: &Base, field: &str) -> Result<String, String> {
    let path = tree::fields(&b.top).into_iter().find(|p| tree::path_string(p) == field).ok_or_else(|| format!("no field {field}"))?;
    let mut alt = b.top.clone();
    let changed = alt.get_mut(&path).map(tree::alter).unwrap_or(false);
    if !changed {
        return Ok("conflict:nothing-to-alter".into());
    }
    let q2 = match parse_tree(&alt) {
        Ok(p) => p,
        Err(_) => return Ok("conflict:altered-value-unparseable".into()),
    };
    let q = parse_tree(&b.top)?;
    for (l, r, what) in [(&q, &q2, "combine(top, altered)"), (&q2, &q, "combine(altered, top)")] {
        match shapes::combine(vec![l.clone(), r.clone()]) {
            Err(e) if e == "DataMismatch" => {}
            Err(e) => return Err(format!("{what}: expected DataMismatch, got {e}")),
            Ok(m) => {
                let got = canon_bytes(&m)?;
                let which = if got == canon_bytes(&q)? {
                    "the unaltered value"
                } else if got == canon_bytes(&q2)? {
                    "the altered value"
                } else {
                    "a mixture"
                };
                return Err(format!("{what}: the copies carry different values of {field} but combine succeeded and silently kept {which}"));
            }
        }
    }
    Ok("conflict:DataMismatch".into())
}

/// Copies that differ in a transaction-effecting atom `e`: refused, or merged keeping the field; never a panic.
fn check_effecting(b: &Base, e: usize, a: Option<usize>) -> Result<String, String> {
    let all: BTreeSet<usize> = b.free().into_iter().collect();
    let without = parse_tree(&b.copy_tree(&all, &[e].into_iter().collect())).map_err(|m| format!("copy without {}: {m}", b.atoms[e].id()))?;
    let keep: BTreeSet<usize> = a.into_iter().collect();
    let with = b.copy(&keep)?;
    // the union of the two copies: everything, except the free atoms that live inside `e`
    // (removed together with it from the first copy) and are not kept by the second
    let inside = |i: &usize| b.atoms[*i].path.len() > b.atoms[e].path.len() && b.atoms[*i].path.starts_with(&b.atoms[e].path);
    let union: BTreeSet<usize> = all.iter().copied().filter(|i| !inside(i) || keep.contains(i)).collect();
    let want = canon_bytes(&b.copy(&union)?)?;
    let mut outs = vec![];
    for (l, r) in [(&without, &with), (&with, &without)] {
        match shapes::combine(vec![l.clone(), r.clone()]) {
            Err(m) if m == "DataMismatch" => outs.push("refused"),
            Err(m) => return Err(format!("unexpected combiner error {m}")),
            Ok(m) => {
                if canon_bytes(&m)? != want {
                    return Err(format!("copies differing in {} were merged, and the result is not the union (a field was dropped)", b.atoms[e].id()));
                }
                outs.push("merged")
            }
        }
    }
    Ok(format!("effecting:{}/{}", outs[0], outs[1]))
}

/// tx_modifiable: documented per-bit merge (bits 0, 1, 7 towards false; bit 2 towards true; bits 3-6 must be 0).
fn check_flags(b: &Base, l: u8, r: u8) -> Result<String, String> {
    let path = [tree::Step::Field("global"), tree::Step::Field("tx_modifiable")];
    let mk = |v: u8| -> Result<Pczt, String> {
        let mut t = b.top.clone();
        *t.get_mut(&path).ok_or("no global.tx_modifiable")? = T::U8(v);
        parse_tree(&t)
    };
    let (pl, pr) = (mk(l)?, mk(r)?);
    let expect: Option<u8> = if (l | r) & 0b0111_1000 != 0 { None } else { Some((l & r & 0b1000_0011) | ((l | r) & 0b0000_0100)) };
    let got = shapes::combine(vec![pl, pr]);
    match (got, expect) {
        (Ok(m), Some(e)) => {
            let (t, _) = canon(&m)?;
            let f = t.get(&path).and_then(|x| x.as_u64());
            if f != Some(e as u64) {
                return Err(format!("tx_modifiable {l:#010b} + {r:#010b} merged to {:?}, documented result {e:#010b}", f));
            }
            // nothing else may change
            let mut t2 = t.clone();
            *t2.get_mut(&path).ok_or("no flags")? = T::U8(0);
            let mut t0 = b.top.clone();
            *t0.get_mut(&path).ok_or("no flags")? = T::U8(0);
            if let Some(at) = tree::first_difference(&t0, &t2) {
                return Err(format!("merging copies that differ only in tx_modifiable changed {at}"));
            }
            Ok("flags:merged".into())
        }
        (Err(m), None) if m == "DataMismatch" => Ok("flags:reserved-bit-refused".into()),
        (Ok(_), None) => Err(format!("tx_modifiable {l:#010b} + {r:#010b}: a reserved bit (3-6) is set but combine succeeded")),
        (Err(m), _) => Err(format!("tx_modifiable {l:#010b} + {r:#010b}: combine failed with {m}, documented result {:?}", expect)),
    }
}

fn flag_alphabet() -> Vec<u8> {
    let mut v = vec![];
    for bits in 0..16u8 {
        v.push((bits & 1) | (bits & 2) | (bits & 4) | if bits & 8 != 0 { 0x80 } else { 0 });
    }
    v.extend([0x08, 0x10, 0x20, 0x40, 0x7b, 0xff]);
    v
}

/// Lock-time alphabet: the identity implied by the PCZT (crate paths) against the reference, with
/// one symbol on each side of every branch of the BIP 370 lock-time rule and of the sequence default.
fn check_lockvar(b: &Base, case: &Value) -> Result<String, String> {
    let opt = |v: &Value| -> T {
        match v.as_u64() {
            Some(n) => T::Some(Box::new(T::U32(n as u32))),
            None => T::None,
        }
    };
    let mut t = b.top.clone();
    *t.get_mut(&[tree::Step::Field("global"), tree::Step::Field("fallback_lock_time")]).ok_or("no fallback_lock_time")? = opt(&case["fallback"]);
    let inputs = [tree::Step::Field("transparent"), tree::Step::Inner, tree::Step::Field("inputs")];
    let n = t.get(&inputs).map(|i| i.items().len()).unwrap_or(0);
    if n == 0 {
        return Ok("lockvar:no-inputs".into());
    }
    for i in 0..n {
        let sel = case["which"].as_u64().unwrap_or(0) as usize;
        let mut at = inputs.to_vec();
        at.push(tree::Step::Index(i));
        let inp = t.get_mut(&at).ok_or("no input")?;
        *inp.get_mut(&[tree::Step::Field("sequence")]).ok_or("no sequence")? = opt(&case["sequence"]);
        if i == sel % n {
            *inp.get_mut(&[tree::Step::Field("required_height_lock_time")]).ok_or("no height lock")? = opt(&case["height"]);
            *inp.get_mut(&[tree::Step::Field("required_time_lock_time")]).ok_or("no time lock")? = opt(&case["time"]);
        }
    }
    let p = parse_tree(&t)?;
    Ok(match identity(&p)? {
        Some(_) => "lockvar:agree",
        // (the crate refuses an input that carries both kinds of lock time, which BIP 370 resolves
        // in favour of the height; a refusal is not a wrong identity, so it is only recorded)
        None if super::ref244::txid(&canon(&p)?.0).is_ok() => "lockvar:refused-by-crate-only",
        None => "lockvar:uncomputable",
    }
    .into())
}

/// The lists whose length a Constructor may still change, with the `tx_modifiable` bit that
/// governs each (documentation of `Global::tx_modifiable`) and the bundle whose `bsk`, once set by
/// the IO Finalizer, freezes the counts.
const LISTS: &[(&str, &str, &str, u8)] = &[
    ("transparent.inputs", "transparent", "inputs", 0b0000_0001),
    ("transparent.outputs", "transparent", "outputs", 0b0000_0010),
    ("sapling.spends", "sapling", "spends", 0b1000_0000),
    ("sapling.outputs", "sapling", "outputs", 0b1000_0000),
    ("orchard.actions", "orchard", "actions", 0b1000_0000),
    ("ironwood.actions", "ironwood", "actions", 0b1000_0000),
];

fn list_path(bundle: &'static str, list: &'static str) -> [tree::Step; 3] {
    [tree::Step::Field(bundle), tree::Step::Inner, tree::Step::Field(list)]
}

/// Copies that differ in the NUMBER of inputs / outputs / actions (one is a prefix of the other, as
/// when a Constructor appended to a copy of a still-modifiable PCZT) and in `tx_modifiable`.
///
/// Reference, from the documentation of the flags ("indicates whether transparent inputs can be
/// modified", "... outputs ...", "... shielded spends or outputs ...") and of the merge ("fail if the
/// merge would add inputs to a non-modifiable bundle"; "if bsk is set on either bundle, the IO
/// Finalizer has run, which means we cannot have differing numbers of actions"): the combination
/// exists iff, for every list whose lengths differ, the copy with FEWER entries allows that list
/// to be modified and neither copy carries the bundle's bsk; it is then the longer of each list,
/// with the flags merged bit by bit. The outcome must not depend on the order of the copies.
fn check_counts(b: &Base, case: &Value) -> Result<String, String> {
    let flags_path = [tree::Step::Field("global"), tree::Step::Field("tx_modifiable")];
    let cuts = |v: &Value| -> Vec<(usize, usize)> {
        v.as_array().map(|a| a.iter().filter_map(|c| Some((LISTS.iter().position(|l| Some(l.0) == c[0].as_str())?, c[1].as_u64()? as usize))).collect()).unwrap_or_default()
    };
    let (fa, fb) = (case["fa"].as_u64().unwrap_or(0) as u8, case["fb"].as_u64().unwrap_or(0) as u8);
    let (ca, cb) = (cuts(&case["a"]), cuts(&case["b"]));
    let len_of = |t: &T, l: usize| t.get(&list_path(LISTS[l].1, LISTS[l].2)).map(|x| x.items().len());
    let mk = |cut: &[(usize, usize)], flags: u8| -> Result<Option<(T, Pczt)>, String> {
        let mut t = b.top.clone();
        *t.get_mut(&flags_path).ok_or("no global.tx_modifiable")? = T::U8(flags);
        for (l, n) in cut {
            match t.get_mut(&list_path(LISTS[*l].1, LISTS[*l].2)) {
                Some(T::Seq(xs)) if xs.len() >= *n => xs.truncate(xs.len() - n),
                _ => return Ok(None),
            }
        }
        // a transparent bundle with nothing in it is omitted from the encoding
        let tb = [tree::Step::Field("transparent"), tree::Step::Inner];
        if let Some(x) = t.get(&tb) {
            if x.field("inputs").map(|i| i.items().is_empty()).unwrap_or(false) && x.field("outputs").map(|i| i.items().is_empty()).unwrap_or(false) {
                *t.get_mut(&[tree::Step::Field("transparent")]).ok_or("no transparent")? = T::None;
            }
        }
        Ok(parse_tree(&t).ok().map(|p| (t, p)))
    };
    let (Some((ta, pa)), Some((tb_, pb))) = (mk(&ca, fa)?, mk(&cb, fb)?) else { return Ok("counts:unrepresentable".into()) };
    // reference
    let mut allowed = true;
    let mut want = b.top.clone();
    for (l, (_, bundle, _, bit)) in LISTS.iter().enumerate() {
        let (na, nb) = (len_of(&ta, l).unwrap_or(0), len_of(&tb_, l).unwrap_or(0));
        if na == nb {
            if let (Some(T::Seq(xs)), Some(n)) = (want.get_mut(&list_path(LISTS[l].1, LISTS[l].2)), len_of(&ta, l)) {
                xs.truncate(n);
            }
            continue;
        }
        let shorter_flags = if na < nb { fa } else { fb };
        let has_bsk = |t: &T| t.get(&[tree::Step::Field(bundle), tree::Step::Inner, tree::Step::Field("bsk")]).map(|x| x.some().is_some()).unwrap_or(false);
        if shorter_flags & bit == 0 || has_bsk(&ta) || has_bsk(&tb_) {
            allowed = false;
        }
        if let Some(T::Seq(xs)) = want.get_mut(&list_path(LISTS[l].1, LISTS[l].2)) {
            xs.truncate(na.max(nb));
        }
    }
    *want.get_mut(&flags_path).ok_or("no flags")? = T::U8((fa & fb & 0b1000_0011) | ((fa | fb) & 0b0000_0100));
    let want_bytes = tree::pczt_bytes(2, &want);
    let ab = shapes::combine(vec![pa.clone(), pb.clone()]);
    let ba = shapes::combine(vec![pb, pa]);
    let describe = |r: &Result<Pczt, String>| match r {
        Ok(_) => "Ok".to_string(),
        Err(e) => format!("Err({e})"),
    };
    match (&ab, &ba) {
        (Ok(_), Err(_)) | (Err(_), Ok(_)) => return Err(format!("the outcome depends on the order of the copies: combine([A, B]) = {}, combine([B, A]) = {}", describe(&ab), describe(&ba))),
        _ => {}
    }
    for (r, what) in [(&ab, "combine([A, B])"), (&ba, "combine([B, A])")] {
        match (r, allowed) {
            (Err(e), false) if e == "DataMismatch" => {}
            (Ok(m), true) => same_bytes(m, &want_bytes, what)?,
            (Ok(_), false) => return Err(format!("{what} succeeded although a copy with fewer entries does not allow that list to be modified (or the counts are frozen by bsk): the copies conflict")),
            (Err(e), _) => return Err(format!("{what} failed with {e}; the copies do not conflict (every shorter list may be extended)")),
        }
    }
    Ok(if allowed { "counts:merged" } else { "counts:refused" }.into())
}

/// IO finalization as its own dimension: for one shielded bundle, the two copies independently
/// carry `bsk` or not, agree or not on the number of spends / outputs / actions (one copy lacks
/// the last entry of one list) and on `value_sum`, under both values of the shielded-modifiable
/// flag of each copy; both orders.
///
/// Reference, from the documentation of the merge and of the fields: a copy that carries `bsk`
/// has been through the IO Finalizer, after which counts and value sum are frozen - any
/// disagreement on them is a conflict, whichever copy comes first. Before that (neither copy
/// carries `bsk`) the copy with fewer entries must allow shielded modification; the value sum is
/// "updated by the Constructor as spends or outputs are added", so the copy with more entries
/// carries the current one, and with equal counts the two must agree. A combination keeps `bsk`
/// if either copy carried it.
fn check_frozen(b: &Base, case: &Value) -> Result<String, String> {
    let bundle: &'static str = match case["bundle"].as_str() {
        Some("sapling") => "sapling",
        Some("orchard") => "orchard",
        Some("ironwood") => "ironwood",
        _ => return Err("bundle".into()),
    };
    let list: Option<&'static str> = match case["list"].as_str() {
        Some("spends") => Some("spends"),
        Some("outputs") => Some("outputs"),
        Some("actions") => Some("actions"),
        _ => None,
    };
    let who = case["who"].as_str().unwrap_or("none"); // which copy lacks the last entry of `list`
    let bsk = case["bsk"].as_str().unwrap_or("none"); // none | a | b | both
    let vs = case["vs"].as_bool().unwrap_or(false); // copy A carries a different value_sum
    let (fa, fb) = (case["fa"].as_u64().unwrap_or(0) as u8, case["fb"].as_u64().unwrap_or(0) as u8);
    let flags_path = [tree::Step::Field("global"), tree::Step::Field("tx_modifiable")];
    let bsk_path = [tree::Step::Field(bundle), tree::Step::Inner, tree::Step::Field("bsk")];
    let vs_path = [tree::Step::Field(bundle), tree::Step::Inner, tree::Step::Field("value_sum")];
    let key = match b.top.get(&bsk_path) {
        Some(T::Some(x)) => (**x).clone(),
        Some(T::None) => T::BT(vec![0x11; 32]),
        _ => return Ok("frozen:no-such-bundle".into()),
    };
    let mk = |me: &str, flags: u8| -> Result<Option<(T, Pczt)>, String> {
        let mut t = b.top.clone();
        *t.get_mut(&flags_path).ok_or("no global.tx_modifiable")? = T::U8(flags);
        *t.get_mut(&bsk_path).ok_or("no bsk")? = if bsk == "both" || bsk == me { T::Some(Box::new(key.clone())) } else { T::None };
        if let (Some(l), true) = (list, who == me) {
            match t.get_mut(&list_path(bundle, l)) {
                Some(T::Seq(xs)) if !xs.is_empty() => xs.truncate(xs.len() - 1),
                _ => return Ok(None),
            }
        }
        if vs && me == "a" {
            tree::alter(t.get_mut(&vs_path).ok_or("no value_sum")?);
        }
        Ok(parse_tree(&t).ok().map(|p| (t, p)))
    };
    let (Some((ta, pa)), Some((tb_, pb))) = (mk("a", fa)?, mk("b", fb)?) else { return Ok("frozen:unrepresentable".into()) };
    let counts_differ = list.is_some() && who != "none";
    let finalized = bsk != "none";
    let shorter_flags = if who == "a" { fa } else { fb };
    let allowed = if finalized {
        !counts_differ && !vs
    } else if counts_differ {
        shorter_flags & 0b1000_0000 != 0
    } else {
        !vs
    };
    // the combination: the copy with more entries (either, if equal), with bsk if any copy had it
    let mut want = if who == "a" { tb_.clone() } else { ta.clone() };
    *want.get_mut(&flags_path).ok_or("no flags")? = T::U8((fa & fb & 0b1000_0011) | ((fa | fb) & 0b0000_0100));
    *want.get_mut(&bsk_path).ok_or("no bsk")? = if finalized { T::Some(Box::new(key.clone())) } else { T::None };
    let want_bytes = tree::pczt_bytes(2, &want);
    let ab = shapes::combine(vec![pa.clone(), pb.clone()]);
    let ba = shapes::combine(vec![pb, pa]);
    let describe = |r: &Result<Pczt, String>| match r {
        Ok(_) => "Ok".to_string(),
        Err(e) => format!("Err({e})"),
    };
    if ab.is_ok() != ba.is_ok() {
        return Err(format!("the outcome depends on the order of the copies: combine([A, B]) = {}, combine([B, A]) = {}", describe(&ab), describe(&ba)));
    }
    let why = if finalized { "a copy carries bsk (IO-finalized): counts and value sum are frozen" } else { "the copy with fewer entries does not allow shielded modification, or equal counts carry different value sums" };
    for (r, what) in [(&ab, "combine([A, B])"), (&ba, "combine([B, A])")] {
        match (r, allowed) {
            (Err(e), false) if e == "DataMismatch" => {}
            (Ok(m), true) => same_bytes(m, &want_bytes, what)?,
            (Ok(_), false) => return Err(format!("{what} succeeded although the copies conflict ({why})")),
            (Err(e), _) => return Err(format!("{what} failed with {e}; the copies do not conflict")),
        }
    }
    Ok(if allowed { "frozen:merged" } else { "frozen:refused" }.into())
}

pub fn check_case(b: &Base, case: &Value) -> Result<String, String> {
    let r = catch(|| -> Result<String, String> {
        match case["check"].as_str().unwrap_or("") {
            "copy" => check_copy(b, &b.set_of(&case["s"])?, case["identity"].as_bool().unwrap_or(true)),
            "union" => check_union(b, &b.set_of(&case["s"])?, &b.set_of(&case["t"])?),
            "union_top" => {
                let all: BTreeSet<usize> = b.free().into_iter().collect();
                check_union(b, &b.set_of(&case["s"])?, &all)
            }
            "assoc" => {
                let sets: Vec<BTreeSet<usize>> = case["sets"].as_array().ok_or("sets")?.iter().map(|s| b.set_of(s)).collect::<Result<_, _>>()?;
                check_assoc(b, &sets)
            }
            "conflict" => check_conflict(b, case["field"].as_str().unwrap_or("")),
            "effecting" => {
                let e = *b.ids.get(case["e"].as_str().unwrap_or("")).ok_or("no such atom")?;
                let a = match case["a"].as_str() {
                    Some(a) if !a.is_empty() => Some(*b.ids.get(a).ok_or("no such atom")?),
                    _ => None,
                };
                check_effecting(b, e, a)
            }
            "lockvar" => check_lockvar(b, case),
            "counts" => check_counts(b, case),
            "frozen" => check_frozen(b, case),
            "flags" => check_flags(b, case["l"].as_u64().unwrap_or(0) as u8, case["r"].as_u64().unwrap_or(0) as u8),
            "classify" => {
                let id = case["atom"].as_str().unwrap_or("");
                match b.classify_failures.iter().find(|(a, _)| a == id) {
                    Some((_, m)) => Err(m.clone()),
                    None => Ok("classify:ok".into()),
                }
            }
            c => Err(format!("unknown check {c}")),
        }
    });
    match r {
        Ok(x) => x,
        Err(p) => Err(format!("panic: {p}")),
    }
}

pub fn replay(case: &Value) -> Result<(), String> {
    let subject = case["subject"].as_str().ok_or("subject")?;
    let base = case["base"].as_str().ok_or("base")?;
    let b = if subject == "firmware" {
        firmware_base(base)?
    } else {
        Subjects::build(subject)?.base(base)?
    };
    if case["check"] == "top" {
        return Ok(());
    }
    check_case(&b, case).map(|_| ())
}

fn firmware_base(base: &str) -> Result<Base, String> {
    let p = Pczt::parse(&super::hex_vector()).map_err(|e| format!("firmware vector: {e:?}"))?;
    match base {
        "vector" => Base::new("firmware", base, &p, true),
        "saturated" => {
            let (t, _) = canon(&p)?;
            let (sat, filled, unfilled) = saturate(&t);
            let mut b = Base::new("firmware", base, &parse_tree(&sat)?, false)?;
            b.filled = filled;
            b.unfilled = unfilled;
            Ok(b)
        }
        _ => Err(format!("unknown base {base}")),
    }
}

fn ids(b: &Base, s: &BTreeSet<usize>) -> Value {
    json!(b.names(s))
}

fn cases_for(b: &Base, args: &Args) -> Vec<Value> {
    let mut cases = vec![];
    let free = b.free();
    let s1 = |i: usize| -> BTreeSet<usize> { [i].into_iter().collect() };
    let empty = BTreeSet::new();
    let all: BTreeSet<usize> = free.iter().copied().collect();
    let head = |check: &str| json!({"subject": b.subject, "base": b.base, "check": check});
    let with = |check: &str, extra: Value| -> Value {
        let mut v = head(check);
        for (k, x) in extra.as_object().cloned().unwrap_or_default() {
            v[k] = x;
        }
        v
    };
    for (a, _) in &b.classify_failures {
        cases.push(with("classify", json!({"atom": a})));
    }
    // copies: bottom, top, singletons (with identity); pairs get the encoding check only
    cases.push(with("copy", json!({"s": ids(b, &empty)})));
    cases.push(with("copy", json!({"s": ids(b, &all)})));
    for &i in &free {
        cases.push(with("copy", json!({"s": ids(b, &s1(i))})));
        // co-singletons: everything but one atom
        let mut co = all.clone();
        co.remove(&i);
        cases.push(with("copy", json!({"s": ids(b, &co)})));
    }
    // singletons against bottom and top, and all pairs
    // (quick tier: the pair enumeration runs on the created / maximal / saturated tops of the four
    // transaction shapes; the compacted tops and the memo shapes keep singletons and subsets)
    let pairs = args.tier == mc_core::Tier::Thorough || !(shapes::is_aux_shape(&b.subject) || b.base == "compacted");
    for (n, &i) in free.iter().enumerate() {
        cases.push(with("union", json!({"s": ids(b, &s1(i)), "t": ids(b, &empty)})));
        cases.push(with("union_top", json!({"s": ids(b, &s1(i))})));
        for &j in free[n + 1..].iter().filter(|_| pairs) {
            cases.push(with("union", json!({"s": ids(b, &s1(i)), "t": ids(b, &s1(j))})));
        }
    }
    // pairs: encoding of the two-atom copies (thorough tier; the quick tier keeps bottom, top,
    // singletons, co-singletons and the subsets of the reduced set)
    for (n, &i) in free.iter().enumerate().filter(|_| args.tier == mc_core::Tier::Thorough) {
        for &j in &free[n + 1..] {
            let s: BTreeSet<usize> = [i, j].into_iter().collect();
            cases.push(with("copy", json!({"s": ids(b, &s), "identity": false})));
        }
    }
    // all ordered pairs of subsets of the reduced set
    let red = b.reduced(args.tier.pick(5, 8));
    let subsets: Vec<BTreeSet<usize>> = (0..1u32 << red.len()).map(|m| red.iter().enumerate().filter(|(k, _)| m >> k & 1 == 1).map(|(_, i)| *i).collect()).collect();
    for s in &subsets {
        cases.push(with("copy", json!({"s": ids(b, s)})));
        for t in &subsets {
            if s <= t {
                // check_union evaluates both orders
                cases.push(with("union", json!({"s": ids(b, s), "t": ids(b, t)})));
            }
        }
    }
    // associativity: singletons and overlapping pairs over all 3- and 4-subsets of the reduced set
    let red_a = b.reduced(args.tier.pick(5, 7));
    let k = red_a.len();
    for a in 0..k {
        for c in a + 1..k {
            for d in c + 1..k {
                let (x, y, z) = (red_a[a], red_a[c], red_a[d]);
                cases.push(with("assoc", json!({"sets": [ids(b, &s1(x)), ids(b, &s1(y)), ids(b, &s1(z))]})));
                let p = |u: usize, v: usize| -> BTreeSet<usize> { [u, v].into_iter().collect() };
                cases.push(with("assoc", json!({"sets": [ids(b, &p(x, y)), ids(b, &p(y, z)), ids(b, &p(z, x))]})));
                for e in d + 1..k {
                    let w = red_a[e];
                    cases.push(with("assoc", json!({"sets": [ids(b, &s1(x)), ids(b, &s1(y)), ids(b, &s1(z)), ids(b, &s1(w))]})));
                    if args.tier == mc_core::Tier::Thorough {
                        cases.push(with("assoc", json!({"sets": [ids(b, &p(x, y)), ids(b, &p(y, z)), ids(b, &p(z, w)), ids(b, &empty)]})));
                    }
                }
            }
        }
    }
    // conflicts: every struct field and map entry altered in one copy
    for p in tree::fields(&b.top) {
        if tree::last_field(&p) == "tx_modifiable" {
            continue;
        }
        cases.push(with("conflict", json!({"field": tree::path_string(&p)})));
    }
    // effecting atoms
    for e in b.effecting() {
        cases.push(with("effecting", json!({"e": b.atoms[e].id(), "a": ""})));
        for &a in free.iter().take(3) {
            cases.push(with("effecting", json!({"e": b.atoms[e].id(), "a": b.atoms[a].id()})));
        }
    }
    // lock-time alphabet
    if b.base == "created" {
        for fallback in [Value::Null, json!(0), json!(77)] {
            for height in [Value::Null, json!(5), json!(499_999_999)] {
                for time in [Value::Null, json!(500_000_000), json!(500_000_777u32)] {
                    for sequence in [Value::Null, json!(0xffff_fffeu32), json!(0)] {
                        cases.push(with("lockvar", json!({"fallback": fallback, "height": height, "time": time, "sequence": sequence, "which": 0})));
                    }
                }
            }
        }
    }
    // differing numbers of inputs / outputs / actions x the modifiable flags of both copies
    if matches!(b.subject.as_str(), "t2t_v5" | "multi_v6") && matches!(b.base.as_str(), "created" | "maximal") {
        let flags: Vec<u8> = (0..16u8).map(|m| (m & 0b111) | if m & 8 != 0 { 0x80 } else { 0 }).collect();
        let present: Vec<&str> = LISTS.iter().filter(|l| b.top.get(&list_path(l.1, l.2)).map(|x| !x.items().is_empty()).unwrap_or(false)).map(|l| l.0).collect();
        let mut variants: Vec<(Value, Value)> = vec![];
        for l in &present {
            variants.push((json!([[l, 1]]), json!([])));
        }
        if present.contains(&"transparent.inputs") && present.contains(&"transparent.outputs") {
            // one copy lacks the last input, the other the last output; and one copy lacks both
            variants.push((json!([["transparent.inputs", 1]]), json!([["transparent.outputs", 1]])));
            variants.push((json!([["transparent.inputs", 1], ["transparent.outputs", 1]]), json!([])));
        }
        for (a, bb) in variants {
            for &fa in &flags {
                for &fb in &flags {
                    cases.push(with("counts", json!({"a": a, "b": bb, "fa": fa, "fb": fb})));
                }
            }
        }
    }
    // IO finalization (bsk) x counts x value sum x shielded-modifiable flag, per shielded bundle
    if matches!(b.subject.as_str(), "multi_v6" | "s2o_v5") && matches!(b.base.as_str(), "created" | "maximal") {
        for (bundle, lists) in [("sapling", &["spends", "outputs"][..]), ("orchard", &["actions"][..]), ("ironwood", &["actions"][..])] {
            if b.top.get(&[tree::Step::Field(bundle), tree::Step::Inner]).is_none() {
                continue;
            }
            let mut cuts: Vec<(Value, &str)> = vec![(Value::Null, "none")];
            for l in lists {
                if b.top.get(&list_path(bundle, l)).map(|x| !x.items().is_empty()).unwrap_or(false) {
                    cuts.push((json!(l), "a"));
                    cuts.push((json!(l), "b"));
                }
            }
            for bsk in ["none", "a", "b", "both"] {
                for (l, who) in &cuts {
                    for vs in [false, true] {
                        for fa in [0u8, 0x80] {
                            for fb in [0u8, 0x80] {
                                cases.push(with("frozen", json!({"bundle": bundle, "bsk": bsk, "list": l, "who": who, "vs": vs, "fa": fa, "fb": fb})));
                            }
                        }
                    }
                }
            }
        }
    }
    // flags
    if b.base == "maximal" || b.base == "vector" {
        for l in flag_alphabet() {
            for r in flag_alphabet() {
                cases.push(with("flags", json!({"l": l, "r": r})));
            }
        }
    }
    cases
}

pub fn explore(run: &Run, args: &Args, subjects: &[Subjects]) {
    let mut bases: Vec<Base> = vec![];
    let mut wanted: Vec<(Option<&Subjects>, &str)> = vec![];
    for s in subjects {
        for b in BASES {
            // quick tier: the memo shapes get the top that matters for the memo representations
            // (the created PCZT is the root of their role search), without the pair enumeration
            if args.tier == mc_core::Tier::Quick && (shapes::is_memo_shape(s.shape.name) && *b != "compacted" || s.shape.name.starts_with("cltv") && !matches!(*b, "created" | "maximal")) {
                continue;
            }
            wanted.push((Some(s), b));
        }
    }
    wanted.push((None, "vector"));
    wanted.push((None, "saturated"));
    let built: Vec<Result<Base, String>> = wanted
        .par_iter()
        .map(|(s, b)| {
            catch(|| match s {
                Some(s) => s.base(b),
                None => firmware_base(b),
            })
            .unwrap_or_else(|p| Err(format!("panic: {p}")))
        })
        .collect();
    for (b, (s, name)) in built.into_iter().zip(&wanted) {
        let subject = s.map(|s| s.shape.name).unwrap_or("firmware");
        match b {
            Ok(b) => bases.push(b),
            Err(m) if m.starts_with("identity: ") || m.starts_with("encoding: ") => {
                run.fail("lattice", format!("{subject}/{name}:{}-of-top", if m.starts_with("identity") { "identity" } else { "encoding" }), m, json!({"subject": subject, "base": name, "check": "top"}))
            }
            Err(m) => mc_core::machinery_error(&format!("C13: cannot build lattice {subject}/{name}: {m}")),
        }
    }
    if std::env::var("VERIF_C13_DEBUG").is_ok() {
        eprintln!("TIME bases built at {:.2}s", run.elapsed());
    }
    let mut summary = serde_json::Map::new();
    let mut combines = 0u64;
    let mut copies = 0u64;
    for b in &bases {
        let tb = std::time::Instant::now();
        let cases = cases_for(b, args);
        copies += cases.iter().filter(|c| c["check"] == "copy").count() as u64;
        let results: Vec<(usize, Result<String, String>)> = cases.par_iter().enumerate().map(|(i, c)| (i, check_case(b, c))).collect();
        let mut per_check: BTreeMap<String, u64> = BTreeMap::new();
        for (i, r) in results {
            let c = &cases[i];
            let key = format!("{}/{}:{}", b.subject, b.base, case_key(c));
            run.eval(key.as_bytes());
            *per_check.entry(c["check"].as_str().unwrap_or("").to_string()).or_insert(0) += 1;
            combines += match c["check"].as_str().unwrap_or("") {
                "union" | "union_top" => 2,
                "conflict" | "effecting" => 2,
                "flags" => 1,
                "counts" | "frozen" => 2,
                "assoc" => match c["sets"].as_array().map(|a| a.len()).unwrap_or(0) {
                    3 => 6 * (2 + 2 * 2),
                    _ => 24 * (3 + 5 * 3),
                },
                _ => 0,
            };
            match r {
                Ok(o) => run.outcome(&o),
                Err(m) => {
                    if std::env::var("VERIF_C13_DEBUG").is_ok() {
                        eprintln!("FAIL {key} :: {m}");
                    }
                    run.fail("lattice", key, m, c.clone())
                }
            }
        }
        // distinct PCZT values: every copy of the lattice that was materialised is a distinct value by construction
        let free = b.free();
        let required: Vec<String> = (0..b.atoms.len()).filter(|i| b.class[*i] == Class::Required).map(|i| b.atoms[i].id()).collect();
        let effecting: Vec<String> = b.effecting().into_iter().map(|i| b.atoms[i].id()).collect();
        let undocumented: Vec<&String> = effecting
            .iter()
            .filter(|id| {
                let a = &b.atoms[b.ids[*id]];
                !(a.path.len() == 1 || EFFECTING_NAMES.contains(&tree::last_field(&a.path)))
            })
            .collect();
        summary.insert(
            format!("{}/{}", b.subject, b.base),
            json!({
                "atoms": b.atoms.len(), "free": free.len(),
                "required_for_parsing": required, "effecting": effecting,
                "effecting_but_not_documented_as_such": undocumented,
                "reduced_set": b.reduced(args.tier.pick(5, 8)).into_iter().map(|i| b.atoms[i].id()).collect::<Vec<_>>(),
                "saturation_filled": b.filled.len(), "saturation_unfilled": b.unfilled,
                "cases": per_check,
            }),
        );
        if b.base == "maximal" && b.subject == "multi_v6" {
            run.sample(json!({"subject": b.subject, "base": b.base, "free_atoms": free.iter().map(|i| b.atoms[*i].id()).collect::<Vec<_>>()}));
            for check in ["union", "assoc", "conflict", "effecting", "flags", "lockvar"] {
                if let Some(c) = cases.iter().rev().find(|c| c["check"] == check) {
                    run.sample(c.clone());
                }
            }
        }
        if std::env::var("VERIF_C13_DEBUG").is_ok() {
            eprintln!("TIME {}/{} {:.2}s cases {}", b.subject, b.base, tb.elapsed().as_secs_f64(), cases.len());
        }
        run.require(free.len() >= 4 || b.atoms.len() < 16, &format!("{}/{}: fewer than 4 free atoms", b.subject, b.base));
    }
    run.section("lattice", Value::Object(summary));
    // states: distinct copies materialised = distinct (subject, base, atom set) among copy cases; transitions = combiner executions
    run.add_graph(copies, combines, 0);
}

fn case_key(c: &Value) -> String {
    let list = |v: &Value| -> String { v.as_array().map(|a| a.iter().map(|x| x.as_str().unwrap_or("").to_string()).collect::<Vec<_>>().join("+")).unwrap_or_default() };
    match c["check"].as_str().unwrap_or("") {
        "copy" => format!("copy[{}]", list(&c["s"])),
        "union" => format!("union[{}|{}]", list(&c["s"]), list(&c["t"])),
        "union_top" => format!("union_top[{}]", list(&c["s"])),
        "assoc" => format!("assoc[{}]", c["sets"].as_array().map(|a| a.iter().map(list).collect::<Vec<_>>().join("|")).unwrap_or_default()),
        "conflict" => format!("conflict[{}]", c["field"].as_str().unwrap_or("")),
        "effecting" => format!("effecting[{}|{}]", c["e"].as_str().unwrap_or(""), c["a"].as_str().unwrap_or("")),
        "flags" => format!("flags[{:#04x}|{:#04x}]", c["l"].as_u64().unwrap_or(0), c["r"].as_u64().unwrap_or(0)),
        "counts" => format!("counts[A-{}|B-{}|{:#04x}|{:#04x}]", c["a"], c["b"], c["fa"].as_u64().unwrap_or(0), c["fb"].as_u64().unwrap_or(0)),
        "frozen" => format!("frozen[{}|bsk={}|{}-lacks-last-{}|value_sum-{}|{:#04x}|{:#04x}]", c["bundle"].as_str().unwrap_or(""), c["bsk"].as_str().unwrap_or(""), c["who"].as_str().unwrap_or(""), c["list"].as_str().unwrap_or("nothing"), if c["vs"] == true { "differs" } else { "equal" }, c["fa"].as_u64().unwrap_or(0), c["fb"].as_u64().unwrap_or(0)),
        "lockvar" => format!("lockvar[fallback={},height={},time={},sequence={}]", c["fallback"], c["height"], c["time"], c["sequence"]),
        "classify" => format!("classify[{}]", c["atom"].as_str().unwrap_or("")),
        x => x.to_string(),
    }
}
