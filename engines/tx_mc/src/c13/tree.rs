//! A self-describing tree of any `Serialize` value, the postcard encoding of such a tree, and
//! path-addressed edits on it.
//!
//! `pczt::v2::Pczt` derives `Serialize`, so the field lattice of a PCZT is obtained mechanically:
//! serialize into a `T`, walk it, edit it, re-encode it with the postcard rules and hand the bytes
//! to the real `Pczt::parse`. The encoder is validated against the crate's own `serialize()` on
//! every unedited subject (`encode(tree(x)) == x.serialize()`), so an edited tree is encoded exactly
//! as the crate would encode the value it denotes.

use serde::ser::{self, Serialize};
use std::fmt;

#[derive(Clone, Debug, PartialEq, Eq, PartialOrd, Ord)]
pub enum T {
    Bool(bool),
    U8(u8),
    U16(u16),
    U32(u32),
    U64(u64),
    U128(u128),
    I8(i8),
    I16(i16),
    I32(i32),
    I64(i64),
    I128(i128),
    Str(String),
    Bytes(Vec<u8>),
    /// A non-empty fixed-length array of bytes (`[u8; N]`), kept compact.
    BT(Vec<u8>),
    /// A non-empty length-prefixed sequence of bytes (`Vec<u8>`), kept compact.
    BS(Vec<u8>),
    None,
    Some(Box<T>),
    Unit,
    /// Length-prefixed sequence.
    Seq(Vec<T>),
    /// Fixed-length tuple / array (no length prefix).
    Tuple(Vec<T>),
    Map(Vec<(T, T)>),
    Struct(Vec<(&'static str, T)>),
    /// Enum variant: index, name, payload (Unit, the newtype inner value, Tuple or Struct).
    Variant(u32, &'static str, Box<T>),
}

#[derive(Debug)]
pub struct TreeError(String);
impl fmt::Display for TreeError {
    fn fmt(&self, f: &mut fmt::Formatter<'_>) -> fmt::Result {
        f.write_str(&self.0)
    }
}
impl std::error::Error for TreeError {}
impl ser::Error for TreeError {
    fn custom<M: fmt::Display>(m: M) -> Self {
        TreeError(m.to_string())
    }
}

pub fn to_tree<V: Serialize + ?Sized>(v: &V) -> Result<T, String> {
    v.serialize(TreeSer).map_err(|e| e.0)
}

struct TreeSer;

pub struct SeqSer {
    items: Vec<T>,
    fixed: bool,
    variant: Option<(u32, &'static str)>,
}
pub struct MapSer {
    items: Vec<(T, T)>,
    key: Option<T>,
}
pub struct StructSer {
    items: Vec<(&'static str, T)>,
    variant: Option<(u32, &'static str)>,
}

impl ser::Serializer for TreeSer {
    type Ok = T;
    type Error = TreeError;
    type SerializeSeq = SeqSer;
    type SerializeTuple = SeqSer;
    type SerializeTupleStruct = SeqSer;
    type SerializeTupleVariant = SeqSer;
    type SerializeMap = MapSer;
    type SerializeStruct = StructSer;
    type SerializeStructVariant = StructSer;

    fn serialize_bool(self, v: bool) -> Result<T, TreeError> {
        Ok(T::Bool(v))
    }
    fn serialize_i8(self, v: i8) -> Result<T, TreeError> {
        Ok(T::I8(v))
    }
    fn serialize_i16(self, v: i16) -> Result<T, TreeError> {
        Ok(T::I16(v))
    }
    fn serialize_i32(self, v: i32) -> Result<T, TreeError> {
        Ok(T::I32(v))
    }
    fn serialize_i64(self, v: i64) -> Result<T, TreeError> {
        Ok(T::I64(v))
    }
    fn serialize_i128(self, v: i128) -> Result<T, TreeError> {
        Ok(T::I128(v))
    }
    fn serialize_u8(self, v: u8) -> Result<T, TreeError> {
        Ok(T::U8(v))
    }
    fn serialize_u16(self, v: u16) -> Result<T, TreeError> {
        Ok(T::U16(v))
    }
    fn serialize_u32(self, v: u32) -> Result<T, TreeError> {
        Ok(T::U32(v))
    }
    fn serialize_u64(self, v: u64) -> Result<T, TreeError> {
        Ok(T::U64(v))
    }
    fn serialize_u128(self, v: u128) -> Result<T, TreeError> {
        Ok(T::U128(v))
    }
    fn serialize_f32(self, _: f32) -> Result<T, TreeError> {
        Err(TreeError("f32 unsupported".into()))
    }
    fn serialize_f64(self, _: f64) -> Result<T, TreeError> {
        Err(TreeError("f64 unsupported".into()))
    }
    fn serialize_char(self, v: char) -> Result<T, TreeError> {
        Ok(T::Str(v.to_string()))
    }
    fn serialize_str(self, v: &str) -> Result<T, TreeError> {
        Ok(T::Str(v.to_string()))
    }
    fn serialize_bytes(self, v: &[u8]) -> Result<T, TreeError> {
        Ok(T::Bytes(v.to_vec()))
    }
    fn serialize_none(self) -> Result<T, TreeError> {
        Ok(T::None)
    }
    fn serialize_some<V: Serialize + ?Sized>(self, v: &V) -> Result<T, TreeError> {
        Ok(T::Some(Box::new(v.serialize(TreeSer)?)))
    }
    fn serialize_unit(self) -> Result<T, TreeError> {
        Ok(T::Unit)
    }
    fn serialize_unit_struct(self, _: &'static str) -> Result<T, TreeError> {
        Ok(T::Unit)
    }
    fn serialize_unit_variant(self, _: &'static str, idx: u32, name: &'static str) -> Result<T, TreeError> {
        Ok(T::Variant(idx, name, Box::new(T::Unit)))
    }
    fn serialize_newtype_struct<V: Serialize + ?Sized>(self, _: &'static str, v: &V) -> Result<T, TreeError> {
        v.serialize(TreeSer)
    }
    fn serialize_newtype_variant<V: Serialize + ?Sized>(self, _: &'static str, idx: u32, name: &'static str, v: &V) -> Result<T, TreeError> {
        Ok(T::Variant(idx, name, Box::new(v.serialize(TreeSer)?)))
    }
    fn serialize_seq(self, _: Option<usize>) -> Result<SeqSer, TreeError> {
        Ok(SeqSer { items: vec![], fixed: false, variant: None })
    }
    fn serialize_tuple(self, _: usize) -> Result<SeqSer, TreeError> {
        Ok(SeqSer { items: vec![], fixed: true, variant: None })
    }
    fn serialize_tuple_struct(self, _: &'static str, _: usize) -> Result<SeqSer, TreeError> {
        Ok(SeqSer { items: vec![], fixed: true, variant: None })
    }
    fn serialize_tuple_variant(self, _: &'static str, idx: u32, name: &'static str, _: usize) -> Result<SeqSer, TreeError> {
        Ok(SeqSer { items: vec![], fixed: true, variant: Some((idx, name)) })
    }
    fn serialize_map(self, _: Option<usize>) -> Result<MapSer, TreeError> {
        Ok(MapSer { items: vec![], key: None })
    }
    fn serialize_struct(self, _: &'static str, _: usize) -> Result<StructSer, TreeError> {
        Ok(StructSer { items: vec![], variant: None })
    }
    fn serialize_struct_variant(self, _: &'static str, idx: u32, name: &'static str, _: usize) -> Result<StructSer, TreeError> {
        Ok(StructSer { items: vec![], variant: Some((idx, name)) })
    }
    fn is_human_readable(&self) -> bool {
        false
    }
}

impl SeqSer {
    fn push<V: Serialize + ?Sized>(&mut self, v: &V) -> Result<(), TreeError> {
        self.items.push(v.serialize(TreeSer)?);
        Ok(())
    }
    fn done(self) -> T {
        let compact: Option<Vec<u8>> = if self.items.is_empty() { None } else { all_u8(&self.items) };
        let body = match (compact, self.fixed) {
            (Some(b), true) => T::BT(b),
            (Some(b), false) => T::BS(b),
            (None, true) => T::Tuple(self.items),
            (None, false) => T::Seq(self.items),
        };
        match self.variant {
            Some((i, n)) => T::Variant(i, n, Box::new(body)),
            None => body,
        }
    }
}
impl ser::SerializeSeq for SeqSer {
    type Ok = T;
    type Error = TreeError;
    fn serialize_element<V: Serialize + ?Sized>(&mut self, v: &V) -> Result<(), TreeError> {
        self.push(v)
    }
    fn end(self) -> Result<T, TreeError> {
        Ok(self.done())
    }
}
impl ser::SerializeTuple for SeqSer {
    type Ok = T;
    type Error = TreeError;
    fn serialize_element<V: Serialize + ?Sized>(&mut self, v: &V) -> Result<(), TreeError> {
        self.push(v)
    }
    fn end(self) -> Result<T, TreeError> {
        Ok(self.done())
    }
}
impl ser::SerializeTupleStruct for SeqSer {
    type Ok = T;
    type Error = TreeError;
    fn serialize_field<V: Serialize + ?Sized>(&mut self, v: &V) -> Result<(), TreeError> {
        self.push(v)
    }
    fn end(self) -> Result<T, TreeError> {
        Ok(self.done())
    }
}
impl ser::SerializeTupleVariant for SeqSer {
    type Ok = T;
    type Error = TreeError;
    fn serialize_field<V: Serialize + ?Sized>(&mut self, v: &V) -> Result<(), TreeError> {
        self.push(v)
    }
    fn end(self) -> Result<T, TreeError> {
        Ok(self.done())
    }
}
impl ser::SerializeMap for MapSer {
    type Ok = T;
    type Error = TreeError;
    fn serialize_key<V: Serialize + ?Sized>(&mut self, k: &V) -> Result<(), TreeError> {
        self.key = Some(k.serialize(TreeSer)?);
        Ok(())
    }
    fn serialize_value<V: Serialize + ?Sized>(&mut self, v: &V) -> Result<(), TreeError> {
        let k = self.key.take().ok_or_else(|| TreeError("map value without key".into()))?;
        self.items.push((k, v.serialize(TreeSer)?));
        Ok(())
    }
    fn end(self) -> Result<T, TreeError> {
        Ok(T::Map(self.items))
    }
}
impl ser::SerializeStruct for StructSer {
    type Ok = T;
    type Error = TreeError;
    fn serialize_field<V: Serialize + ?Sized>(&mut self, name: &'static str, v: &V) -> Result<(), TreeError> {
        self.items.push((name, v.serialize(TreeSer)?));
        Ok(())
    }
    fn end(self) -> Result<T, TreeError> {
        Ok(T::Struct(self.items))
    }
}
impl ser::SerializeStructVariant for StructSer {
    type Ok = T;
    type Error = TreeError;
    fn serialize_field<V: Serialize + ?Sized>(&mut self, name: &'static str, v: &V) -> Result<(), TreeError> {
        self.items.push((name, v.serialize(TreeSer)?));
        Ok(())
    }
    fn end(self) -> Result<T, TreeError> {
        let (i, n) = self.variant.ok_or_else(|| TreeError("struct variant without variant".into()))?;
        Ok(T::Variant(i, n, Box::new(T::Struct(self.items))))
    }
}

// ---------------------------------------------------------------------------------------------
// postcard encoding (https://postcard.jamesmunns.com/wire-format): written from the specification.

fn varint(mut v: u128, out: &mut Vec<u8>) {
    loop {
        let b = (v & 0x7f) as u8;
        v >>= 7;
        if v == 0 {
            out.push(b);
            return;
        }
        out.push(b | 0x80);
    }
}
fn zigzag(v: i128) -> u128 {
    ((v << 1) ^ (v >> 127)) as u128
}

pub fn encode(t: &T, out: &mut Vec<u8>) {
    match t {
        T::Bool(b) => out.push(*b as u8),
        T::U8(v) => out.push(*v),
        T::I8(v) => out.push(*v as u8),
        T::U16(v) => varint(*v as u128, out),
        T::U32(v) => varint(*v as u128, out),
        T::U64(v) => varint(*v as u128, out),
        T::U128(v) => varint(*v, out),
        T::I16(v) => varint(zigzag(*v as i128) & 0xffff, out),
        T::I32(v) => varint(zigzag(*v as i128) & 0xffff_ffff, out),
        T::I64(v) => varint(zigzag(*v as i128) & 0xffff_ffff_ffff_ffff, out),
        T::I128(v) => varint(zigzag(*v), out),
        T::Str(s) => {
            varint(s.len() as u128, out);
            out.extend_from_slice(s.as_bytes());
        }
        T::Bytes(b) | T::BS(b) => {
            varint(b.len() as u128, out);
            out.extend_from_slice(b);
        }
        T::BT(b) => out.extend_from_slice(b),
        T::None => out.push(0),
        T::Some(x) => {
            out.push(1);
            encode(x, out);
        }
        T::Unit => {}
        T::Seq(xs) => {
            varint(xs.len() as u128, out);
            for x in xs {
                encode(x, out);
            }
        }
        T::Tuple(xs) => {
            for x in xs {
                encode(x, out);
            }
        }
        T::Map(kv) => {
            varint(kv.len() as u128, out);
            for (k, v) in kv {
                encode(k, out);
                encode(v, out);
            }
        }
        T::Struct(fs) => {
            for (_, v) in fs {
                encode(v, out);
            }
        }
        T::Variant(i, _, p) => {
            varint(*i as u128, out);
            encode(p, out);
        }
    }
}

/// `PCZT` magic, little-endian version, postcard body.
pub fn pczt_bytes(version: u32, body: &T) -> Vec<u8> {
    let mut out = b"PCZT".to_vec();
    out.extend_from_slice(&version.to_le_bytes());
    encode(body, &mut out);
    out
}

// ---------------------------------------------------------------------------------------------
// Paths

#[derive(Clone, Debug, PartialEq, Eq, PartialOrd, Ord)]
pub enum Step {
    Field(&'static str),
    Index(usize),
    /// A map entry, addressed by its encoded key.
    Key(T),
    /// Through `Some(_)` / a variant payload.
    Inner,
}
pub type Path = Vec<Step>;

fn all_u8(xs: &[T]) -> Option<Vec<u8>> {
    xs.iter().map(|x| if let T::U8(b) = x { Some(*b) } else { None }).collect()
}

pub fn key_string(k: &T) -> String {
    match k {
        T::Str(s) => s.clone(),
        T::Tuple(xs) | T::Seq(xs) => match all_u8(xs) {
            Some(b) => hex::encode(b),
            None => format!("{:?}", k),
        },
        T::Bytes(b) | T::BT(b) | T::BS(b) => hex::encode(b),
        _ => format!("{:?}", k),
    }
}

pub fn path_string(p: &Path) -> String {
    let mut s = String::new();
    for st in p {
        match st {
            Step::Field(f) => {
                if !s.is_empty() {
                    s.push('.');
                }
                s.push_str(f);
            }
            Step::Index(i) => s.push_str(&format!("[{i}]")),
            Step::Key(k) => s.push_str(&format!("{{{}}}", key_string(k))),
            Step::Inner => {}
        }
    }
    s
}

/// The last field name on the path (the name of the field the path addresses).
pub fn last_field(p: &Path) -> &'static str {
    p.iter().rev().find_map(|s| if let Step::Field(f) = s { Some(*f) } else { None }).unwrap_or("")
}

impl T {
    pub fn get(&self, p: &[Step]) -> Option<&T> {
        let Some((first, rest)) = p.split_first() else { return Some(self) };
        match (first, self) {
            (Step::Field(f), T::Struct(fs)) => fs.iter().find(|(n, _)| n == f)?.1.get(rest),
            (Step::Index(i), T::Seq(xs)) | (Step::Index(i), T::Tuple(xs)) => xs.get(*i)?.get(rest),
            (Step::Key(k), T::Map(kv)) => kv.iter().find(|(kk, _)| kk == k)?.1.get(rest),
            (Step::Inner, T::Some(x)) => x.get(rest),
            (Step::Inner, T::Variant(_, _, x)) => x.get(rest),
            _ => None,
        }
    }
    pub fn get_mut(&mut self, p: &[Step]) -> Option<&mut T> {
        let Some((first, rest)) = p.split_first() else { return Some(self) };
        match (first, self) {
            (Step::Field(f), T::Struct(fs)) => fs.iter_mut().find(|(n, _)| n == f)?.1.get_mut(rest),
            (Step::Index(i), T::Seq(xs)) | (Step::Index(i), T::Tuple(xs)) => xs.get_mut(*i)?.get_mut(rest),
            (Step::Key(k), T::Map(kv)) => kv.iter_mut().find(|(kk, _)| kk == k)?.1.get_mut(rest),
            (Step::Inner, T::Some(x)) => x.get_mut(rest),
            (Step::Inner, T::Variant(_, _, x)) => x.get_mut(rest),
            _ => None,
        }
    }
    pub fn field(&self, name: &str) -> Option<&T> {
        if let T::Struct(fs) = self {
            fs.iter().find(|(n, _)| *n == name).map(|(_, v)| v)
        } else {
            None
        }
    }
    /// `Some(x)` -> x, anything else -> None.
    pub fn some(&self) -> Option<&T> {
        if let T::Some(x) = self {
            Some(x)
        } else {
            None
        }
    }
    pub fn items(&self) -> &[T] {
        match self {
            T::Seq(xs) | T::Tuple(xs) => xs,
            _ => &[],
        }
    }
    pub fn bytes(&self) -> Option<Vec<u8>> {
        match self {
            T::Seq(xs) | T::Tuple(xs) => all_u8(xs),
            T::Bytes(b) | T::BT(b) | T::BS(b) => Some(b.clone()),
            _ => None,
        }
    }
    pub fn as_u64(&self) -> Option<u64> {
        match self {
            T::U8(v) => Some(*v as u64),
            T::U16(v) => Some(*v as u64),
            T::U32(v) => Some(*v as u64),
            T::U64(v) => Some(*v),
            _ => None,
        }
    }
}

/// A removable unit of the tree: a filled `Option` (removal = `None`) or a map entry
/// (removal = the entry is dropped).
#[derive(Clone, Debug, PartialEq, Eq, PartialOrd, Ord)]
pub struct Atom {
    pub path: Path,
    pub is_entry: bool,
}
impl Atom {
    pub fn id(&self) -> String {
        path_string(&self.path)
    }
}

/// Every filled `Option` and every map entry, in document order (outer before inner).
pub fn atoms(t: &T) -> Vec<Atom> {
    fn walk(t: &T, p: &mut Path, out: &mut Vec<Atom>) {
        match t {
            T::Some(x) => {
                out.push(Atom { path: p.clone(), is_entry: false });
                p.push(Step::Inner);
                walk(x, p, out);
                p.pop();
            }
            T::Seq(xs) | T::Tuple(xs) => {
                // byte strings have no structure below them
                if all_u8(xs).is_some() {
                    return;
                }
                for (i, x) in xs.iter().enumerate() {
                    p.push(Step::Index(i));
                    walk(x, p, out);
                    p.pop();
                }
            }
            T::Map(kv) => {
                for (k, v) in kv {
                    p.push(Step::Key(k.clone()));
                    out.push(Atom { path: p.clone(), is_entry: true });
                    walk(v, p, out);
                    p.pop();
                }
            }
            T::Struct(fs) => {
                for (n, v) in fs {
                    p.push(Step::Field(n));
                    walk(v, p, out);
                    p.pop();
                }
            }
            T::Variant(_, _, x) => {
                p.push(Step::Inner);
                walk(x, p, out);
                p.pop();
            }
            _ => {}
        }
    }
    let mut out = vec![];
    walk(t, &mut vec![], &mut out);
    out
}

/// Every `None` in the tree (an optional field nobody filled).
pub fn nones(t: &T) -> Vec<Path> {
    fn walk(t: &T, p: &mut Path, out: &mut Vec<Path>) {
        match t {
            T::None => out.push(p.clone()),
            T::Some(x) | T::Variant(_, _, x) => {
                p.push(Step::Inner);
                walk(x, p, out);
                p.pop();
            }
            T::Seq(xs) | T::Tuple(xs) => {
                if all_u8(xs).is_some() {
                    return;
                }
                for (i, x) in xs.iter().enumerate() {
                    p.push(Step::Index(i));
                    walk(x, p, out);
                    p.pop();
                }
            }
            T::Map(kv) => {
                for (k, v) in kv {
                    p.push(Step::Key(k.clone()));
                    walk(v, p, out);
                    p.pop();
                }
            }
            T::Struct(fs) => {
                for (n, v) in fs {
                    p.push(Step::Field(n));
                    walk(v, p, out);
                    p.pop();
                }
            }
            _ => {}
        }
    }
    let mut out = vec![];
    walk(t, &mut vec![], &mut out);
    out
}

/// Every empty map in the tree.
pub fn empty_maps(t: &T) -> Vec<Path> {
    fn walk(t: &T, p: &mut Path, out: &mut Vec<Path>) {
        match t {
            T::Map(kv) if kv.is_empty() => out.push(p.clone()),
            T::Map(kv) => {
                for (k, v) in kv {
                    p.push(Step::Key(k.clone()));
                    walk(v, p, out);
                    p.pop();
                }
            }
            T::Some(x) | T::Variant(_, _, x) => {
                p.push(Step::Inner);
                walk(x, p, out);
                p.pop();
            }
            T::Seq(xs) | T::Tuple(xs) => {
                for (i, x) in xs.iter().enumerate() {
                    p.push(Step::Index(i));
                    walk(x, p, out);
                    p.pop();
                }
            }
            T::Struct(fs) => {
                for (n, v) in fs {
                    p.push(Step::Field(n));
                    walk(v, p, out);
                    p.pop();
                }
            }
            _ => {}
        }
    }
    let mut out = vec![];
    walk(t, &mut vec![], &mut out);
    out
}

/// Every struct field and every map entry (the units a merge must look at), in document order.
pub fn fields(t: &T) -> Vec<Path> {
    fn walk(t: &T, p: &mut Path, out: &mut Vec<Path>) {
        match t {
            T::Some(x) | T::Variant(_, _, x) => {
                p.push(Step::Inner);
                walk(x, p, out);
                p.pop();
            }
            T::Seq(xs) | T::Tuple(xs) => {
                if all_u8(xs).is_some() {
                    return;
                }
                for (i, x) in xs.iter().enumerate() {
                    p.push(Step::Index(i));
                    walk(x, p, out);
                    p.pop();
                }
            }
            T::Map(kv) => {
                for (k, v) in kv {
                    p.push(Step::Key(k.clone()));
                    out.push(p.clone());
                    walk(v, p, out);
                    p.pop();
                }
            }
            T::Struct(fs) => {
                for (n, v) in fs {
                    p.push(Step::Field(n));
                    out.push(p.clone());
                    walk(v, p, out);
                    p.pop();
                }
            }
            _ => {}
        }
    }
    let mut out = vec![];
    walk(t, &mut vec![], &mut out);
    out
}

/// Remove an atom. Returns false if the path does not address a filled option / an entry.
pub fn remove(t: &mut T, a: &Atom) -> bool {
    if a.is_entry {
        let Some((Step::Key(k), parent)) = a.path.split_last() else { return false };
        match t.get_mut(parent) {
            Some(T::Map(kv)) => {
                let n = kv.len();
                kv.retain(|(kk, _)| kk != k);
                kv.len() != n
            }
            _ => false,
        }
    } else {
        match t.get_mut(&a.path) {
            Some(x @ T::Some(_)) => {
                *x = T::None;
                true
            }
            _ => false,
        }
    }
}

/// Change a value into a different value of the same shape. Returns false when there is nothing
/// to change (empty container, unit, `None`).
pub fn alter(t: &mut T) -> bool {
    match t {
        T::Bool(b) => {
            *b = !*b;
            true
        }
        T::U8(v) => {
            *v ^= 1;
            true
        }
        T::U16(v) => {
            *v ^= 1;
            true
        }
        T::U32(v) => {
            *v ^= 1;
            true
        }
        T::U64(v) => {
            *v ^= 1;
            true
        }
        T::U128(v) => {
            *v ^= 1;
            true
        }
        T::I8(v) => {
            *v ^= 1;
            true
        }
        T::I16(v) => {
            *v ^= 1;
            true
        }
        T::I32(v) => {
            *v ^= 1;
            true
        }
        T::I64(v) => {
            *v ^= 1;
            true
        }
        T::I128(v) => {
            *v ^= 1;
            true
        }
        T::Str(s) => {
            s.push('x');
            true
        }
        T::Bytes(b) => {
            b.push(1);
            true
        }
        T::BT(b) | T::BS(b) => {
            b[0] ^= 1;
            true
        }
        T::None | T::Unit => false,
        T::Some(x) => alter(x),
        T::Seq(xs) | T::Tuple(xs) => xs.iter_mut().any(alter),
        T::Map(kv) => kv.iter_mut().any(|(_, v)| alter(v)),
        T::Struct(fs) => fs.iter_mut().any(|(_, v)| alter(v)),
        T::Variant(i, n, p) => {
            if alter(p) {
                true
            } else {
                // a unit variant: move to the neighbouring variant (validated by re-parsing)
                *i ^= 1;
                *n = "?";
                true
            }
        }
    }
}

/// Candidate values for an optional field nobody filled, tried in order until the real parser
/// accepts the encoding *and* re-encodes it identically (postcard is not self-describing, so
/// acceptance alone would not prove the type was guessed right).
pub fn fillers() -> Vec<T> {
    let bytes = |n: usize, b: u8| T::BT((0..n).map(|i| b.wrapping_add(i as u8)).collect());
    vec![
        T::U32(0x0123_4567),
        T::U64(0x0123_4567_89ab),
        bytes(32, 0x40),
        bytes(43, 0x41),
        bytes(64, 0x42),
        bytes(96, 0x43),
        bytes(192, 0x44),
        T::BS((0..5).map(|i| 0x50 + i).collect()),
        T::Str("u1saturated".into()),
        T::Tuple(vec![bytes(32, 0x45), bytes(32, 0x46)]),
        T::Tuple(vec![T::U32(3), T::Tuple((0..32).map(|i| bytes(32, 0x60 + i as u8)).collect())]),
        T::Struct(vec![("seed_fingerprint", bytes(32, 0x47)), ("derivation_path", T::Seq(vec![T::U32(0x8000_002c), T::U32(7)]))]),
    ]
}

/// Candidate entries for an empty map.
pub fn entry_fillers() -> Vec<(T, T)> {
    let bytes = |n: usize, b: u8| T::BT((0..n).map(|i| b.wrapping_add(i as u8)).collect());
    let vecb = |n: usize, b: u8| T::BS((0..n).map(|i| b.wrapping_add(i as u8)).collect());
    vec![
        (T::Str("verif.sat".into()), vecb(4, 0x70)),
        (bytes(33, 0x02), vecb(71, 0x30)),
        (
            bytes(33, 0x03),
            T::Struct(vec![("seed_fingerprint", bytes(32, 0x48)), ("derivation_path", T::Seq(vec![T::U32(0x8000_002c), T::U32(9)]))]),
        ),
        (bytes(20, 0x71), vecb(6, 0x72)),
        (bytes(32, 0x73), vecb(6, 0x74)),
    ]
}

/// Path of the first node at which two trees differ (variant names are ignored: only the index is
/// part of the encoding).
pub fn first_difference(a: &T, b: &T) -> Option<String> {
    fn walk(a: &T, b: &T, p: &mut Path) -> Option<String> {
        match (a, b) {
            (T::Some(x), T::Some(y)) => {
                p.push(Step::Inner);
                let r = walk(x, y, p);
                p.pop();
                r
            }
            (T::Variant(i, _, x), T::Variant(j, _, y)) => {
                if i != j {
                    return Some(path_string(p));
                }
                p.push(Step::Inner);
                let r = walk(x, y, p);
                p.pop();
                r
            }
            (T::Seq(xs), T::Seq(ys)) | (T::Tuple(xs), T::Tuple(ys)) => {
                if xs.len() != ys.len() {
                    return Some(format!("{} (length {} vs {})", path_string(p), xs.len(), ys.len()));
                }
                if all_u8(xs).is_some() && all_u8(ys).is_some() {
                    return if xs == ys { None } else { Some(path_string(p)) };
                }
                for (i, (x, y)) in xs.iter().zip(ys).enumerate() {
                    p.push(Step::Index(i));
                    let r = walk(x, y, p);
                    p.pop();
                    if r.is_some() {
                        return r;
                    }
                }
                None
            }
            (T::Map(xs), T::Map(ys)) => {
                if xs.len() != ys.len() {
                    return Some(format!("{} ({} vs {} entries)", path_string(p), xs.len(), ys.len()));
                }
                for ((kx, x), (ky, y)) in xs.iter().zip(ys) {
                    if kx != ky {
                        return Some(format!("{}{{{}}} (key)", path_string(p), key_string(kx)));
                    }
                    p.push(Step::Key(kx.clone()));
                    let r = walk(x, y, p);
                    p.pop();
                    if r.is_some() {
                        return r;
                    }
                }
                None
            }
            (T::Struct(xs), T::Struct(ys)) => {
                if xs.len() != ys.len() {
                    return Some(path_string(p));
                }
                for ((nx, x), (ny, y)) in xs.iter().zip(ys) {
                    if nx != ny {
                        return Some(path_string(p));
                    }
                    p.push(Step::Field(nx));
                    let r = walk(x, y, p);
                    p.pop();
                    if r.is_some() {
                        return r;
                    }
                }
                None
            }
            (x, y) => {
                if x == y {
                    None
                } else {
                    Some(path_string(p))
                }
            }
        }
    }
    walk(a, b, &mut vec![])
}
