//! The oracle: reference model of what must come out for a request (written from the property,
//! ZIP 317, ZIP 212, the version/epoch table and the documented padding rules), and the
//! comparison of an observation against it.

use zcash_primitives::transaction::{
    sighash::{signature_hash, SignableInput},
    txid::TxIdDigester,
    Authorization, Transaction, TransactionData, TxVersion,
};
use zcash_protocol::{consensus::BranchId, value::Zatoshis};
use zcash_transparent::{
    address::{Script, TransparentAddress},
    bundle::{Bundle as TBundle, TxIn},
    sighash::{SighashType, SignableInput as TSignableInput, TransparentAuthorizingContext},
};

use super::observe::{Obs, PoolObs};
use super::world::{epoch, p2pkh_script, world, zip317_fee, Epoch, Request, ShOut, FIXED_FEE, NU6_3, P2PKH_INPUT_MAX, ZIP212_GRACE_END};
use super::Case;

pub fn branch_of(h: u32) -> BranchId {
    match epoch(h) {
        Epoch::Sprout => BranchId::Sprout,
        Epoch::Overwinter => BranchId::Overwinter,
        Epoch::Sapling => BranchId::Sapling,
        Epoch::Blossom => BranchId::Blossom,
        Epoch::Heartwood => BranchId::Heartwood,
        Epoch::Canopy => BranchId::Canopy,
        Epoch::Nu5 => BranchId::Nu5,
        Epoch::Nu6 => BranchId::Nu6,
        Epoch::Nu6_1 => BranchId::Nu6_1,
        Epoch::Nu6_2 => BranchId::Nu6_2,
        Epoch::Nu6_3 => BranchId::Nu6_3,
    }
}

/// Version the builder is documented to choose when none is requested.
pub fn default_version(h: u32) -> u8 {
    match epoch(h) {
        Epoch::Sprout => 2,
        Epoch::Overwinter => 3,
        Epoch::Sapling | Epoch::Blossom | Epoch::Heartwood | Epoch::Canopy => 4,
        Epoch::Nu5 | Epoch::Nu6 | Epoch::Nu6_1 | Epoch::Nu6_2 => 5,
        Epoch::Nu6_3 => 6,
    }
}

pub fn effective_version(c: &Case) -> u8 {
    if c.ver == 0 {
        default_version(c.h)
    } else {
        c.ver
    }
}

/// Is transaction version `v` valid in the epoch of height `h`? (v1/v2 only before Overwinter,
/// v3 only in Overwinter, v4 from Sapling, v5 from NU5, v6 from NU6.3.)
pub fn version_valid(v: u8, h: u32) -> bool {
    let e = epoch(h);
    match v {
        2 => e == Epoch::Sprout,
        3 => e == Epoch::Overwinter,
        4 => e >= Epoch::Sapling,
        5 => e >= Epoch::Nu5,
        6 => e >= Epoch::Nu6_3,
        _ => false,
    }
}

/// Why the request cannot legally become a transaction (version or pool not available), if so.
pub fn invalid_reason(c: &Case) -> Option<&'static str> {
    let v = effective_version(c);
    let e = epoch(c.h);
    if c.route == 2 {
        // the deferred-anchor builder has no version request; it is documented to exist for v6 only
        return (e < Epoch::Nu6_3).then_some("anchor deferral before NU6.3");
    }
    if !version_valid(v, c.h) {
        return Some("version not valid at height");
    }
    if c.s != [0, 0] && (v < 4 || e < Epoch::Sapling) {
        return Some("Sapling not available");
    }
    if c.o != [0, 0] && (v < 5 || e < Epoch::Nu5) {
        return Some("Orchard not available");
    }
    if c.i != [0, 0] && (v < 6 || e < Epoch::Nu6_3) {
        return Some("Ironwood not available");
    }
    // a bundle the padding requires (bundle_required, builder configured) needs a version that
    // can carry it just like a used pool does
    let (_, _, orc, iron) = super::world::predicted_shape_opt(c, false);
    if orc > 0 && v < 5 {
        return Some("the padding requires an Orchard bundle the version cannot carry");
    }
    if iron > 0 && v < 6 {
        return Some("the padding requires an Ironwood bundle the version cannot carry");
    }
    None
}

/// Documented refusals that are neither version nor balance errors.
pub fn documented_refusal(c: &Case) -> Option<&'static str> {
    if c.o[1] > 0 && c.o_kind == 0 && c.h >= NU6_3 {
        // orchard::builder::Builder::add_output: "In a bundle that disables cross-address
        // transfers, ordinary outputs cannot be constructed"
        return Some("plain Orchard output while cross-address transfers are disabled");
    }
    let sapling_configured = super::world::pools_anchored(c)[0];
    if c.route == 1 && sapling_configured && c.h < ZIP212_GRACE_END {
        // sapling::builder::Error::PcztRequiresZip212
        return Some("Sapling PCZT before ZIP 212 is enforced");
    }
    None
}

fn cs_len(n: usize) -> usize {
    match n {
        0..=252 => 1,
        253..=0xffff => 3,
        0x1_0000..=0xffff_ffff => 5,
        _ => 9,
    }
}

/// Fee the case's fee rule prescribes for the shape that was actually built.
pub fn required_fee(c: &Case, r: &Request, o: &Obs) -> u64 {
    if c.fee != 0 {
        return FIXED_FEE;
    }
    let (tin, tout) = o.t.as_ref().map_or((0, 0), |t| {
        (
            // the fee is fixed before signing: every input counts with its documented
            // pre-signing size (signatures at their maximum length)
            t.vin.iter().map(|(h, n, _)| r.t_in.iter().find(|c| &c.txid == h && c.n == *n).map_or(P2PKH_INPUT_MAX, |c| c.input_size_bound())).sum(),
            t.vout.iter().map(|(s, _)| 8 + cs_len(s.len()) + s.len()).sum(),
        )
    });
    let (ss, so) = o.s.as_ref().map_or((0, 0), |p| (p.n_spends, p.n_outputs));
    zip317_fee(tin, tout, ss, so, o.o.as_ref().map_or(0, |p| p.n_outputs), o.i.as_ref().map_or(0, |p| p.n_outputs))
}

fn check_pool(name: &str, obs: Option<&PoolObs>, spends: &[([u8; 32], u64)], outs: &[ShOut], key_of: &dyn Fn(&ShOut) -> usize) -> Result<(), String> {
    let Some(p) = obs else {
        if spends.is_empty() && outs.is_empty() {
            return Ok(());
        }
        return Err(format!("{name}: {} spends and {} outputs were requested but the result has no {name} bundle", spends.len(), outs.len()));
    };
    // --- spends: every requested nullifier exactly once, no nullifier twice
    let mut requested_at = vec![None; p.nullifiers.len()];
    for (k, (nf, _)) in spends.iter().enumerate() {
        let hits: Vec<usize> = p.nullifiers.iter().enumerate().filter(|(_, x)| *x == nf).map(|(i, _)| i).collect();
        if hits.len() != 1 {
            return Err(format!("{name}: requested spend #{k} appears {} times in the result", hits.len()));
        }
        requested_at[hits[0]] = Some(k);
    }
    for (a, x) in p.nullifiers.iter().enumerate() {
        if p.nullifiers[..a].contains(x) {
            return Err(format!("{name}: nullifier repeated in the result"));
        }
    }
    if let Some(vals) = &p.spend_values {
        for (idx, v) in vals.iter().enumerate() {
            match (requested_at[idx], v) {
                (Some(k), Some(v)) if *v != spends[k].1 => return Err(format!("{name}: PCZT records value {v} for requested spend #{k} worth {}", spends[k].1)),
                (None, Some(v)) if *v != 0 => return Err(format!("{name}: padding spend at index {idx} carries value {v}")),
                _ => {}
            }
        }
    }
    // --- outputs: every requested output decrypts under its recipient's key with value and memo
    let mut used = vec![false; p.dec.len()];
    let mut requested_out_at = vec![false; p.n_outputs];
    for (k, q) in outs.iter().enumerate() {
        let want_key = key_of(q);
        let hit = p.dec.iter().enumerate().position(|(j, d)| !used[j] && !requested_out_at[d.idx] && d.key == want_key && d.addr == q.addr && d.value == q.value && d.memo == q.memo);
        match hit {
            Some(j) => {
                used[j] = true;
                requested_out_at[p.dec[j].idx] = true;
            }
            None => {
                let near: Vec<String> = p.dec.iter().filter(|d| d.key == want_key).map(|d| format!("[idx {} value {} memo {}.. addr_ok {}]", d.idx, d.value, hex::encode(&d.memo[..4]), d.addr == q.addr)).collect();
                return Err(format!(
                    "{name}: requested output #{k} (value {}, memo {}..) is not decryptable by its recipient with that value and memo; recipient decrypts: {}",
                    q.value,
                    hex::encode(&q.memo[..4]),
                    if near.is_empty() { "nothing".to_string() } else { near.join(" ") }
                ));
            }
        }
    }
    // --- everything else is padding: zero-valued, or decryptable under none of the known keys
    for (j, d) in p.dec.iter().enumerate() {
        if !used[j] && !requested_out_at[d.idx] && d.value != 0 {
            return Err(format!("{name}: extra output at index {} decrypts under a known key with value {}", d.idx, d.value));
        }
    }
    if let Some(vals) = &p.output_values {
        for (idx, v) in vals.iter().enumerate() {
            if !requested_out_at[idx] {
                if let Some(v) = v {
                    if *v != 0 {
                        return Err(format!("{name}: padding output at index {idx} carries value {v}"));
                    }
                }
            }
        }
    }
    // --- value balance of the pool
    let want: i128 = spends.iter().map(|s| s.1 as i128).sum::<i128>() - outs.iter().map(|o| o.value as i128).sum::<i128>();
    if p.value_balance as i128 != want {
        return Err(format!("{name}: value balance {} but requested spends minus outputs is {want}", p.value_balance));
    }
    Ok(())
}

pub fn expected_tx_version(c: &Case) -> TxVersion {
    super::drive::tx_version(effective_version(c)).expect("effective version is concrete")
}

/// Compare one observation with the request.
pub fn check_obs(c: &Case, r: &Request, o: &Obs) -> Result<(), String> {
    if o.version != expected_tx_version(c) {
        return Err(format!("result has version {:?}, expected {:?}", o.version, expected_tx_version(c)));
    }
    if o.branch != branch_of(c.h) {
        return Err(format!("result has consensus branch {:?}, height {} is in {:?}", o.branch, c.h, branch_of(c.h)));
    }
    // --- transparent parts exactly as requested
    let empty = super::observe::TObs::default();
    let t = o.t.as_ref().unwrap_or(&empty);
    let mut got_in: Vec<([u8; 32], u32)> = t.vin.iter().map(|(h, n, _)| (*h, *n)).collect();
    let mut want_in: Vec<([u8; 32], u32)> = r.t_in.iter().map(|c| (c.txid, c.n)).collect();
    got_in.sort();
    want_in.sort();
    if got_in != want_in {
        return Err(format!("transparent inputs differ from the request: got {} inputs, requested {}", got_in.len(), want_in.len()));
    }
    let mut got_out: Vec<(Vec<u8>, u64)> = t.vout.clone();
    let mut want_out: Vec<(Vec<u8>, u64)> = r.t_out.iter().map(|o| (o.script.clone(), o.value)).collect();
    got_out.sort();
    want_out.sort();
    if got_out != want_out {
        return Err(format!("transparent outputs differ from the request: got {:?}", t.vout.iter().map(|(s, v)| (hex::encode(s), *v)).collect::<Vec<_>>()));
    }
    if let Some(coins) = &t.coins {
        for ((h, n, _), (v, s)) in t.vin.iter().zip(coins) {
            let c = r.t_in.iter().find(|c| &c.txid == h && c.n == *n).expect("checked above");
            if *v != c.value || s != &c.script {
                return Err(format!("PCZT records coin (value {v}, script {}) for input {}:{n}, requested coin has value {} script {}", hex::encode(s), hex::encode(h), c.value, hex::encode(&c.script)));
            }
        }
    }
    // --- shielded pools
    let sp = |v: &[super::world::SapSpend]| v.iter().map(|s| (s.nf, s.value)).collect::<Vec<_>>();
    let op = |v: &[super::world::OrcSpend]| v.iter().map(|s| (s.nf, s.value)).collect::<Vec<_>>();
    check_pool("Sapling", o.s.as_ref(), &sp(&r.s_in.0), &r.s_out, &|q| q.party)?;
    let orc_key = |q: &ShOut| q.party * 2 + usize::from(q.change);
    check_pool("Orchard", o.o.as_ref(), &op(&r.o_in.0), &r.o_out, &orc_key)?;
    check_pool("Ironwood", o.i.as_ref(), &op(&r.i_in.0), &r.i_out, &orc_key)?;
    // --- a bundle the padding policy requires (bundle_required) is present
    let (_, _, want_orc, want_iron) = super::world::predicted_shape(c);
    for (name, want, got) in [("Orchard", want_orc, &o.o), ("Ironwood", want_iron, &o.i)] {
        if want > 0 && got.is_none() {
            return Err(format!("{name}: the padding policy and request call for a bundle of {want} actions but the result has no {name} bundle"));
        }
    }
    // --- fee
    let t_in_sum: i128 = t.vin.iter().map(|(h, n, _)| r.t_in.iter().find(|c| &c.txid == h && c.n == *n).map_or(0, |c| c.value as i128)).sum();
    let t_out_sum: i128 = t.vout.iter().map(|(_, v)| *v as i128).sum();
    let net: i128 = t_in_sum - t_out_sum
        + o.s.as_ref().map_or(0, |p| p.value_balance as i128)
        + o.o.as_ref().map_or(0, |p| p.value_balance as i128)
        + o.i.as_ref().map_or(0, |p| p.value_balance as i128);
    let required = required_fee(c, r, o) as i128;
    if net != required {
        return Err(format!(
            "net value balance (fee paid) is {net} but the fee rule requires {required} for the built shape (t {}/{}, Sapling {}/{}, Orchard actions {}, Ironwood actions {})",
            t.vin.len(),
            t.vout.len(),
            o.s.as_ref().map_or(0, |p| p.n_spends),
            o.s.as_ref().map_or(0, |p| p.n_outputs),
            o.o.as_ref().map_or(0, |p| p.n_outputs),
            o.i.as_ref().map_or(0, |p| p.n_outputs)
        ));
    }
    if net != r.surplus {
        return Err(format!("fee paid {net} differs from requested inputs minus outputs {}", r.surplus));
    }
    if let Some(api) = &o.fee_paid_api {
        match api {
            Ok(Some(x)) if *x as i128 == net => {}
            other => return Err(format!("TransactionData::fee_paid returned {other:?}, the bundles' value balances give {net}")),
        }
    }
    Ok(())
}

// ---- transparent signatures ------------------------------------------------------------------

#[derive(Debug)]
struct CoinsAuth {
    amounts: Vec<Zatoshis>,
    scripts: Vec<Script>,
}
impl zcash_transparent::bundle::Authorization for CoinsAuth {
    type ScriptSig = Script;
}
impl TransparentAuthorizingContext for CoinsAuth {
    fn input_amounts(&self) -> Vec<Zatoshis> {
        self.amounts.clone()
    }
    fn input_scriptpubkeys(&self) -> Vec<Script> {
        self.scripts.clone()
    }
}
struct SigAuth;
impl Authorization for SigAuth {
    type TransparentAuth = CoinsAuth;
    type SaplingAuth = sapling::bundle::Authorized;
    type OrchardAuth = orchard::bundle::Authorized;
}

/// The data pushes of a scriptSig (direct pushes, OP_PUSHDATA1/2, OP_0 as the empty push).
pub fn script_pushes(s: &[u8]) -> Result<Vec<&[u8]>, String> {
    let mut v = Vec::new();
    let mut p = 0;
    while p < s.len() {
        let op = s[p] as usize;
        p += 1;
        let n = match op {
            0 => 0,
            1..=75 => op,
            0x4c => {
                let n = *s.get(p).ok_or("truncated OP_PUSHDATA1")? as usize;
                p += 1;
                n
            }
            0x4d => {
                if p + 2 > s.len() {
                    return Err("truncated OP_PUSHDATA2".into());
                }
                let n = s[p] as usize | (s[p + 1] as usize) << 8;
                p += 2;
                n
            }
            other => return Err(format!("scriptSig contains opcode {other:#x}, not a data push")),
        };
        if p + n > s.len() {
            return Err("scriptSig push runs past the end".into());
        }
        v.push(&s[p..p + n]);
        p += n;
    }
    Ok(v)
}

/// Split `signature || hash type` and require SIGHASH_ALL and DER.
fn split_sig(idx: usize, push: &[u8]) -> Result<secp256k1::ecdsa::Signature, String> {
    let (hash_type, der) = push.split_last().ok_or(format!("input {idx}: empty signature push"))?;
    if *hash_type != 0x01 {
        return Err(format!("input {idx}: signature hash type {hash_type:#x}, expected SIGHASH_ALL"));
    }
    secp256k1::ecdsa::Signature::from_der(der).map_err(|e| format!("input {idx}: signature is not DER: {e}"))
}

/// Every transparent input's scriptSig carries the signatures its coin's script demands, each a
/// SIGHASH_ALL signature valid under the signature hash of that input computed with the
/// *requested* coin's script and value (script code = the P2PKH script, or the redeem script of
/// a P2SH coin), by the key(s) the coin's script names.
pub fn check_signatures(tx: &Transaction, r: &Request) -> Result<(), String> {
    let Some(tb) = tx.transparent_bundle() else {
        return Ok(());
    };
    if tb.vin.is_empty() {
        return Ok(());
    }
    let w = world();
    let mk_script = |bytes: &[u8]| Script(zcash_script::script::Code(bytes.to_vec()));
    let mut coins = Vec::new();
    for i in &tb.vin {
        let c = r.t_in.iter().find(|c| &c.txid == i.prevout().hash() && c.n == i.prevout().n()).ok_or("input spends a coin that was not requested")?;
        let script_pubkey = mk_script(&c.script);
        // cross-check the hand-written script bytes against the address type's script
        let via_addr: Script = if c.kind == 0 { TransparentAddress::PublicKeyHash(c.script[3..23].try_into().unwrap()) } else { TransparentAddress::ScriptHash(c.script[2..22].try_into().unwrap()) }.script().into();
        assert_eq!(via_addr.0 .0, c.script, "harness: coin script bytes");
        let script_code = if c.kind == 0 { mk_script(&c.script) } else { mk_script(&c.redeem) };
        coins.push((c, script_pubkey, script_code));
    }
    let bundle = TBundle {
        vin: tb.vin.iter().map(|i| TxIn::from_parts(i.prevout().clone(), i.script_sig().clone(), i.sequence())).collect(),
        vout: tb.vout.clone(),
        authorization: CoinsAuth { amounts: coins.iter().map(|(c, _, _)| Zatoshis::from_u64(c.value).unwrap()).collect(), scripts: coins.iter().map(|(_, s, _)| s.clone()).collect() },
    };
    let data: TransactionData<SigAuth> = match tx.version() {
        TxVersion::V6 => TransactionData::from_parts_v6(tx.consensus_branch_id(), tx.lock_time(), tx.expiry_height(), Some(bundle), tx.sapling_bundle().cloned(), tx.orchard_bundle().cloned(), tx.ironwood_bundle().cloned()),
        v => TransactionData::from_parts(v, tx.consensus_branch_id(), tx.lock_time(), tx.expiry_height(), Some(bundle), None, tx.sapling_bundle().cloned(), tx.orchard_bundle().cloned()),
    };
    let parts = tx.digest(TxIdDigester);
    let b = data.transparent_bundle().unwrap();
    let sighash_of = |j: usize| -> Result<secp256k1::Message, String> {
        let (c, spk, code) = &coins[j];
        let si = TSignableInput::from_parts(b, SighashType::ALL, j, code, spk, Zatoshis::from_u64(c.value).unwrap()).map_err(|e| format!("{e}"))?;
        Ok(secp256k1::Message::from_digest(*signature_hash(&data, &SignableInput::Transparent(si), &parts).as_ref()))
    };
    for (idx, i) in tb.vin.iter().enumerate() {
        let (c, _, _) = &coins[idx];
        let sig_bytes = &i.script_sig().0 .0;
        let pushes = script_pushes(sig_bytes).map_err(|e| format!("input {idx}: {e}"))?;
        let msg = sighash_of(idx)?;
        if c.kind == 0 {
            // push(signature || hash type) push(33-byte public key)
            if pushes.len() != 2 || pushes[1].len() != 33 {
                return Err(format!("input {idx}: P2PKH scriptSig is not <signature> <33-byte public key> ({} pushes)", pushes.len()));
            }
            let sig = split_sig(idx, pushes[0])?;
            let pk = pushes[1];
            if p2pkh_script(&super::world::hash160(pk)) != c.script {
                return Err(format!("input {idx}: public key in scriptSig does not hash to the P2PKH script of the coin it spends"));
            }
            let key = secp256k1::PublicKey::from_slice(pk).map_err(|e| format!("input {idx}: bad public key: {e}"))?;
            if w.secp.verify_ecdsa(&msg, &sig, &key).is_err() {
                // say whether it would verify for another input (mis-indexed signature)
                let mut other = None;
                for j in (0..coins.len()).filter(|j| *j != idx) {
                    if w.secp.verify_ecdsa(&sighash_of(j)?, &sig, &key).is_ok() {
                        other = Some(j);
                    }
                }
                return Err(format!("input {idx}: signature does not verify under the signature hash of this input with the spent coin's script and value{}", other.map_or(String::new(), |j| format!(" (it verifies for input {j})"))));
            }
        } else {
            // OP_0 <signature>.. <redeem script>
            if pushes.len() < 2 || !pushes[0].is_empty() || sig_bytes[0] != 0x00 {
                return Err(format!("input {idx}: P2SH multisig scriptSig does not start with OP_0 and end with the redeem script"));
            }
            let redeem = *pushes.last().unwrap();
            if redeem != &c.redeem[..] {
                return Err(format!("input {idx}: scriptSig carries redeem script {}, the requested coin's is {}", hex::encode(redeem), hex::encode(&c.redeem)));
            }
            if super::world::p2sh_script(&super::world::hash160(redeem)) != c.script {
                return Err(format!("input {idx}: redeem script does not hash to the P2SH script of the coin it spends"));
            }
            let sigs = &pushes[1..pushes.len() - 1];
            if sigs.len() != c.required {
                return Err(format!("input {idx}: scriptSig carries {} signatures, the redeem script demands {}", sigs.len(), c.required));
            }
            // OP_CHECKMULTISIG: the signatures must match keys of the script in script order
            let mut next_key = 0;
            for (k, push) in sigs.iter().enumerate() {
                let sig = split_sig(idx, push)?;
                let mut matched = false;
                while next_key < c.keys.len() {
                    let key = &w.t_pk[c.keys[next_key]];
                    next_key += 1;
                    if w.secp.verify_ecdsa(&msg, &sig, key).is_ok() {
                        matched = true;
                        break;
                    }
                }
                if !matched {
                    return Err(format!("input {idx}: multisig signature #{k} does not verify (in script order) for any remaining key of the redeem script under the signature hash computed with the redeem script as script code and the coin's P2SH script and value"));
                }
            }
        }
    }
    Ok(())
}
