//! The fixed universe of C14 (network, keys, recipients) and the translation of an abstract
//! case (shape lattice point) into a concrete request: coins, notes with Merkle paths, outputs
//! with values and memos, and the reference prediction of padding and fee used to fund it.

use incrementalmerkletree::{Hashable, Level, Position};
use ripemd::Ripemd160;
use sha2::{Digest, Sha256};
use std::sync::OnceLock;
use zcash_protocol::{consensus::BlockHeight, local_consensus::LocalNetwork};

use super::Case;

// Activation heights. Canopy + 32256 (end of the ZIP 212 grace period) lies before NU5.
pub const OVERWINTER: u32 = 100;
pub const SAPLING: u32 = 200;
pub const BLOSSOM: u32 = 300;
pub const HEARTWOOD: u32 = 400;
pub const CANOPY: u32 = 500;
pub const ZIP212_GRACE_END: u32 = CANOPY + 32_256;
pub const NU5: u32 = 40_000;
pub const NU6: u32 = 41_000;
pub const NU6_1: u32 = 42_000;
pub const NU6_2: u32 = 43_000;
pub const NU6_3: u32 = 44_000;

pub const FIXED_FEE: u64 = 1_234;

pub fn network() -> LocalNetwork {
    let h = |x: u32| Some(BlockHeight::from_u32(x));
    LocalNetwork {
        overwinter: h(OVERWINTER),
        sapling: h(SAPLING),
        blossom: h(BLOSSOM),
        heartwood: h(HEARTWOOD),
        canopy: h(CANOPY),
        nu5: h(NU5),
        nu6: h(NU6),
        nu6_1: h(NU6_1),
        nu6_2: h(NU6_2),
        nu6_3: h(NU6_3),
    }
}

/// Reference epoch table (from the activation heights above, not from the code under test).
#[derive(Clone, Copy, Debug, PartialEq, Eq, PartialOrd, Ord)]
pub enum Epoch {
    Sprout,
    Overwinter,
    Sapling,
    Blossom,
    Heartwood,
    Canopy,
    Nu5,
    Nu6,
    Nu6_1,
    Nu6_2,
    Nu6_3,
}

pub fn epoch(h: u32) -> Epoch {
    match h {
        _ if h >= NU6_3 => Epoch::Nu6_3,
        _ if h >= NU6_2 => Epoch::Nu6_2,
        _ if h >= NU6_1 => Epoch::Nu6_1,
        _ if h >= NU6 => Epoch::Nu6,
        _ if h >= NU5 => Epoch::Nu5,
        _ if h >= CANOPY => Epoch::Canopy,
        _ if h >= HEARTWOOD => Epoch::Heartwood,
        _ if h >= BLOSSOM => Epoch::Blossom,
        _ if h >= SAPLING => Epoch::Sapling,
        _ if h >= OVERWINTER => Epoch::Overwinter,
        _ => Epoch::Sprout,
    }
}

pub fn hash160(b: &[u8]) -> [u8; 20] {
    Ripemd160::digest(Sha256::digest(b)).into()
}

pub fn p2pkh_script(h: &[u8; 20]) -> Vec<u8> {
    let mut s = vec![0x76, 0xa9, 0x14];
    s.extend_from_slice(h);
    s.extend_from_slice(&[0x88, 0xac]);
    s
}

pub fn p2sh_script(h: &[u8; 20]) -> Vec<u8> {
    let mut s = vec![0xa9, 0x14];
    s.extend_from_slice(h);
    s.push(0x87);
    s
}

pub struct SaplingParty {
    pub extsk: sapling::zip32::ExtendedSpendingKey,
    pub fvk: sapling::keys::FullViewingKey,
    pub addr: sapling::PaymentAddress,
    pub ivk: sapling::keys::PreparedIncomingViewingKey,
}

pub struct OrchardParty {
    pub sk: orchard::keys::SpendingKey,
    pub fvk: orchard::keys::FullViewingKey,
}

pub struct World {
    pub secp: secp256k1::Secp256k1<secp256k1::All>,
    /// Transparent keys: 0,1 = P2PKH coin of input 0/1; 2,3 = 1-of-1 multisig of input 0/1;
    /// 4..7 = 2-of-3 multisig of input 0; 7..10 = 2-of-3 multisig of input 1.
    pub t_sk: Vec<secp256k1::SecretKey>,
    pub t_pk: Vec<secp256k1::PublicKey>,
    /// 0 = spender, 1 and 2 = recipients.
    pub sap: Vec<SaplingParty>,
    pub orc: Vec<OrchardParty>,
    /// Orchard incoming viewing keys tried on every action: (party, scope) for each party.
    pub orc_ivks: Vec<orchard::keys::IncomingViewingKey>,
}

pub fn world() -> &'static World {
    static W: OnceLock<World> = OnceLock::new();
    W.get_or_init(|| {
        let secp = secp256k1::Secp256k1::new();
        let t_sk: Vec<secp256k1::SecretKey> = (0u8..10).map(|k| secp256k1::SecretKey::from_slice(&[0x31 + k; 32]).unwrap()).collect();
        let t_pk: Vec<secp256k1::PublicKey> = t_sk.iter().map(|sk| secp256k1::PublicKey::from_secret_key(&secp, sk)).collect();
        let sap = (0u8..3)
            .map(|k| {
                let extsk = sapling::zip32::ExtendedSpendingKey::master(&[0x40 + k; 32]);
                let dfvk = extsk.to_diversifiable_full_viewing_key();
                let fvk = dfvk.fvk().clone();
                let addr = dfvk.default_address().1;
                let ivk = sapling::keys::PreparedIncomingViewingKey::new(&fvk.vk.ivk());
                SaplingParty { extsk, fvk, addr, ivk }
            })
            .collect();
        let orc: Vec<OrchardParty> = (0u8..3)
            .map(|k| {
                let sk = orchard::keys::SpendingKey::from_bytes([0x50 + k; 32]).unwrap();
                let fvk = orchard::keys::FullViewingKey::from(&sk);
                OrchardParty { sk, fvk }
            })
            .collect();
        let mut orc_ivks = Vec::new();
        for p in &orc {
            orc_ivks.push(p.fvk.to_ivk(orchard::keys::Scope::External));
            orc_ivks.push(p.fvk.to_ivk(orchard::keys::Scope::Internal));
        }
        World { secp, t_sk, t_pk, sap, orc, orc_ivks }
    })
}

#[derive(Clone, Debug)]
pub struct TCoin {
    pub txid: [u8; 32],
    pub n: u32,
    pub value: u64,
    /// scriptPubKey of the coin (P2PKH or P2SH).
    pub script: Vec<u8>,
    /// 0 = P2PKH, 1 = P2SH 1-of-1 multisig, 2 = P2SH 2-of-3 multisig.
    pub kind: u8,
    /// Indices into `World::t_pk` of the keys in the script (one for P2PKH), in script order.
    pub keys: Vec<usize>,
    /// Signatures the script demands.
    pub required: usize,
    /// Redeem script (empty for P2PKH): OP_m <pk>.. OP_n OP_CHECKMULTISIG.
    pub redeem: Vec<u8>,
}

/// m-of-n bare multisig script, written out by hand.
pub fn multisig_script(m: usize, pks: &[[u8; 33]]) -> Vec<u8> {
    let mut s = vec![0x50 + m as u8];
    for pk in pks {
        s.push(33);
        s.extend_from_slice(pk);
    }
    s.push(0x50 + pks.len() as u8);
    s.push(0xae);
    s
}

fn push_len(n: usize) -> usize {
    // direct push up to 75 bytes, OP_PUSHDATA1 up to 255
    if n <= 75 {
        1 + n
    } else {
        2 + n
    }
}

impl TCoin {
    /// Documented pre-signing size of the input that spends this coin (ZIP 317 input size with
    /// signatures at their maximum of 72 DER bytes + 1 hash-type byte): outpoint 36, script
    /// length, scriptSig, sequence 4.
    pub fn input_size_bound(&self) -> usize {
        let sig = if self.kind == 0 { push_len(73) + push_len(33) } else { 1 + self.required * push_len(73) + push_len(self.redeem.len()) };
        36 + if sig < 253 { 1 } else { 3 } + sig + 4
    }
}

#[derive(Clone, Debug)]
pub struct TOut {
    pub p2sh: bool,
    pub hash: [u8; 20],
    pub script: Vec<u8>,
    pub value: u64,
}

pub struct SapSpend {
    pub note: sapling::Note,
    pub path: sapling::MerklePath,
    pub nf: [u8; 32],
    pub value: u64,
}

pub struct OrcSpend {
    pub note: orchard::Note,
    pub path: orchard::tree::MerklePath,
    pub nf: [u8; 32],
    pub value: u64,
}

#[derive(Clone, Debug)]
pub struct ShOut {
    /// Index of the recipient party (1 or 2).
    pub party: usize,
    /// Raw address bytes (43 for both shielded protocols).
    pub addr: Vec<u8>,
    pub value: u64,
    pub memo: Vec<u8>,
    /// Outgoing viewing key supplied (true) or `None` (false).
    pub with_ovk: bool,
    /// Orchard only: added through `add_orchard_change_output` to an internal-scope address.
    pub change: bool,
}

pub struct Request {
    pub t_in: Vec<TCoin>,
    pub t_out: Vec<TOut>,
    /// (spends, anchor of the tree holding exactly these notes)
    pub s_in: SapCached,
    pub s_out: Vec<ShOut>,
    pub o_in: OrcCached,
    pub o_out: Vec<ShOut>,
    pub i_in: OrcCached,
    pub i_out: Vec<ShOut>,
    /// Fee predicted by the reference model for the final (padded) shape.
    pub fee: u64,
    /// Sum of all requested input values minus sum of all requested output values.
    pub surplus: i128,
}

impl Request {
    pub fn in_total(&self) -> i128 {
        self.t_in.iter().map(|c| c.value as i128).sum::<i128>()
            + self.s_in.0.iter().map(|c| c.value as i128).sum::<i128>()
            + self.o_in.0.iter().map(|c| c.value as i128).sum::<i128>()
            + self.i_in.0.iter().map(|c| c.value as i128).sum::<i128>()
    }
    pub fn out_total(&self) -> i128 {
        self.t_out.iter().map(|c| c.value as i128).sum::<i128>()
            + self.s_out.iter().map(|c| c.value as i128).sum::<i128>()
            + self.o_out.iter().map(|c| c.value as i128).sum::<i128>()
            + self.i_out.iter().map(|c| c.value as i128).sum::<i128>()
    }
}

/// Memo alphabet: 0 = empty memo (0xF6 then zeros), 1 = short text, 2 = all 512 bytes used.
pub fn memo_bytes(kind: u8, salt: u8) -> Vec<u8> {
    let mut m = vec![0u8; 512];
    match kind % 3 {
        0 => m[0] = 0xF6,
        1 => {
            let t = format!("c14 memo #{salt}");
            m[..t.len()].copy_from_slice(t.as_bytes());
        }
        _ => {
            for (k, b) in m.iter_mut().enumerate() {
                *b = b'a' + ((k + salt as usize) % 26) as u8;
            }
        }
    }
    m
}

/// Does the Orchard pool (not Ironwood) permit cross-address transfers at this height?
/// Documented: from NU6.3 the Orchard pool mandates the cross-address restriction.
pub fn orchard_cross_address(h: u32) -> bool {
    epoch(h) < Epoch::Nu6_3
}

/// The padding alphabet covers every field combination of `BundlePadding`:
/// `bundle_required` in {false, true} x `pad_to_minimum` in {None, Some(1), Some(0), Some(3)}.
/// 0 = DEFAULT, 1 = UNPADDED, 2 = Some(0), 3 = Some(3); 4..=7 the same with `bundle_required`.
pub fn pad_fields(p: u8) -> (bool, Option<u8>) {
    (p >= 4, [None, Some(1), Some(0), Some(3)][(p % 4) as usize])
}

pub fn pools_anchored(c: &Case) -> [bool; 3] {
    // anchors: 0 = used pools only, 1 = all three, 2 = used + Orchard, 3 = used + Ironwood
    [c.anchors == 1 || c.s != [0, 0], c.anchors == 1 || c.anchors == 2 || c.o != [0, 0], c.anchors == 1 || c.anchors == 3 || c.i != [0, 0]]
}

/// Reference padding model, from the documentation of the bundle types:
/// Sapling transactional bundles hold at least 1 spend and 2 outputs when anything was requested;
/// Orchard-family bundles hold max(spends, outputs) actions (spends + outputs when cross-address
/// transfers are disabled), padded to `pad_to_minimum` (None = 2); an empty bundle is produced
/// only when `bundle_required` (then at least 1 action), and only by a builder that exists: the
/// pool's anchor is configured (the deferred-anchor builder always has both pools), the height
/// has the pool, and the transaction version carries it.
pub fn predicted_shape(c: &Case) -> (usize, usize, usize, usize) {
    predicted_shape_opt(c, true)
}

/// `respect_version = false`: the shape the padding policy calls for when the version's ability
/// to carry the pools is ignored (used to recognise requests that cannot be satisfied).
pub fn predicted_shape_opt(c: &Case, respect_version: bool) -> (usize, usize, usize, usize) {
    let (s_in, s_out) = (c.s[0] as usize, c.s[1] as usize);
    let (sap_sp, sap_out) = if s_in + s_out > 0 { (s_in.max(1), s_out.max(2)) } else { (0, 0) };
    let fam = |n_in: usize, n_out: usize, cross: bool, pad: u8, exists: bool| {
        let (required, min) = pad_fields(pad);
        let req = if cross { n_in.max(n_out) } else { n_in + n_out };
        let mut min_actions = min.map_or(2, usize::from);
        if required {
            min_actions = min_actions.max(1);
        }
        if !exists {
            0
        } else if required || req > 0 {
            req.max(min_actions)
        } else {
            0
        }
    };
    let anchored = pools_anchored(c);
    let v = super::oracle::effective_version(c);
    let orc_exists = if c.route == 2 { true } else { anchored[1] && c.h >= NU5 && (v >= 5 || !respect_version) };
    let iron_exists = if c.route == 2 { true } else { anchored[2] && c.h >= NU6_3 && (v >= 6 || !respect_version) };
    let orc = fam(c.o[0] as usize, c.o[1] as usize, orchard_cross_address(c.h), c.pad[0], orc_exists);
    let iron = fam(c.i[0] as usize, c.i[1] as usize, true, c.pad[1], iron_exists);
    (sap_sp, sap_out, orc, iron)
}

/// ZIP 317 conventional fee for a shape given as byte sizes / counts.
pub fn zip317_fee(t_in_bytes: usize, t_out_bytes: usize, sap_sp: usize, sap_out: usize, orc: usize, iron: usize) -> u64 {
    let logical = t_in_bytes.div_ceil(150).max(t_out_bytes.div_ceil(34)) + sap_sp.max(sap_out) + orc + iron;
    5_000 * (logical.max(2) as u64)
}

/// Upper bound of a P2PKH input: outpoint 36 + script length 1 + (1+73 signature push, 1+33 key
/// push) + sequence 4.
pub const P2PKH_INPUT_MAX: usize = 36 + 1 + 108 + 4;

const _: () = assert!(P2PKH_INPUT_MAX == 149);

fn sapling_path(sibling: sapling::Node, pos: u64) -> sapling::MerklePath {
    let mut auth = vec![sibling];
    for l in 1..32u8 {
        auth.push(sapling::Node::empty_root(Level::from(l)));
    }
    sapling::MerklePath::from_parts(auth, Position::from(pos)).expect("32 levels")
}

fn orchard_path(sibling: orchard::tree::MerkleHashOrchard, pos: u32) -> orchard::tree::MerklePath {
    let mut auth = [sibling; 32];
    for (l, a) in auth.iter_mut().enumerate().skip(1) {
        *a = orchard::tree::MerkleHashOrchard::empty_root(Level::from(l as u8));
    }
    orchard::tree::MerklePath::from_parts(pos, auth)
}

fn orchard_note(addr: orchard::Address, value: u64, tag: u8, version: orchard::note::NoteVersion) -> orchard::Note {
    let rho = orchard::note::Rho::from_bytes(&[tag; 32]).expect("small repeated byte is a field element");
    for b in 0u8..=255 {
        if let Some(rseed) = orchard::note::RandomSeed::from_bytes([b; 32], &rho).into_option() {
            if let Some(n) = orchard::Note::from_parts(addr, orchard::value::NoteValue::from_raw(value), rho, rseed, version).into_option() {
                return n;
            }
        }
    }
    panic!("no valid rseed")
}

pub type OrcCached = std::sync::Arc<(Vec<OrcSpend>, Option<orchard::Anchor>)>;
pub type SapCached = std::sync::Arc<(Vec<SapSpend>, Option<sapling::Anchor>)>;

/// Spent notes with their Merkle paths are a pure function of (pool, values); they are memoised
/// because most cases use the same fixed input values.
fn orchard_spends(values: &[u64], tag0: u8, version: orchard::note::NoteVersion) -> OrcCached {
    use orchard::keys::Scope;
    use orchard::tree::MerkleHashOrchard;
    static CACHE: OnceLock<std::sync::Mutex<std::collections::HashMap<(u8, Vec<u64>), OrcCached>>> = OnceLock::new();
    let cache = CACHE.get_or_init(Default::default);
    if let Some(hit) = cache.lock().unwrap().get(&(tag0, values.to_vec())) {
        return hit.clone();
    }
    let w = world();
    let fvk = &w.orc[0].fvk;
    // spend 0 is held at an external address, spend 1 at an internal (change) address
    let notes: Vec<orchard::Note> = values
        .iter()
        .enumerate()
        .map(|(j, v)| orchard_note(fvk.address_at(0u32, if j == 0 { Scope::External } else { Scope::Internal }), *v, tag0 + j as u8, version))
        .collect();
    let leaves: Vec<MerkleHashOrchard> = notes.iter().map(|n| MerkleHashOrchard::from_cmx(&n.commitment().into())).collect();
    let mut anchor = None;
    let spends = notes
        .iter()
        .enumerate()
        .map(|(j, n)| {
            let sibling = if leaves.len() == 2 { leaves[1 - j] } else { MerkleHashOrchard::empty_leaf() };
            let path = orchard_path(sibling, j as u32);
            if anchor.is_none() {
                anchor = Some(path.root(n.commitment().into()));
            }
            OrcSpend { note: *n, path, nf: n.nullifier(fvk).to_bytes(), value: values[j] }
        })
        .collect();
    let v: OrcCached = std::sync::Arc::new((spends, anchor));
    cache.lock().unwrap().insert((tag0, values.to_vec()), v.clone());
    v
}

fn sapling_spends(values: &[u64]) -> SapCached {
    static CACHE: OnceLock<std::sync::Mutex<std::collections::HashMap<Vec<u64>, SapCached>>> = OnceLock::new();
    let cache = CACHE.get_or_init(Default::default);
    if let Some(hit) = cache.lock().unwrap().get(values) {
        return hit.clone();
    }
    let w = world();
    let p = &w.sap[0];
    let notes: Vec<sapling::Note> = values
        .iter()
        .enumerate()
        .map(|(j, v)| p.addr.create_note(sapling::value::NoteValue::from_raw(*v), sapling::Rseed::AfterZip212([0x61 + j as u8; 32])))
        .collect();
    let leaves: Vec<sapling::Node> = notes.iter().map(|n| sapling::Node::from_cmu(&n.cmu())).collect();
    let mut anchor = None;
    let spends = notes
        .iter()
        .enumerate()
        .map(|(j, n)| {
            let sibling = if leaves.len() == 2 { leaves[1 - j] } else { sapling::Node::empty_leaf() };
            let path = sapling_path(sibling, j as u64);
            if anchor.is_none() {
                anchor = Some(sapling::Anchor::from(path.root(leaves[j])));
            }
            SapSpend { note: n.clone(), path, nf: n.nf(&p.fvk.vk.nk, j as u64).0, value: values[j] }
        })
        .collect();
    let v: SapCached = std::sync::Arc::new((spends, anchor));
    cache.lock().unwrap().insert(values.to_vec(), v.clone());
    v
}

/// Fixed value of the input in slot k (t0 t1 s0 s1 o0 o1 i0 i1).
fn slot_value(slot: usize) -> u64 {
    310_000 + 10_000 * slot as u64
}

/// n positive pairwise distinct values with the given sum (sum >= n * n).
fn split(total: u64, n: usize) -> Vec<u64> {
    let mut v = Vec::new();
    if n > 0 {
        let base = total / (2 * n as u64);
        for j in 0..n - 1 {
            v.push(base + 1 + j as u64);
        }
        let used: u64 = v.iter().sum();
        v.push(total - used);
    }
    v
}

/// Build the concrete request for a case.
///
/// Values: inputs have fixed values per slot and the outputs share `inputs - fee - delta`
/// (delta = funding symbol); when nothing is output the inputs share `fee + delta` instead; when
/// nothing is input the outputs have fixed values (the request is then necessarily short).
pub fn request(c: &Case) -> Request {
    let w = world();
    let n_in = (c.t[0] + c.s[0] + c.o[0] + c.i[0]) as usize;
    let n_out = (c.t[1] + c.s[1] + c.o[1] + c.i[1]) as usize;
    // ---- predicted fee of the final shape
    // funding symbol 4: exact for the fee the builder would charge if it (wrongly) counted a
    // required bundle the requested version cannot carry
    let (sap_sp, sap_out, orc, iron) = predicted_shape_opt(c, c.fund != 4);
    let t_out_bytes: usize = (0..c.t[1] as usize).map(|k| 8 + 1 + if k == 1 { 23 } else { 25 }).sum();
    let mut t_in: Vec<TCoin> = (0..c.t[0] as usize)
        .map(|k| {
            let kind = c.tk[k];
            let keys: Vec<usize> = match kind {
                0 => vec![k],
                1 => vec![2 + k],
                _ => (4 + 3 * k..7 + 3 * k).collect(),
            };
            let pks: Vec<[u8; 33]> = keys.iter().map(|j| w.t_pk[*j].serialize()).collect();
            let (required, redeem) = match kind {
                0 => (1, vec![]),
                1 => (1, multisig_script(1, &pks)),
                _ => (2, multisig_script(2, &pks)),
            };
            let script = if kind == 0 { p2pkh_script(&hash160(&pks[0])) } else { p2sh_script(&hash160(&redeem)) };
            TCoin { txid: [0x11 * (k as u8 + 1); 32], n: k as u32 + 3, value: 0, script, kind, keys, required, redeem }
        })
        .collect();
    let t_in_bytes: usize = t_in.iter().map(|c| c.input_size_bound()).sum();
    let fee = if c.fee == 0 { zip317_fee(t_in_bytes, t_out_bytes, sap_sp, sap_out, orc, iron) } else { FIXED_FEE };
    let delta: i128 = match c.fund {
        0 => 0,
        1 => -1,
        2 => 1,
        3 => fee as i128,
        _ => 0,
    };
    // ---- values
    let slots: Vec<usize> = (0..c.t[0] as usize).chain((0..c.s[0] as usize).map(|k| 2 + k)).chain((0..c.o[0] as usize).map(|k| 4 + k)).chain((0..c.i[0] as usize).map(|k| 6 + k)).collect();
    let (in_vals, out_vals): (Vec<u64>, Vec<u64>) = if n_in == 0 {
        (vec![], (0..n_out).map(|k| 20_000 + 1_000 * k as u64).collect())
    } else if n_out == 0 {
        (split((fee as i128 + delta) as u64, n_in), vec![])
    } else if c.vals == 1 {
        let max = zcash_protocol::value::MAX_MONEY;
        (split(max, n_in), split((max as i128 - fee as i128 - delta) as u64, n_out))
    } else {
        let ins: Vec<u64> = slots.iter().map(|s| slot_value(*s)).collect();
        let total_in: u64 = ins.iter().sum();
        (ins, split((total_in as i128 - fee as i128 - delta) as u64, n_out))
    };
    let mut iv = in_vals.into_iter();
    let mut ov = out_vals.into_iter();
    // ---- inputs
    for coin in t_in.iter_mut() {
        coin.value = iv.next().unwrap();
    }
    let s_vals: Vec<u64> = (0..c.s[0]).map(|_| iv.next().unwrap()).collect();
    let o_vals: Vec<u64> = (0..c.o[0]).map(|_| iv.next().unwrap()).collect();
    let i_vals: Vec<u64> = (0..c.i[0]).map(|_| iv.next().unwrap()).collect();
    let s_in = sapling_spends(&s_vals);
    let o_in = orchard_spends(&o_vals, 0x01, orchard::note::NoteVersion::V2);
    let i_in = orchard_spends(&i_vals, 0x11, orchard::note::NoteVersion::V3);
    // ---- outputs
    let t_out: Vec<TOut> = (0..c.t[1] as usize)
        .map(|k| {
            let p2sh = k == 1;
            let hash = [0xa0 + k as u8; 20];
            TOut { p2sh, hash, script: if p2sh { p2sh_script(&hash) } else { p2pkh_script(&hash) }, value: ov.next().unwrap() }
        })
        .collect();
    let mut sh_out = |n: u8, pool: u8, change: bool, addr_of: &dyn Fn(usize) -> Vec<u8>| -> Vec<ShOut> {
        (0..n as usize)
            .map(|k| ShOut {
                party: 1 + k,
                addr: addr_of(1 + k),
                value: ov.next().unwrap(),
                memo: memo_bytes(c.memo + k as u8 + pool, 10 * pool + k as u8),
                with_ovk: k == 0,
                change,
            })
            .collect()
    };
    let o_change = c.o_kind == 1;
    let orc_addr = |internal: bool| {
        move |p: usize| {
            w.orc[p]
                .fvk
                .address_at(0u32, if internal { orchard::keys::Scope::Internal } else { orchard::keys::Scope::External })
                .to_raw_address_bytes()
                .to_vec()
        }
    };
    let s_out = sh_out(c.s[1], 0, false, &|p| w.sap[p].addr.to_bytes().to_vec());
    let o_out = sh_out(c.o[1], 1, o_change, &orc_addr(o_change));
    let i_out = sh_out(c.i[1], 2, false, &orc_addr(false));
    let mut r = Request { t_in, t_out, s_in, s_out, o_in, o_out, i_in, i_out, fee, surplus: 0 };
    r.surplus = r.in_total() - r.out_total();
    r
}
