//! Drives the real builder in /repo with a concrete request, through one of the build routes.

use core::convert::Infallible;
use core::fmt::Debug;
use rand_chacha::ChaChaRng;
use rand_core::SeedableRng;
use sapling::prover::mock::{MockOutputProver, MockSpendProver};
use sha2::{Digest, Sha256};
use zcash_primitives::transaction::{
    builder::{BuildConfig, Builder, BundlePadding, DeferredPcztBuilder, Error, PcztParts},
    fees::{fixed, zip317, FeeRule},
    Transaction, TxVersion,
};
use zcash_protocol::{consensus::BlockHeight, local_consensus::LocalNetwork, memo::MemoBytes, value::Zatoshis};
use zcash_transparent::{
    address::TransparentAddress,
    builder::TransparentSigningSet,
    bundle::{OutPoint, TxOut},
};

use super::world::{network, world, Request, ShOut, FIXED_FEE};
use super::Case;

pub enum Built {
    Tx(Box<Transaction>),
    Pczt(Box<PcztParts<LocalNetwork>>),
}

#[derive(Clone, Debug, PartialEq, Eq)]
pub enum BuildErr {
    Insufficient(i64),
    Change(i64),
    TargetIncompatible(String),
    Other(String),
}

#[derive(Clone, Debug, PartialEq, Eq)]
pub enum Stop {
    /// An `add_*` call was refused: (which, error text).
    Add(&'static str, String),
    /// `propose_version` was refused.
    Propose(String),
    /// The builder constructor was refused (deferred-anchor builder only).
    New(String),
    Build(BuildErr),
}

fn classify<FE: Debug>(e: Error<FE>) -> Stop {
    Stop::Build(match e {
        Error::InsufficientFunds(a) => BuildErr::Insufficient(i64::from(a)),
        Error::ChangeRequired(a) => BuildErr::Change(i64::from(a)),
        Error::TargetIncompatible(b, v, p) => BuildErr::TargetIncompatible(format!("{b:?}/{v:?}/{p:?}")),
        other => BuildErr::Other(format!("{other:?}")),
    })
}

pub fn tx_version(v: u8) -> Option<TxVersion> {
    match v {
        2 => Some(TxVersion::Sprout(2)),
        3 => Some(TxVersion::V3),
        4 => Some(TxVersion::V4),
        5 => Some(TxVersion::V5),
        6 => Some(TxVersion::V6),
        _ => None,
    }
}

fn padding(p: u8) -> BundlePadding {
    let (bundle_required, pad_to_minimum) = super::world::pad_fields(p);
    let bp = BundlePadding { bundle_required, pad_to_minimum };
    // the two named constants are used where the alphabet coincides with them
    match p {
        0 => {
            assert_eq!(bp, BundlePadding::DEFAULT, "harness: padding alphabet");
            BundlePadding::DEFAULT
        }
        1 => {
            assert_eq!(bp, BundlePadding::UNPADDED, "harness: padding alphabet");
            BundlePadding::UNPADDED
        }
        _ => bp,
    }
}

fn memo_of(o: &ShOut) -> MemoBytes {
    let mut empty = [0u8; 512];
    empty[0] = 0xF6;
    if o.memo[..] == empty[..] {
        MemoBytes::empty()
    } else {
        // hand over only the used prefix; the API pads with zeros
        let used = o.memo.iter().rposition(|b| *b != 0).map_or(0, |p| p + 1);
        MemoBytes::from_bytes(&o.memo[..used]).expect("at most 512 bytes")
    }
}

fn zat(v: u64) -> Zatoshis {
    Zatoshis::from_u64(v).expect("request values are in range")
}

pub fn rng_for(c: &Case) -> ChaChaRng {
    ChaChaRng::from_seed(Sha256::digest(c.key().as_bytes()).into())
}

fn config(c: &Case, r: &Request) -> BuildConfig {
    let [s_anch, o_anch, i_anch] = super::world::pools_anchored(c);
    BuildConfig::Standard {
        sapling_anchor: s_anch.then(|| r.s_in.1.unwrap_or_else(sapling::Anchor::empty_tree)),
        orchard_anchor: o_anch.then(|| r.o_in.1.unwrap_or_else(orchard::Anchor::empty_tree)),
        ironwood_anchor: i_anch.then(|| r.i_in.1.unwrap_or_else(orchard::Anchor::empty_tree)),
        orchard_padding: padding(c.pad[0]),
        ironwood_padding: padding(c.pad[1]),
    }
}

fn orchard_addr(o: &ShOut) -> orchard::Address {
    orchard::Address::from_raw_address_bytes(o.addr[..].try_into().expect("43 bytes")).expect("valid address")
}

/// Builder::new, optional early propose_version, all adds, optional late propose_version.
fn setup(c: &Case, r: &Request) -> Result<Builder<LocalNetwork, ()>, Stop> {
    let w = world();
    let mut b = Builder::new(network(), BlockHeight::from_u32(c.h), config(c, r));
    let want = tx_version(c.ver);
    if let (Some(v), 0) = (want, c.ver_when) {
        b.propose_version::<Infallible>(v).map_err(|e| Stop::Propose(format!("{e:?}")))?;
    }
    for coin in &r.t_in {
        let h: [u8; 20] = if coin.kind == 0 { coin.script[3..23].try_into().unwrap() } else { coin.script[2..22].try_into().unwrap() };
        let addr = if coin.kind == 0 { TransparentAddress::PublicKeyHash(h) } else { TransparentAddress::ScriptHash(h) };
        let txout = TxOut::new(zat(coin.value), addr.script().into());
        assert_eq!(txout.script_pubkey().0 .0, coin.script, "harness: coin script bytes");
        let op = OutPoint::new(coin.txid, coin.n);
        if coin.kind == 0 {
            b.add_transparent_p2pkh_input(w.t_pk[coin.keys[0]], op, txout).map_err(|e| Stop::Add("t_in", format!("{e:?}")))?;
        } else {
            let redeem = zcash_script::script::FromChain::parse(&zcash_script::script::Code(coin.redeem.clone())).expect("harness: redeem script parses");
            b.add_transparent_p2sh_input(redeem, op, txout).map_err(|e| Stop::Add("t_in_p2sh", format!("{e:?}")))?;
        }
    }
    for s in &r.s_in.0 {
        b.add_sapling_spend::<Infallible>(w.sap[0].fvk.clone(), s.note.clone(), s.path.clone()).map_err(|e| Stop::Add("s_in", format!("{e:?}")))?;
    }
    for s in &r.o_in.0 {
        b.add_orchard_spend::<Infallible>(w.orc[0].fvk.clone(), s.note, s.path.clone()).map_err(|e| Stop::Add("o_in", format!("{e:?}")))?;
    }
    for s in &r.i_in.0 {
        b.add_ironwood_spend::<Infallible>(w.orc[0].fvk.clone(), s.note, s.path.clone()).map_err(|e| Stop::Add("i_in", format!("{e:?}")))?;
    }
    for o in &r.t_out {
        let addr = if o.p2sh { TransparentAddress::ScriptHash(o.hash) } else { TransparentAddress::PublicKeyHash(o.hash) };
        b.add_transparent_output(&addr, zat(o.value)).map_err(|e| Stop::Add("t_out", format!("{e:?}")))?;
    }
    for o in &r.s_out {
        let p = &w.sap[o.party];
        b.add_sapling_output::<Infallible>(o.with_ovk.then_some(w.sap[0].fvk.ovk), p.addr, zat(o.value), memo_of(o)).map_err(|e| Stop::Add("s_out", format!("{e:?}")))?;
    }
    let ovk = |o: &ShOut| o.with_ovk.then(|| w.orc[0].fvk.to_ovk(orchard::keys::Scope::External));
    for o in &r.o_out {
        if o.change {
            b.add_orchard_change_output::<Infallible>(w.orc[o.party].fvk.clone(), ovk(o), orchard_addr(o), zat(o.value), memo_of(o))
                .map_err(|e| Stop::Add("o_change", format!("{e:?}")))?;
        } else {
            b.add_orchard_output::<Infallible>(ovk(o), orchard_addr(o), zat(o.value), memo_of(o)).map_err(|e| Stop::Add("o_out", format!("{e:?}")))?;
        }
    }
    for o in &r.i_out {
        b.add_ironwood_output::<Infallible>(ovk(o), orchard_addr(o), zat(o.value), memo_of(o)).map_err(|e| Stop::Add("i_out", format!("{e:?}")))?;
    }
    if let (Some(v), 1) = (want, c.ver_when) {
        b.propose_version::<Infallible>(v).map_err(|e| Stop::Propose(format!("{e:?}")))?;
    }
    Ok(b)
}

struct Keys {
    tss: TransparentSigningSet,
    extsks: Vec<sapling::zip32::ExtendedSpendingKey>,
    saks: Vec<orchard::keys::SpendAuthorizingKey>,
}

fn keys() -> Keys {
    let w = world();
    let mut tss = TransparentSigningSet::new();
    // every key except the first one of each 2-of-3 script (indices 4 and 7): the builder has to
    // find the two later keys of the script
    for (k, sk) in w.t_sk.iter().enumerate() {
        if k != 4 && k != 7 {
            tss.add_key(*sk);
        }
    }
    Keys { tss, extsks: vec![w.sap[0].extsk.clone()], saks: w.orc.iter().map(|p| orchard::keys::SpendAuthorizingKey::from(&p.sk)).collect() }
}

fn deferred<FR: FeeRule>(c: &Case, r: &Request, fr: &FR) -> Result<Built, Stop>
where
    FR::Error: Debug,
{
    let w = world();
    let mut b = DeferredPcztBuilder::new::<Infallible>(network(), BlockHeight::from_u32(c.h), padding(c.pad[0]), padding(c.pad[1])).map_err(|e| Stop::New(format!("{e:?}")))?;
    for s in &r.o_in.0 {
        b.add_orchard_spend::<Infallible>(w.orc[0].fvk.clone(), s.note).map_err(|e| Stop::Add("o_in", format!("{e:?}")))?;
    }
    for s in &r.i_in.0 {
        b.add_ironwood_spend::<Infallible>(w.orc[0].fvk.clone(), s.note).map_err(|e| Stop::Add("i_in", format!("{e:?}")))?;
    }
    let ovk = |o: &ShOut| o.with_ovk.then(|| w.orc[0].fvk.to_ovk(orchard::keys::Scope::External));
    for o in &r.o_out {
        if o.change {
            b.add_orchard_change_output::<Infallible>(w.orc[o.party].fvk.clone(), ovk(o), orchard_addr(o), zat(o.value), memo_of(o))
                .map_err(|e| Stop::Add("o_change", format!("{e:?}")))?;
        } else {
            b.add_orchard_output::<Infallible>(ovk(o), orchard_addr(o), zat(o.value), memo_of(o)).map_err(|e| Stop::Add("o_out", format!("{e:?}")))?;
        }
    }
    for o in &r.i_out {
        b.add_ironwood_output::<Infallible>(ovk(o), orchard_addr(o), zat(o.value), memo_of(o)).map_err(|e| Stop::Add("i_out", format!("{e:?}")))?;
    }
    b.build_for_pczt(rng_for(c), fr).map(|res| Built::Pczt(Box::new(res.pczt_parts))).map_err(classify)
}

fn with_rule<FR: FeeRule>(c: &Case, r: &Request, fr: &FR) -> Result<Built, Stop>
where
    FR::Error: Debug,
{
    match c.route {
        2 => deferred(c, r, fr),
        1 => setup(c, r)?.build_for_pczt(rng_for(c), fr).map(|res| Built::Pczt(Box::new(res.pczt_parts))).map_err(classify),
        3 => {
            let k = keys();
            let prover = sapling_prover();
            setup(c, r)?.build(&k.tss, &k.extsks, &k.saks, rng_for(c), prover, prover, fr).map(|res| Built::Tx(Box::new(res.transaction().clone()))).map_err(classify)
        }
        _ => {
            let k = keys();
            setup(c, r)?
                .build(&k.tss, &k.extsks, &k.saks, rng_for(c), &MockSpendProver, &MockOutputProver, fr)
                .map(|res| Built::Tx(Box::new(res.transaction().clone())))
                .map_err(classify)
        }
    }
}

fn sapling_prover() -> &'static zcash_proofs::prover::LocalTxProver {
    static P: std::sync::OnceLock<zcash_proofs::prover::LocalTxProver> = std::sync::OnceLock::new();
    P.get_or_init(zcash_proofs::prover::LocalTxProver::bundled)
}

/// Run the builder for this case. Route 0 with the ZIP 317 rule goes through `mock_build`
/// (which hard-wires that rule); every other combination through the generic entry points.
pub fn drive(c: &Case, r: &Request) -> Result<Built, Stop> {
    match (c.fee, c.route) {
        (0, 0) => {
            let k = keys();
            setup(c, r)?.mock_build(&k.tss, &k.extsks, &k.saks, rng_for(c)).map(|res| Built::Tx(Box::new(res.transaction().clone()))).map_err(classify)
        }
        (0, _) => with_rule(c, r, &zip317::FeeRule::standard()),
        _ => with_rule(c, r, &fixed::FeeRule::non_standard(zat(FIXED_FEE))),
    }
}
