//! Turns what the builder produced (a transaction, PCZT parts, or the effects of a PCZT) into a
//! plain observation: who spends what, which outputs decrypt under which key, value balances.

use zcash_primitives::transaction::{builder::PcztParts, Authorization, TransactionData, TxVersion};
use zcash_protocol::{
    consensus::BranchId,
    local_consensus::LocalNetwork,
    value::{BalanceError, ZatBalance, Zatoshis},
};
use zcash_transparent::sighash::TransparentAuthorizingContext;

use super::world::{world, Request, CANOPY};

#[derive(Debug, Default)]
pub struct TObs {
    /// (prevout txid, prevout index, scriptSig bytes when present)
    pub vin: Vec<([u8; 32], u32, Option<Vec<u8>>)>,
    /// (scriptPubKey, value)
    pub vout: Vec<(Vec<u8>, u64)>,
    /// The coins the artefact itself records for its inputs (PCZT only): (value, scriptPubKey).
    pub coins: Option<Vec<(u64, Vec<u8>)>>,
}

#[derive(Debug, Clone)]
pub struct Dec {
    pub idx: usize,
    /// Sapling: party index. Orchard family: index into `World::orc_ivks` (party*2 + scope).
    pub key: usize,
    pub addr: Vec<u8>,
    pub value: u64,
    pub memo: Vec<u8>,
}

#[derive(Debug, Default)]
pub struct PoolObs {
    pub n_spends: usize,
    pub n_outputs: usize,
    pub nullifiers: Vec<[u8; 32]>,
    pub value_balance: i64,
    pub dec: Vec<Dec>,
    /// Per output: hash of (note commitment, ephemeral key, both ciphertexts).
    pub out_fp: Vec<[u8; 32]>,
    /// PCZT only: the plaintext values the partial transaction records per spend / output.
    pub spend_values: Option<Vec<Option<u64>>>,
    pub output_values: Option<Vec<Option<u64>>>,
}

#[derive(Debug)]
pub struct Obs {
    pub version: TxVersion,
    pub branch: BranchId,
    pub t: Option<TObs>,
    pub s: Option<PoolObs>,
    pub o: Option<PoolObs>,
    pub i: Option<PoolObs>,
    /// `TransactionData::fee_paid` with the requested coins as previous outputs.
    pub fee_paid_api: Option<Result<Option<u64>, String>>,
}

fn zip212(h: u32) -> sapling::note_encryption::Zip212Enforcement {
    // ZIP 212: the new note plaintext format is mandatory for senders from Canopy activation.
    if h >= CANOPY {
        sapling::note_encryption::Zip212Enforcement::On
    } else {
        sapling::note_encryption::Zip212Enforcement::Off
    }
}

fn fp(parts: [&[u8]; 4]) -> [u8; 32] {
    use sha2::Digest;
    let mut h = sha2::Sha256::new();
    for p in parts {
        h.update((p.len() as u32).to_le_bytes());
        h.update(p);
    }
    h.finalize().into()
}

pub fn obs_sapling<A: sapling::bundle::Authorization>(b: &sapling::Bundle<A, ZatBalance>, h: u32, decrypt: bool) -> PoolObs {
    let w = world();
    let mut dec = Vec::new();
    for (idx, out) in b.shielded_outputs().iter().enumerate() {
        for (key, party) in w.sap.iter().enumerate().filter(|_| decrypt) {
            if let Some((note, addr, memo)) = sapling::note_encryption::try_sapling_note_decryption(&party.ivk, out, zip212(h)) {
                dec.push(Dec { idx, key, addr: addr.to_bytes().to_vec(), value: note.value().inner(), memo: memo.to_vec() });
            }
        }
    }
    PoolObs {
        n_spends: b.shielded_spends().len(),
        n_outputs: b.shielded_outputs().len(),
        nullifiers: b.shielded_spends().iter().map(|s| s.nullifier().0).collect(),
        value_balance: i64::from(*b.value_balance()),
        dec,
        out_fp: b.shielded_outputs().iter().map(|o| fp([&o.cmu().to_bytes(), &o.ephemeral_key().0, o.enc_ciphertext(), o.out_ciphertext()])).collect(),
        spend_values: None,
        output_values: None,
    }
}

pub fn obs_orchard<A: orchard::bundle::Authorization>(b: &orchard::Bundle<A, ZatBalance>, decrypt: bool) -> PoolObs {
    let w = world();
    let mut dec = Vec::new();
    let n = b.actions().len();
    if decrypt {
        // every action against every known key (first key that opens it)
        for (idx, ivk, note, addr, memo) in b.decrypt_outputs_with_keys(&w.orc_ivks) {
            let key = w.orc_ivks.iter().position(|k| *k == ivk).expect("one of the keys handed in");
            dec.push(Dec { idx, key, addr: addr.to_raw_address_bytes().to_vec(), value: note.value().inner(), memo: memo.to_vec() });
        }
    }
    PoolObs {
        n_spends: n,
        n_outputs: n,
        nullifiers: b.actions().iter().map(|a| a.nullifier().to_bytes()).collect(),
        value_balance: i64::from(*b.value_balance()),
        dec,
        out_fp: b
            .actions()
            .iter()
            .map(|a| {
                let e = a.encrypted_note();
                fp([&a.cmx().to_bytes(), &e.epk_bytes, &e.enc_ciphertext, &e.out_ciphertext])
            })
            .collect(),
        spend_values: None,
        output_values: None,
    }
}

fn fee_paid_api<A: Authorization>(d: &TransactionData<A>, r: &Request) -> Result<Option<u64>, String> {
    d.fee_paid(|op| -> Result<Option<Zatoshis>, BalanceError> {
        Ok(r.t_in.iter().find(|c| &c.txid == op.hash() && c.n == op.n()).map(|c| Zatoshis::from_u64(c.value).expect("in range")))
    })
    .map(|o| o.map(u64::from))
    .map_err(|e| format!("{e:?}"))
}

/// Observation of a `TransactionData` in any authorization state; `t_obs` reads its transparent
/// bundle (whose authorization type differs between a final transaction and PCZT effects).
pub fn obs_txdata<A: Authorization>(
    d: &TransactionData<A>,
    r: &Request,
    h: u32,
    decrypt: bool,
    t_obs: impl Fn(&zcash_transparent::bundle::Bundle<A::TransparentAuth>) -> TObs,
) -> Obs {
    Obs {
        version: d.version(),
        branch: d.consensus_branch_id(),
        t: d.transparent_bundle().map(t_obs),
        s: d.sapling_bundle().map(|b| obs_sapling(b, h, decrypt)),
        o: d.orchard_bundle().map(|b| obs_orchard(b, decrypt)),
        i: d.ironwood_bundle().map(|b| obs_orchard(b, decrypt)),
        fee_paid_api: Some(fee_paid_api(d, r)),
    }
}

pub fn t_obs_authorized(b: &zcash_transparent::bundle::Bundle<zcash_transparent::bundle::Authorized>) -> TObs {
    TObs {
        vin: b.vin.iter().map(|i| (*i.prevout().hash(), i.prevout().n(), Some(i.script_sig().0 .0.clone()))).collect(),
        vout: b.vout.iter().map(|o| (o.script_pubkey().0 .0.clone(), u64::from(o.value()))).collect(),
        coins: None,
    }
}

pub fn t_obs_effects(b: &zcash_transparent::bundle::Bundle<zcash_transparent::bundle::EffectsOnly>) -> TObs {
    let amounts = b.authorization.input_amounts();
    let scripts = b.authorization.input_scriptpubkeys();
    TObs {
        vin: b.vin.iter().map(|i| (*i.prevout().hash(), i.prevout().n(), None)).collect(),
        vout: b.vout.iter().map(|o| (o.script_pubkey().0 .0.clone(), u64::from(o.value()))).collect(),
        coins: Some(amounts.into_iter().zip(scripts).map(|(a, s)| (u64::from(a), s.0 .0)).collect()),
    }
}

/// Observation read directly from the builder's PCZT parts (before any PCZT role touches them).
pub fn obs_parts(p: &PcztParts<LocalNetwork>, h: u32) -> Result<Obs, String> {
    let t = match &p.transparent {
        None => None,
        Some(b) => b.extract_effects().map_err(|e| format!("transparent effects: {e:?}"))?.as_ref().map(t_obs_effects),
    };
    let s = match &p.sapling {
        None => None,
        Some(b) => match b.extract_effects::<ZatBalance>().map_err(|e| format!("sapling effects: {e:?}"))? {
            None => None,
            Some(eff) => {
                let mut o = obs_sapling(&eff, h, true);
                o.spend_values = Some(b.spends().iter().map(|s| s.value().map(|v| v.inner())).collect());
                o.output_values = Some(b.outputs().iter().map(|s| s.value().map(|v| v.inner())).collect());
                let sum = b.value_sum().to_raw();
                if sum != o.value_balance as i128 {
                    return Err(format!("Sapling PCZT bundle value_sum {sum} differs from its effects' value balance {}", o.value_balance));
                }
                Some(o)
            }
        },
    };
    let fam = |b: &Option<orchard::pczt::Bundle>, name: &str| -> Result<Option<PoolObs>, String> {
        match b {
            None => Ok(None),
            Some(b) => match b.extract_effects::<ZatBalance>().map_err(|e| format!("{name} effects: {e:?}"))? {
                None => Ok(None),
                Some(eff) => {
                    let mut o = obs_orchard(&eff, true);
                    o.spend_values = Some(b.actions().iter().map(|a| a.spend().value().map(|v| v.inner())).collect());
                    o.output_values = Some(b.actions().iter().map(|a| a.output().value().map(|v| v.inner())).collect());
                    match i64::try_from(*b.value_sum()) {
                        Ok(sum) if sum == o.value_balance => {}
                        other => return Err(format!("{name} PCZT bundle value_sum {other:?} differs from its effects' value balance {}", o.value_balance)),
                    }
                    Ok(Some(o))
                }
            },
        }
    };
    Ok(Obs { version: p.version, branch: p.consensus_branch_id, t, s, o: fam(&p.orchard, "Orchard")?, i: fam(&p.ironwood, "Ironwood")?, fee_paid_api: None })
}
