//! C13 — PCZT encoding, combination and roles preserve the transaction.
//!
//! Subjects: PCZTs built by the real `Builder::build_for_pczt` + `Creator::build_from_parts` for four
//! shapes (transparent->Orchard v5, Sapling->Orchard v5, Orchard->Ironwood v6, all pools v6), taken
//! through IoFinalizer / Updater / Signer / SpendFinalizer (and the real Prover in the thorough tier),
//! plus the firmware v1 vector of the repository's tests.
//!
//! Field lattice: `v2::Pczt` is serialised into a self-describing tree (c13/tree.rs); every filled
//! `Option` and every map entry is an *atom*. A copy `Q_S` keeps the atoms in `S`, is re-encoded with
//! the postcard rules and parsed by the real `Pczt::parse`. Enumerated: all singletons, all pairs, all
//! ordered pairs of subsets of a reduced set, every permutation and grouping of 3 and 4 copies, every
//! struct field altered in one copy (conflict), every pair of `tx_modifiable` flag bytes.
//!
//! Roles: explicit-state search over *all orders* of the role multiset of each shape, with state
//! matching on the (signature-blinded) canonical encoding; after every role application the effects
//! identity (three opinions) must be what it was before any role ran.

mod lattice;
mod ref244;
mod roles;
mod shapes;
mod tree;

use mc_core::{catch, Args, Run};
use pczt::Pczt;
use rayon::prelude::*;
use serde_json::{json, Value};
use tree::T;
use zcash_primitives::transaction::txid::{to_txid, TxIdDigester};

/// Canonical form of a PCZT: the tree and bytes of its explicit v2 encoding.
pub fn canon(p: &Pczt) -> Result<(T, Vec<u8>), String> {
    let v2 = pczt::v2::Pczt::try_from(p.clone()).map_err(|e| format!("v2 encoding failed: {e:?}"))?;
    let t = tree::to_tree(&v2)?;
    Ok((t, v2.serialize()))
}

pub fn canon_bytes(p: &Pczt) -> Result<Vec<u8>, String> {
    pczt::v2::Pczt::try_from(p.clone()).map(|v| v.serialize()).map_err(|e| format!("v2 encoding failed: {e:?}"))
}

/// Encode a tree with the postcard rules and parse it with the real parser; the parsed value must
/// denote exactly the tree (its own v2 encoding is byte-identical).
pub fn parse_tree(t: &T) -> Result<Pczt, String> {
    let bytes = tree::pczt_bytes(2, t);
    let p = Pczt::parse(&bytes).map_err(|e| format!("parse: {e:?}"))?;
    // postcard is not self-describing: equal bytes do not prove the parser read the fields the
    // tree names, equal trees do.
    let (back, back_bytes) = canon(&p)?;
    if let Some(at) = tree::first_difference(t, &back) {
        return Err(format!("parsed value is not the value the tree denotes (differs at {at})"));
    }
    if back_bytes != bytes {
        return Err("parsed value re-encodes differently".into());
    }
    Ok(p)
}

/// The effects identity of a PCZT, three ways. `Ok(None)`: the PCZT's own path cannot compute it.
/// `Err`: the opinions disagree.
pub fn identity(p: &Pczt) -> Result<Option<[u8; 32]>, String> {
    let own = p.clone().into_effects().map(|tx| {
        let d = tx.digest(TxIdDigester);
        *to_txid(tx.version(), tx.consensus_branch_id(), &d).as_ref()
    });
    let mig = zcash_pool_migration::pczt_txid::pczt_txid(p).map(|t| *t.as_ref());
    let stored = p.clone().serialize().map_err(|e| format!("serialize: {e:?}")).and_then(|b| zcash_pool_migration::pczt_txid::stored_pczt_txid(&b).map(|t| *t.as_ref()).map_err(|e| format!("{e:?}")));
    let reference = {
        let mut r = p.clone();
        r.resolve_fields().map_err(|e| format!("resolve_fields: {e:?}")).and_then(|_| canon(&r)).and_then(|(t, _)| ref244::txid(&t))
    };
    match (&own, &mig, &stored) {
        (Ok(a), Ok(b), Ok(c)) => {
            if a != b || a != c {
                return Err(format!("identity opinions differ: into_effects={} pczt_txid={} stored_pczt_txid={}", hex::encode(a), hex::encode(b), hex::encode(c)));
            }
            match reference {
                Ok(r) if r == *a => Ok(Some(*a)),
                Ok(r) => Err(format!("reference digest of the PCZT fields {} differs from into_effects txid {}", hex::encode(r), hex::encode(a))),
                Err(e) => Err(format!("into_effects yields txid {} but the reference cannot be computed from the fields: {e}", hex::encode(a))),
            }
        }
        (Err(_), Err(_), Err(_)) => Ok(None),
        _ => Err(format!(
            "identity computable on some paths only: into_effects={} pczt_txid={} stored_pczt_txid={}",
            own.as_ref().map(hex::encode).map_err(|e| format!("{e:?}")).unwrap_or_else(|e| e),
            mig.as_ref().map(hex::encode).map_err(|e| format!("{e:?}")).unwrap_or_else(|e| e),
            stored.as_ref().map(hex::encode).unwrap_or_else(|e| e.clone()),
        )),
    }
}

/// The PCZT crate's own opinion only (used where an identity is needed as a classifier, not as a verdict).
pub fn identity_own(p: &Pczt) -> Option<[u8; 32]> {
    p.clone().into_effects().ok().map(|tx| {
        let d = tx.digest(TxIdDigester);
        *to_txid(tx.version(), tx.consensus_branch_id(), &d).as_ref()
    })
}

pub fn hex_vector() -> Vec<u8> {
    let src = include_str!("/repo/pczt/tests/firmware_compat.rs");
    let at = src.find("const FIRMWARE_V1_VECTOR").expect("firmware vector constant");
    let rest = &src[at..];
    let q0 = rest.find('"').expect("opening quote");
    let q1 = rest[q0 + 1..].find('"').expect("closing quote");
    hex::decode(&rest[q0 + 1..q0 + 1 + q1]).expect("hex")
}

pub fn replay(kind: &str, case: &Value) -> Result<(), String> {
    match kind {
        "lattice" => lattice::replay(case),
        "roles" => roles::replay(case),
        "firmware" => firmware().map(|_| ()),
        "subject" => match catch(|| lattice::Subjects::build(case["shape"].as_str().unwrap_or(""))) {
            Ok(Ok(_)) => Ok(()),
            Ok(Err(m)) => Err(m),
            Err(p) => Err(format!("panic: {p}")),
        },
        _ => Err(format!("unknown kind {kind}")),
    }
}

/// The firmware v1 vector parses, re-serialises identically through every path, and is stable.
fn firmware() -> Result<&'static str, String> {
    let r = catch(|| -> Result<&'static str, String> {
        let bytes = hex_vector();
        if bytes.get(4..8) != Some(&1u32.to_le_bytes()[..]) {
            return Err("vector is not a v1 encoding".into());
        }
        let p = Pczt::parse(&bytes).map_err(|e| format!("firmware v1 vector no longer parses: {e:?}"))?;
        let again = p.clone().serialize().map_err(|e| format!("{e:?}"))?;
        if again != bytes {
            return Err(format!("serialize() of the parsed firmware vector differs (version byte {})", again.get(4).copied().unwrap_or(0)));
        }
        let v1 = pczt::v1::Pczt::try_from(p.clone()).map_err(|e| format!("explicit v1 encoding refused: {e:?}"))?.serialize();
        if v1 != bytes {
            return Err("explicit v1 encoding differs from the vector".into());
        }
        let v2 = canon_bytes(&p)?;
        let p2 = Pczt::parse(&v2).map_err(|e| format!("v2 encoding of the vector does not parse: {e:?}"))?;
        if p2.serialize().map_err(|e| format!("{e:?}"))? != bytes {
            return Err("v1 -> v2 -> default serialize() does not return to the v1 bytes".into());
        }
        Ok("ok")
    });
    match r {
        Ok(x) => x,
        Err(p) => Err(format!("panic: {p}")),
    }
}

pub fn run(args: &Args) -> i32 {
    let run = Run::new(args, "model_checking");
    run.set_rule(
        "subjects: 4 builder-made PCZT shapes (at creation and at their maximal filled state, plus a saturated variant in which every \
         optional field and map carries a value) and the firmware v1 vector; field lattice = every filled Option and every map entry of the \
         v2 encoding tree; cases: every copy (encoding round trip + version choice), every singleton and pair of atoms, every ordered pair \
         of subsets of a reduced set (one atom per struct kind), every permutation x grouping of 3 and 4 copies, every struct field altered \
         in one copy (conflict), every pair of tx_modifiable flag bytes over the documented bit alphabet; roles: every order of the role \
         multiset of each shape as an explicit-state search (state = remaining roles + signature-blinded canonical bytes). A case is \
         distinct by (subject, check, atom/field set or role history).",
    );
    run.assume("copies that differ in an atom whose removal changes the reference txid (fallback_lock_time, sequence, lock-time requirements, v5 anchors, whole bundles) do not describe the same transaction: combine may refuse them or merge them, but must not panic and, if it merges, must keep the field");
    run.assume("tx_modifiable is documented as a bitfield merged bit by bit; its oracle is the documented per-bit rule, not equality");
    run.assume("a role application that returns an error leaves the party's input PCZT unchanged; the role is then spent");
    run.assume("parse(serialize(p)) is compared on the canonical v2 encoding, modulo the documented placeholder anchor of an otherwise empty shielded bundle");
    run.assume("the Redactor role is driven only over non-effecting fields, and never over the inputs (values, rcv, output recipient/rseed) of a field it has compacted away");
    run.assume("orchard, sapling-crypto, secp256k1 and BLAKE2b are trusted; randomised signatures and proofs are blinded in state keys only");

    match firmware() {
        Ok(o) => run.outcome(&format!("firmware:{o}")),
        Err(m) => run.fail("firmware", "firmware-v1-vector".into(), m, json!({})),
    }
    run.eval(b"firmware-v1-vector");

    // (1) subjects
    let t0 = std::time::Instant::now();
    let built: Vec<(String, Result<lattice::Subjects, String>)> =
        shapes::SHAPES.par_iter().map(|n| (n.to_string(), catch(|| lattice::Subjects::build(n)).unwrap_or_else(|p| Err(format!("panic: {p}"))))).collect();
    let mut subjects = vec![];
    for (n, s) in built {
        match s {
            Ok(s) => subjects.push(s),
            Err(m) if m.starts_with("identity: ") => run.fail("subject", format!("{n}:subject-identity"), m, json!({"shape": n})),
            Err(m) => mc_core::machinery_error(&format!("C13: cannot build subject {n}: {m}")),
        }
        run.eval(format!("subject:{n}").as_bytes());
    }
    run.section("subject_build_s", json!(t0.elapsed().as_secs_f64()));

    // (2)+(3) lattice and encoding
    let t1 = std::time::Instant::now();
    lattice::explore(&run, args, &subjects);
    run.section("lattice_s", json!(t1.elapsed().as_secs_f64()));
    // (4) roles
    let t2 = std::time::Instant::now();
    roles::explore(&run, args, &subjects);
    run.section("roles_s", json!(t2.elapsed().as_secs_f64()));

    run.require(run.outcomes_distinct() >= 12 || run.failure_count() > 0, "fewer than 12 distinct outcome classes observed");
    run.finish(&replay)
}

// ---------------------------------------------------------------------------------------------
// (3) Encoding: round trip and choice of the encoding version.

fn is_zero_anchor(bundle: &T) -> bool {
    bundle.field("anchor").and_then(|a| a.some()).and_then(|a| a.bytes()).map(|b| b.iter().all(|x| *x == 0)).unwrap_or(false)
}

/// Documented equivalence: an otherwise empty shielded bundle (no Sapling spends / no Orchard
/// actions) may carry the all-zero placeholder anchor in place of an absent one.
pub fn normalize(t: &T) -> T {
    let mut t = t.clone();
    for (name, list) in [("sapling", "spends"), ("orchard", "actions"), ("ironwood", "actions")] {
        let path = [tree::Step::Field(name), tree::Step::Inner];
        if let Some(b) = t.get_mut(&path) {
            let empty = b.field(list).map(|l| l.items().is_empty()).unwrap_or(false);
            if empty && is_zero_anchor(b) {
                if let Some(a) = b.get_mut(&[tree::Step::Field("anchor")]) {
                    *a = T::None;
                }
            }
        }
    }
    t
}

/// "The older encoding whenever it can represent the content", as a predicate on the fields, from
/// the documentation in pczt/src/lib.rs and the v1 modules: the v1 encoding predates the v6
/// transaction format and the Ironwood bundle, carries only V2 note plaintexts, always carries an
/// anchor (a placeholder is possible only where nothing is spent), and has no room for the derived
/// forms of cv_net / cmx / enc_ciphertext.
pub fn v1_representable(t: &T) -> bool {
    let g = match t.field("global") {
        Some(g) => g,
        None => return false,
    };
    if g.field("tx_version").and_then(|v| v.as_u64()) == Some(6) {
        return false;
    }
    if t.field("ironwood").map(|i| i.some().is_some()).unwrap_or(true) {
        return false;
    }
    if let Some(s) = t.field("sapling").and_then(|s| s.some()) {
        let spends_empty = s.field("spends").map(|l| l.items().is_empty()).unwrap_or(false);
        if s.field("anchor").and_then(|a| a.some()).is_none() && !spends_empty {
            return false;
        }
    }
    if let Some(o) = t.field("orchard").and_then(|s| s.some()) {
        if !matches!(o.field("note_version"), Some(T::Variant(0, _, _))) {
            return false;
        }
        let actions = o.field("actions").map(|l| l.items()).unwrap_or(&[]);
        if o.field("anchor").and_then(|a| a.some()).is_none() && !actions.is_empty() {
            return false;
        }
        for a in actions {
            let out = a.field("output");
            if a.field("cv_net").and_then(|x| x.some()).is_none()
                || out.and_then(|o| o.field("cmx")).and_then(|x| x.some()).is_none()
                || !matches!(out.and_then(|o| o.field("enc_ciphertext")), Some(T::Variant(0, _, _)))
            {
                return false;
            }
        }
    }
    true
}

pub fn encoding_check(p: &Pczt) -> Result<&'static str, String> {
    let (t, cb) = canon(p)?;
    let want_v1 = v1_representable(&t);
    let b = p.clone().serialize().map_err(|e| format!("serialize failed: {e:?}"))?;
    let ver = u32::from_le_bytes(b.get(4..8).ok_or("short encoding")?.try_into().map_err(|_| "short encoding")?);
    if want_v1 != (ver == 1) {
        return Err(format!("serialize() chose encoding v{ver} but the content is{} representable in v1", if want_v1 { "" } else { " not" }));
    }
    match (pczt::v1::Pczt::try_from(p.clone()), want_v1) {
        (Ok(x), true) => {
            if x.serialize() != b {
                return Err("explicit v1 encoding differs from serialize()".into());
            }
        }
        (Err(_), false) => {}
        (Ok(_), false) => return Err("v1::Pczt::try_from accepts content the v1 encoding cannot represent".into()),
        (Err(e), true) => return Err(format!("v1::Pczt::try_from refuses v1-representable content: {e:?}")),
    }
    let p2 = Pczt::parse(&b).map_err(|e| format!("parse(serialize(p)) failed: {e:?}"))?;
    let (t2, _) = canon(&p2)?;
    if normalize(&t2) != normalize(&t) {
        let diff = tree::first_difference(&normalize(&t), &normalize(&t2)).unwrap_or_default();
        return Err(format!("parse(serialize(p)) differs from p at {diff} (encoding v{ver})"));
    }
    let b2 = p2.serialize().map_err(|e| format!("re-serialize failed: {e:?}"))?;
    if b2 != b {
        return Err("serialize(parse(serialize(p))) is not stable".into());
    }
    let p3 = Pczt::parse(&cb).map_err(|e| format!("parse of the explicit v2 encoding failed: {e:?}"))?;
    if canon_bytes(&p3)? != cb {
        return Err("explicit v2 encoding does not round-trip".into());
    }
    Ok(if ver == 1 { "v1" } else { "v2" })
}
