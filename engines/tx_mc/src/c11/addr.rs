//! Address derivation: the commutation square over key levels, exact receiver sets, find_address,
//! and recognition of derived addresses by the key.

use super::keys::{di, di_val, hash160, subset_name, KeyCtx, Levels, O, S, T, T_LIMIT};
use super::model::{err_matches, expect_address, expect_find, seen, Expect, Facts, FindExpect, Req, Seen};
use mc_core::catch;
use std::collections::BTreeSet;
use zcash_keys::address::{Address, UnifiedAddress};
use zcash_keys::encoding::AddressCodec;
use zcash_keys::keys::{AddressGenerationError, UnifiedAddressRequest, UnifiedIncomingViewingKey};
use zcash_transparent::address::TransparentAddress;
use zcash_transparent::keys::{IncomingViewingKey, NonHardenedChildIndex, TransparentKeyScope};
use zip32::{DiversifierIndex, Scope};

/// Level-0 receivers at one index (computed once per (key, index)).
pub struct At {
    pub j: u128,
    pub o: orchard::Address,
    pub s: Option<sapling::PaymentAddress>,
    pub t: Option<TransparentAddress>,
}

impl At {
    pub fn new(ctx: &KeyCtx, j: u128) -> At {
        At { j, o: ctx.l0_orchard(j), s: ctx.l0_sapling(j), t: ctx.l0_transparent(j) }
    }
    pub fn facts(&self, mask: u8) -> Facts {
        Facts { mask, s_valid: self.s.is_some(), t_valid: self.t.is_some() }
    }
}

/// Everything the model needs around one start index, computed once per (key, index): the
/// level-0 receivers at `j`, the Sapling validity of `j, j+1, ..` up to the first valid index, and
/// the level-0 receivers at that index.
pub struct Window {
    pub at: At,
    pub s_valid: Vec<bool>,
    pub next: Option<At>,
}

impl Window {
    pub fn new(ctx: &KeyCtx, j: u128) -> Window {
        let at = At::new(ctx, j);
        let mut s_valid = vec![at.s.is_some()];
        let mut next = None;
        if at.s.is_none() {
            let mut k = j + 1;
            while k <= super::keys::MAX_DI && k - j <= super::model::FIND_HORIZON + 1 {
                let v = ctx.sapling_valid(k);
                s_valid.push(v);
                if v {
                    next = Some(At::new(ctx, k));
                    break;
                }
                k += 1;
            }
        }
        Window { at, s_valid, next }
    }
    fn valid(&self, ctx: &KeyCtx, k: u128) -> bool {
        match self.s_valid.get((k - self.at.j) as usize) {
            Some(v) => *v,
            None => ctx.sapling_valid(k),
        }
    }
}

fn ua_mask(ua: &UnifiedAddress) -> u8 {
    (if ua.has_orchard() { O } else { 0 }) | (if ua.has_sapling() { S } else { 0 }) | (if ua.has_transparent() { T } else { 0 })
}

/// The unified address must contain exactly the receivers `m`, each equal to the level-0 one.
fn receivers_exact(ua: &UnifiedAddress, m: u8, at: &At) -> Result<(), String> {
    let got = ua_mask(ua);
    if got != m {
        return Err(format!("receiver set is {{{}}}, the request and key call for {{{}}}", subset_name(got), subset_name(m)));
    }
    if m & O != 0 && ua.orchard() != Some(&at.o) {
        return Err("Orchard receiver differs from the one derived from the spending key".into());
    }
    if m & S != 0 && ua.sapling() != at.s.as_ref() {
        return Err("Sapling receiver differs from the one derived from the extended spending key".into());
    }
    if m & T != 0 && ua.transparent() != at.t.as_ref() {
        return Err("transparent receiver differs from HASH160 of the public key of the derived secret key".into());
    }
    if !ua.unknown().is_empty() {
        return Err("derived address carries unknown receivers".into());
    }
    Ok(())
}

type AddrRes = Result<Result<UnifiedAddress, AddressGenerationError>, String>;

fn judge_address(level: &str, r: &AddrRes, exp: &Expect, at: &At) -> Result<Option<Seen>, String> {
    match (r, exp) {
        (Err(p), _) => Err(format!("{level}: panic: {p}")),
        (Ok(Ok(ua)), Expect::Ok(m)) => receivers_exact(ua, *m, at).map(|_| None).map_err(|e| format!("{level}: {e}")),
        (Ok(Ok(ua)), Expect::Err(c)) => Err(format!("{level}: returned an address with receivers {{{}}} where an error is documented ({c:?})", subset_name(ua_mask(ua)))),
        (Ok(Err(e)), Expect::Ok(m)) => Err(format!("{level}: error {e:?} where an address with receivers {{{}}} exists", subset_name(*m))),
        (Ok(Err(e)), Expect::Err(c)) => {
            let s = seen(e);
            if err_matches(c, &s, at.j) {
                Ok(Some(s))
            } else {
                Err(format!("{level}: error {e:?} does not report any of the causes {c:?} at index {}", at.j))
            }
        }
    }
}

type AddrFn<'a> = Box<dyn Fn(DiversifierIndex, UnifiedAddressRequest) -> Result<UnifiedAddress, AddressGenerationError> + 'a>;

/// All levels that answer `address(j, req)` for this subset. `UnifiedFullViewingKey::address`
/// itself (a delegate to the derived UIVK) is driven on the original UFVK for every request and
/// on the decoded UFVKs for `AllAvailableKeys`; for the other requests the decoded UFVKs are
/// driven through the UIVK derived from them once.
fn all_levels<'a>(lv: &'a Levels, req: Req) -> Vec<(&'static str, AddrFn<'a>)> {
    let mut v: Vec<(&'static str, AddrFn<'a>)> = Vec::new();
    v.push(("ufvk", Box::new(move |j, r| lv.ufvk.address(j, r))));
    v.push(("uivk", Box::new(move |j, r| lv.uivk.address(j, r))));
    if let Some(k) = &lv.dec_ufvk_uivk {
        v.push(("decoded-ufvk-to-uivk", Box::new(move |j, r| k.address(j, r))));
    }
    if let Some(k) = &lv.dec_uivk {
        v.push(("decoded-uivk", Box::new(move |j, r| k.address(j, r))));
    }
    if let Some(k) = &lv.dec_usk_uivk {
        v.push(("decoded-usk-to-ufvk-to-uivk", Box::new(move |j, r| k.address(j, r))));
    }
    if req == Req::All {
        if let Some(k) = &lv.dec_ufvk {
            v.push(("decoded-ufvk", Box::new(move |j, r| k.address(j, r))));
        }
        if let Some(k) = &lv.dec_usk_ufvk {
            v.push(("decoded-usk-to-ufvk", Box::new(move |j, r| k.address(j, r))));
        }
    }
    v
}

/// One (key, subset, index, request) case of the commutation square.
pub fn check_address(ctx: &KeyCtx, lv: &Levels, at: &At, req: Req, foreign: &UnifiedIncomingViewingKey) -> Result<String, String> {
    let real = req.real().ok_or("request is not constructible")?;
    let exp = expect_address(&at.facts(lv.mask), req);
    let j = di(at.j);
    let mut first: Option<Option<Seen>> = None;
    let mut first_ua: Option<UnifiedAddress> = None;
    for (name, f) in all_levels(lv, req) {
        let r: AddrRes = catch(|| f(j, real));
        let s = judge_address(name, &r, &exp, at)?;
        match &first {
            None => {
                first = Some(s);
                if let Ok(Ok(ua)) = r {
                    first_ua = Some(ua);
                }
            }
            Some(f0) => {
                if *f0 != s {
                    return Err(format!("{name}: reports {s:?} where the UFVK level reports {f0:?}"));
                }
                if let (Ok(Ok(ua)), Some(u0)) = (&r, &first_ua) {
                    if ua != u0 {
                        return Err(format!("{name}: address differs from the UFVK-level address"));
                    }
                }
            }
        }
    }
    match (&exp, first_ua) {
        (Expect::Ok(m), Some(ua)) => {
            // the derived address survives its string encoding
            let r = catch(|| -> Result<(), String> {
                let s = ua.encode(&ctx.net);
                match Address::decode(&ctx.net, &s) {
                    Some(Address::Unified(d)) if d == ua => {}
                    other => return Err(format!("Address::decode(encode(ua)) = {other:?}")),
                }
                let d = <UnifiedAddress as AddressCodec<_>>::decode(&ctx.net, &s).map_err(|e| format!("UnifiedAddress::decode(encode(ua)) failed: {e}"))?;
                if d != ua || d.encode(&ctx.net) != s {
                    return Err("UnifiedAddress does not survive encode/decode/encode".into());
                }
                // pool capabilities follow the receivers (Ironwood shares the Orchard receiver)
                let a = Address::Unified(ua.clone());
                use zcash_protocol::{PoolType, ShieldedPool};
                if a.can_receive_as(PoolType::Shielded(ShieldedPool::Orchard)) != (m & O != 0)
                    || a.can_receive_as(PoolType::Shielded(ShieldedPool::Ironwood)) != (m & O != 0)
                    || a.can_receive_as(PoolType::Shielded(ShieldedPool::Sapling)) != (m & S != 0)
                    || a.can_receive_as(PoolType::Transparent) != (m & T != 0)
                    || a.to_transparent_address() != ua.transparent().copied()
                    || a.to_sapling_address() != ua.sapling().copied()
                {
                    return Err("can_receive_as / to_*_address disagree with the receivers of the address".into());
                }
                // the key recognises the address and recovers the index
                let own: BTreeSet<u128> = lv.uivk.decrypt_diversifiers(&ua).iter().map(di_val).collect();
                let want: BTreeSet<u128> = [at.j].into_iter().collect();
                if own != want {
                    return Err(format!("decrypt_diversifiers on the key's own address gives {own:?}, expected {{{}}}", at.j));
                }
                if let (Some(k), Req::All) = (&lv.dec_uivk, req) {
                    let d: BTreeSet<u128> = k.decrypt_diversifiers(&ua).iter().map(di_val).collect();
                    if d != want {
                        return Err(format!("decoded UIVK: decrypt_diversifiers gives {d:?}, expected {{{}}}", at.j));
                    }
                }
                let f = foreign.decrypt_diversifiers(&ua);
                if !f.is_empty() {
                    return Err(format!("an unrelated key attributes the address to itself at {f:?}"));
                }
                Ok(())
            });
            match r {
                Ok(Ok(())) => Ok(format!("ok:{}", subset_name(*m))),
                Ok(Err(e)) => Err(e),
                Err(p) => Err(format!("panic: {p}")),
            }
        }
        (Expect::Err(_), _) => Ok(format!("err:{}", first.flatten().map(|s| s.class()).unwrap_or("?"))),
        (Expect::Ok(_), None) => Err("no level evaluated".into()),
    }
}

type FindRes = Result<Result<(UnifiedAddress, DiversifierIndex), AddressGenerationError>, String>;

fn judge_find(level: &str, r: &FindRes, exp: &FindExpect, j: u128, found_at: Option<&At>) -> Result<String, String> {
    match (r, exp) {
        (Err(p), _) => Err(format!("{level}: panic: {p}")),
        (_, FindExpect::Horizon) => Err("model horizon exceeded".into()),
        (Ok(Ok((ua, k))), FindExpect::Ok(ek, m)) => {
            let k = di_val(k);
            if k != *ek {
                return Err(format!("{level}: found index {k}, the smallest index >= {j} with a conforming address is {ek}"));
            }
            let at = found_at.expect("At for expected index");
            receivers_exact(ua, *m, at).map_err(|e| format!("{level}: at found index {k}: {e}"))?;
            Ok(if k == j { "ok:at-start".into() } else { "ok:advanced".into() })
        }
        (Ok(Ok((ua, k))), FindExpect::Err { causes, .. }) => {
            Err(format!("{level}: returned an address with receivers {{{}}} at {} where no conforming address exists ({causes:?})", subset_name(ua_mask(ua)), di_val(k)))
        }
        (Ok(Err(e)), FindExpect::Ok(ek, m)) => Err(format!(
            "{level}: error {e:?}, but index {ek} (>= {j}) yields a conforming address with receivers {{{}}}",
            subset_name(*m)
        )),
        (Ok(Err(e)), FindExpect::Err { causes, at_start }) => {
            let s = seen(e);
            let exhausted = causes.contains(&super::model::ErrClass::Exhausted);
            let ok = if exhausted { s == Seen::Exhausted } else if *at_start { err_matches(causes, &s, j) } else { true };
            if ok {
                Ok(format!("err:{}", s.class()))
            } else {
                Err(format!("{level}: error {e:?} does not report {causes:?}"))
            }
        }
    }
}

/// One (key, subset, start index, request) case of `find_address` (and `default_address` at 0).
pub fn check_find(ctx: &KeyCtx, lv: &Levels, win: &Window, req: Req) -> Result<String, String> {
    let real = req.real().ok_or("request is not constructible")?;
    let mask = lv.mask;
    let j = win.at.j;
    // transparent derivability: the non-hardened range (the receiver itself is compared with the
    // secret-key-side derivation at the found index)
    let exp = expect_find(mask, j, req, &|k| win.valid(ctx, k), &|_| mask & T != 0 && ctx.has_t());
    if exp == FindExpect::Horizon {
        return Err("model horizon exceeded".into());
    }
    let fresh;
    let found_at: Option<&At> = match &exp {
        FindExpect::Ok(k, _) if *k == j => Some(&win.at),
        FindExpect::Ok(k, _) if win.next.as_ref().map(|a| a.j) == Some(*k) => win.next.as_ref(),
        FindExpect::Ok(k, _) => {
            fresh = At::new(ctx, *k);
            Some(&fresh)
        }
        _ => None,
    };
    let dj = di(j);
    let mut label = String::new();
    let mut results: Vec<(&str, FindRes)> = vec![
        ("ufvk.find_address", catch(|| lv.ufvk.find_address(dj, real))),
        ("uivk.find_address", catch(|| lv.uivk.find_address(dj, real))),
    ];
    if let Some(k) = &lv.dec_uivk {
        results.push(("decoded-uivk.find_address", catch(|| k.find_address(dj, real))));
    }
    if let (Some(k), Req::All) = (&lv.dec_ufvk, req) {
        results.push(("decoded-ufvk.find_address", catch(|| k.find_address(dj, real))));
    }
    if j == 0 {
        results.push(("ufvk.default_address", catch(|| lv.ufvk.default_address(real))));
        results.push(("uivk.default_address", catch(|| lv.uivk.default_address(real))));
        // The USK helper is documented as the UFVK's default address, unwrapped; it is only
        // comparable when that exists.
        if let (Some(_), Ok(usk), FindExpect::Ok(..)) = (&lv.dec_usk_ufvk, &ctx.usk, &exp) {
            results.push(("usk.default_address", catch(|| Ok(usk.default_address(real)))));
        }
    }
    for (name, r) in &results {
        let l = judge_find(name, r, &exp, j, found_at)?;
        if label.is_empty() {
            label = l;
        } else if label != l {
            return Err(format!("{name}: outcome {l} differs from ufvk.find_address outcome {label}"));
        }
    }
    // self-consistency with `address` at the found index
    if let (FindExpect::Ok(k, _), Some((_, Ok(Ok((ua, _)))))) = (&exp, results.first()) {
        match catch(|| lv.uivk.address(di(*k), real)) {
            Ok(Ok(a)) if &a == ua => {}
            other => return Err(format!("find_address result differs from address() at the found index: {other:?}")),
        }
    }
    Ok(label)
}

/// Recognition of the component-level addresses at one index: Sapling and Orchard diversifier
/// recovery with scope, transparent public-key derivation for all three scopes.
/// Returns outcome labels (several facts are observed per case).
pub fn check_recognition(ctx: &KeyCtx, j: u128) -> Result<Vec<String>, String> {
    let r = catch(|| -> Result<Vec<String>, String> {
        let mut out = Vec::new();
        let dj = di(j);
        // ---- Sapling ----
        let ext_ivk = ctx.dfvk.to_external_ivk();
        match ctx.l0_sapling(j) {
            Some(pa) => {
                #[allow(deprecated)]
                let via_extfvk = ctx.extsk.to_extended_full_viewing_key().address(dj);
                if via_extfvk != Some(pa) {
                    return Err("Sapling: extended FVK and diversifiable FVK derive different addresses".into());
                }
                if ext_ivk.address_at(dj) != Some(pa) {
                    return Err("Sapling: external IVK derives a different address than the FVK".into());
                }
                if ext_ivk.decrypt_diversifier(&pa).map(|d| di_val(&d)) != Some(j) {
                    return Err("Sapling: external IVK does not recover the diversifier index of its own address".into());
                }
                match ctx.dfvk.decrypt_diversifier(&pa) {
                    Some((d, Scope::External)) if di_val(&d) == j => {}
                    other => return Err(format!("Sapling: DFVK::decrypt_diversifier on an external address gives {other:?}")),
                }
                if ctx.dfvk.diversified_address(*pa.diversifier()) != Some(pa) {
                    return Err("Sapling: diversified_address(d) does not reproduce the address".into());
                }
                out.push("sapling:external:recognised".into());
            }
            None => {
                if ext_ivk.address_at(dj).is_some() {
                    return Err("Sapling: IVK derives an address at an index the FVK rejects".into());
                }
                out.push("sapling:external:invalid-index".into());
            }
        }
        match ctx.l0_sapling_internal(j) {
            Some(pa) => {
                if ctx.dfvk.diversified_change_address(*pa.diversifier()) != Some(pa) {
                    return Err("Sapling: diversified_change_address(d) does not reproduce the internal address".into());
                }
                if ctx.dfvk.diversified_address(*pa.diversifier()) == Some(pa) {
                    return Err("Sapling: an internal address is also an external address".into());
                }
                if ext_ivk.decrypt_diversifier(&pa).is_some() {
                    return Err("Sapling: external IVK claims an internal address".into());
                }
                // sapling-crypto's own scope recovery for internal addresses (trusted crate; observed only)
                match ctx.dfvk.decrypt_diversifier(&pa) {
                    Some((d, Scope::Internal)) if di_val(&d) == j => out.push("sapling:internal:dfvk-recovers-index-and-scope".into()),
                    Some(other) => return Err(format!("Sapling: DFVK::decrypt_diversifier on an internal address gives a wrong answer {other:?}")),
                    None => out.push("sapling:internal:dfvk-decrypt_diversifier-none(external-crate)".into()),
                }
            }
            None => out.push("sapling:internal:invalid-index".into()),
        }
        // ---- Orchard ----
        let o_ext = ctx.l0_orchard(j);
        let o_int = ctx.ofvk.address_at(dj, Scope::Internal);
        let oivk_e = ctx.ofvk.to_ivk(Scope::External);
        let oivk_i = ctx.ofvk.to_ivk(Scope::Internal);
        if oivk_e.address_at(dj) != o_ext || oivk_i.address_at(dj) != o_int {
            return Err("Orchard: IVK and FVK derive different addresses".into());
        }
        if oivk_e.diversifier_index(&o_ext).map(|d| di_val(&d)) != Some(j) || oivk_i.diversifier_index(&o_int).map(|d| di_val(&d)) != Some(j) {
            return Err("Orchard: IVK does not recover the diversifier index of its own address".into());
        }
        if oivk_e.diversifier_index(&o_int).is_some() || oivk_i.diversifier_index(&o_ext).is_some() {
            return Err("Orchard: IVK of the other scope claims the address".into());
        }
        if ctx.ofvk.scope_for_address(&o_ext) != Some(Scope::External) || ctx.ofvk.scope_for_address(&o_int) != Some(Scope::Internal) {
            return Err("Orchard: scope_for_address gives the wrong scope".into());
        }
        out.push("orchard:both-scopes:recognised".into());
        // ---- transparent ----
        if let (Some(tpub), Some(tpriv)) = (&ctx.tpub, &ctx.tpriv) {
            if j < T_LIMIT {
                let idx = NonHardenedChildIndex::from_index(j as u32).ok_or("index rejected below 2^31")?;
                let acct = zip32::AccountId::try_from(ctx.account).map_err(|_| "account")?;
                for (scope, sn) in [(TransparentKeyScope::EXTERNAL, 0u32), (TransparentKeyScope::INTERNAL, 1), (TransparentKeyScope::EPHEMERAL, 2)] {
                    let pk = tpub.derive_address_pubkey(scope, idx).map_err(|e| format!("derive_address_pubkey: {e:?}"))?;
                    let want = TransparentAddress::PublicKeyHash(hash160(&pk.serialize()));
                    let addr = match sn {
                        0 => tpub.derive_external_ivk().and_then(|k| k.derive_address(idx)),
                        1 => tpub.derive_internal_ivk().and_then(|k| k.derive_address(idx)),
                        _ => tpub.derive_ephemeral_ivk().and_then(|k| k.derive_ephemeral_address(idx)),
                    }
                    .map_err(|e| format!("transparent address derivation: {e:?}"))?;
                    if addr != want {
                        return Err(format!("transparent scope {sn}: address is not HASH160 of the public key derived at the same path"));
                    }
                    let sk = tpriv.derive_secret_key(scope, idx).map_err(|e| format!("derive_secret_key: {e:?}"))?;
                    if secp256k1::PublicKey::from_secret_key(&ctx.secp, &sk) != pk {
                        return Err(format!("transparent scope {sn}: public derivation disagrees with the public key of the derived secret key"));
                    }
                    let cn = |i: u32, h: bool| bip32::ChildNumber::new(i, h).map_err(|e| format!("{e:?}"));
                    let path = [cn(44, true)?, cn(ctx.coin_type, true)?, cn(ctx.account, true)?, cn(sn, false)?, cn(j as u32, false)?];
                    match tpub.derive_pubkey_at_bip32_path(&ctx.net, acct, &path) {
                        Ok(p) if p == pk => {}
                        other => return Err(format!("derive_pubkey_at_bip32_path gives {other:?}")),
                    }
                    // a path for another account or coin type must be refused
                    let other_acct = if ctx.account == 0 { 1 } else { ctx.account - 1 };
                    let bad = [cn(44, true)?, cn(ctx.coin_type, true)?, cn(other_acct, true)?, cn(sn, false)?, cn(j as u32, false)?];
                    if tpub.derive_pubkey_at_bip32_path(&ctx.net, acct, &bad).is_ok() {
                        return Err("derive_pubkey_at_bip32_path accepts a path of another account".into());
                    }
                    let bad = [cn(44, true)?, cn(ctx.coin_type ^ 1, true)?, cn(ctx.account, true)?, cn(sn, false)?, cn(j as u32, false)?];
                    if tpub.derive_pubkey_at_bip32_path(&ctx.net, acct, &bad).is_ok() {
                        return Err("derive_pubkey_at_bip32_path accepts a path of another coin type".into());
                    }
                }
                if ctx.l0_transparent(j).is_none() {
                    return Err("secret-key side derivation failed below 2^31".into());
                }
                out.push("transparent:three-scopes:pubkey-hashes-to-address".into());
            } else {
                if NonHardenedChildIndex::try_from(dj).is_ok() {
                    return Err("NonHardenedChildIndex accepts a diversifier index >= 2^31".into());
                }
                out.push("transparent:index-out-of-range".into());
            }
        }
        Ok(out)
    });
    match r {
        Ok(x) => x,
        Err(p) => Err(format!("panic: {p}")),
    }
}

/// `decrypt_diversifiers` attributes *each* shielded receiver separately: addresses assembled
/// from the key's receivers at two different indices, and from one own and one foreign receiver,
/// seen by the UIVK of every component subset.
pub fn check_ua_recognition(ctx: &KeyCtx, lvs: &[Levels], win: &Window, foreign: &UnifiedIncomingViewingKey) -> Result<Vec<String>, String> {
    let r = catch(|| -> Result<Vec<String>, String> {
        let mut out = Vec::new();
        let at = &win.at;
        let j = at.j;
        // a second index whose Sapling diversifier is valid
        let j2 = match (&at.s, &win.next) {
            (None, Some(n)) => Some(n.j),
            _ => ctx.first_sapling(j + 1, true),
        };
        let s2 = j2.and_then(|k| ctx.l0_sapling(k));
        let foreign_o = foreign.orchard().as_ref().map(|k| k.address_at(di(j)));
        let set = |v: &[Option<u128>]| -> BTreeSet<u128> { v.iter().flatten().copied().collect() };
        for lv in lvs {
            if lv.mask & (O | S) == 0 {
                continue;
            }
            let (ho, hs) = (lv.mask & O != 0, lv.mask & S != 0);
            let see = |ua: &UnifiedAddress| -> BTreeSet<u128> { lv.uivk.decrypt_diversifiers(ua).iter().map(di_val).collect() };
            // all level-0 receivers of index j (built by hand, not by the key under test)
            let full = UnifiedAddress::from_receivers(Some(at.o), at.s, at.t).ok_or("from_receivers refused an Orchard receiver")?;
            let want = set(&[ho.then_some(j), (hs && at.s.is_some()).then_some(j)]);
            let got = see(&full);
            if got != want {
                return Err(format!("UIVK[{}] sees {got:?} in the key's full address at index {j}, expected {want:?}", subset_name(lv.mask)));
            }
            out.push("full-address".to_string());
            if let (Some(k2), Some(s2)) = (j2, s2) {
                let mixed = UnifiedAddress::from_receivers(Some(at.o), Some(s2), None).ok_or("from_receivers")?;
                let want = set(&[ho.then_some(j), hs.then_some(k2)]);
                let got = see(&mixed);
                if got != want {
                    return Err(format!("UIVK[{}] sees {got:?} in an address with its Orchard receiver at {j} and its Sapling receiver at {k2}, expected {want:?}", subset_name(lv.mask)));
                }
                out.push("two-indices".to_string());
                if let Some(fo) = foreign_o {
                    let franken = UnifiedAddress::from_receivers(Some(fo), Some(s2), None).ok_or("from_receivers")?;
                    let want = set(&[hs.then_some(k2)]);
                    let got = see(&franken);
                    if got != want {
                        return Err(format!("UIVK[{}] sees {got:?} in an address with a foreign Orchard receiver and its own Sapling receiver at {k2}, expected {want:?}", subset_name(lv.mask)));
                    }
                    out.push("foreign-orchard-own-sapling".to_string());
                }
            }
        }
        Ok(out)
    });
    match r {
        Ok(x) => x,
        Err(p) => Err(format!("panic: {p}")),
    }
}
