//! Notes encrypted to derived addresses: a Sapling note, an Orchard (version 2) note and an
//! Ironwood (version 3) note to the receiver at each index and scope must decrypt under the
//! incoming viewing key of the same key and scope -- obtained at every key level -- and under no
//! other key of the lattice (all other seeds, coin types, accounts and the other scope).

use super::keys::{di, seed_by_name, KeyCtx, Levels};
use mc_core::catch;
use orchard::note::{ExtractedNoteCommitment, Nullifier, RandomSeed, Rho};
use orchard::note_encryption::{CompactAction, IronwoodDomain, IronwoodNoteEncryption, OrchardDomain, OrchardNoteEncryption};
use orchard::NoteVersion;
use rand_chacha::ChaChaRng;
use rand_core::SeedableRng;
use sapling::note_encryption::{sapling_note_encryption, try_sapling_compact_note_decryption, try_sapling_note_decryption, CompactOutputDescription, SaplingDomain, Zip212Enforcement};
use sha2::{Digest, Sha256};
use zcash_note_encryption::{try_compact_note_decryption, try_note_decryption, Domain, EphemeralKeyBytes, ShieldedOutput, ENC_CIPHERTEXT_SIZE};
use zip32::{AccountId, Scope};

pub const POOLS: [&str; 3] = ["sapling", "orchard", "ironwood"];
pub const COIN_TYPES: [(u32, &str); 2] = [(133, "main"), (1, "test")];

pub struct IvkEntry {
    pub seed: String,
    pub coin_type: u32,
    pub account: u32,
    pub internal: bool,
    pub sap: sapling::keys::PreparedIncomingViewingKey,
    pub orch: orchard::keys::PreparedIncomingViewingKey,
}

impl IvkEntry {
    pub fn label(&self) -> String {
        format!("{}/coin{}/{}/{}", self.seed, self.coin_type, self.account, if self.internal { "internal" } else { "external" })
    }
}

/// Every incoming viewing key of the lattice, derived component-wise from the seeds.
pub struct Lattice {
    pub ivks: Vec<IvkEntry>,
}

impl Lattice {
    pub fn build(seeds: &[String], accounts: &[u32]) -> Result<Lattice, String> {
        let mut ivks = Vec::new();
        for s in seeds {
            let seed = seed_by_name(s).ok_or_else(|| format!("unknown seed {s}"))?;
            for (coin, _) in COIN_TYPES {
                for &a in accounts {
                    let acct = AccountId::try_from(a).map_err(|_| format!("bad account {a}"))?;
                    let dfvk = zcash_keys::keys::sapling::spending_key(&seed, coin, acct).to_diversifiable_full_viewing_key();
                    let osk = orchard::keys::SpendingKey::from_zip32_seed(&seed, coin, acct).map_err(|e| format!("{e:?}"))?;
                    let ofvk = orchard::keys::FullViewingKey::from(&osk);
                    for scope in [Scope::External, Scope::Internal] {
                        ivks.push(IvkEntry {
                            seed: s.clone(),
                            coin_type: coin,
                            account: a,
                            internal: scope == Scope::Internal,
                            sap: sapling::keys::PreparedIncomingViewingKey::new(&dfvk.to_ivk(scope)),
                            orch: ofvk.to_ivk(scope).prepare(),
                        });
                    }
                }
            }
        }
        Ok(Lattice { ivks })
    }
}

struct FullOut {
    epk: EphemeralKeyBytes,
    cm: [u8; 32],
    enc: [u8; ENC_CIPHERTEXT_SIZE],
}
macro_rules! full_out {
    ($d:ty) => {
        impl ShieldedOutput<$d, ENC_CIPHERTEXT_SIZE> for FullOut {
            fn ephemeral_key(&self) -> EphemeralKeyBytes {
                EphemeralKeyBytes(self.epk.0)
            }
            fn cmstar_bytes(&self) -> [u8; 32] {
                self.cm
            }
            fn enc_ciphertext(&self) -> &[u8; ENC_CIPHERTEXT_SIZE] {
                &self.enc
            }
        }
    };
}
full_out!(SaplingDomain);
full_out!(OrchardDomain);
full_out!(IronwoodDomain);

fn tagged(tag: &str, ctx: &KeyCtx, scope: Scope, pool: &str, j: u128, n: u32) -> [u8; 32] {
    let mut h = Sha256::new();
    h.update(tag.as_bytes());
    h.update(ctx.seed_name.as_bytes());
    h.update(ctx.coin_type.to_le_bytes());
    h.update(ctx.account.to_le_bytes());
    h.update([(scope == Scope::Internal) as u8]);
    h.update(pool.as_bytes());
    h.update(j.to_le_bytes());
    h.update(n.to_le_bytes());
    h.finalize().into()
}

const VALUE: u64 = 123_456_789;

fn memo_for(seedbytes: &[u8; 32]) -> [u8; 512] {
    let mut m = [0u8; 512];
    for (i, b) in m.iter_mut().enumerate() {
        *b = seedbytes[i % 32] ^ (i as u8);
    }
    m
}

/// Viewing keys of the note's own key and scope obtained through each key level.
pub struct OwnSapling(Vec<(String, sapling::keys::PreparedIncomingViewingKey)>);
pub struct OwnOrchard(Vec<(String, orchard::keys::PreparedIncomingViewingKey)>);

/// Own-key viewing keys for both scopes ([external, internal]), derived once per key.
pub struct Own {
    sap: [OwnSapling; 2],
    orch: [OwnOrchard; 2],
}

impl Own {
    pub fn new(lv: &Levels) -> Own {
        Own { sap: [own_sapling(lv, Scope::External), own_sapling(lv, Scope::Internal)], orch: [own_orchard(lv, Scope::External), own_orchard(lv, Scope::Internal)] }
    }
}

fn own_sapling(lv: &Levels, scope: Scope) -> OwnSapling {
    let mut v = Vec::new();
    let p = |k: &sapling::SaplingIvk| sapling::keys::PreparedIncomingViewingKey::new(k);
    if let Some(k) = lv.ufvk.sapling() {
        v.push(("ufvk".to_string(), p(&k.to_ivk(scope))));
    }
    if let Some(k) = lv.dec_ufvk.as_ref().and_then(|u| u.sapling()) {
        v.push(("decoded-ufvk".to_string(), p(&k.to_ivk(scope))));
    }
    if let Some(k) = lv.dec_usk_ufvk.as_ref().and_then(|u| u.sapling()) {
        v.push(("decoded-usk-to-ufvk".to_string(), p(&k.to_ivk(scope))));
    }
    if scope == Scope::External {
        if let Some(k) = lv.uivk.sapling() {
            v.push(("uivk".to_string(), k.prepare()));
        }
        if let Some(k) = lv.dec_uivk.as_ref().and_then(|u| u.sapling().as_ref()) {
            v.push(("decoded-uivk".to_string(), k.prepare()));
        }
    }
    OwnSapling(v)
}

fn own_orchard(lv: &Levels, scope: Scope) -> OwnOrchard {
    let mut v = Vec::new();
    if let Some(k) = lv.ufvk.orchard() {
        v.push(("ufvk".to_string(), k.to_ivk(scope).prepare()));
    }
    if let Some(k) = lv.dec_ufvk.as_ref().and_then(|u| u.orchard()) {
        v.push(("decoded-ufvk".to_string(), k.to_ivk(scope).prepare()));
    }
    if let Some(k) = lv.dec_usk_ufvk.as_ref().and_then(|u| u.orchard()) {
        v.push(("decoded-usk-to-ufvk".to_string(), k.to_ivk(scope).prepare()));
    }
    if scope == Scope::External {
        if let Some(k) = lv.uivk.orchard() {
            v.push(("uivk".to_string(), k.prepare()));
        }
        if let Some(k) = lv.dec_uivk.as_ref().and_then(|u| u.orchard().as_ref()) {
            v.push(("decoded-uivk".to_string(), k.prepare()));
        }
    }
    OwnOrchard(v)
}

fn is_own(e: &IvkEntry, ctx: &KeyCtx, scope: Scope) -> bool {
    e.seed == ctx.seed_name && e.coin_type == ctx.coin_type && e.account == ctx.account && e.internal == (scope == Scope::Internal)
}

fn sapling_case(lat: &Lattice, ctx: &KeyCtx, own: &Own, scope: Scope, j: u128) -> Result<String, String> {
    let recipient = match scope {
        Scope::External => ctx.l0_sapling(j),
        Scope::Internal => ctx.l0_sapling_internal(j),
    };
    let recipient = match recipient {
        Some(r) => r,
        None => return Ok("no-address-at-index".into()),
    };
    let rseed = tagged("c11-sapling-rseed", ctx, scope, "sapling", j, 0);
    let memo = memo_for(&rseed);
    let note = sapling::Note::from_parts(recipient, sapling::value::NoteValue::from_raw(VALUE), sapling::Rseed::AfterZip212(rseed));
    let mut rng = ChaChaRng::from_seed([7u8; 32]);
    let enc = sapling_note_encryption(None, note.clone(), memo, &mut rng);
    let epk = SaplingDomain::epk_bytes(enc.epk());
    let ct = enc.encrypt_note_plaintext();
    let cmu = note.cmu();
    let full = FullOut { epk: EphemeralKeyBytes(epk.0), cm: cmu.to_bytes(), enc: ct };
    let compact = CompactOutputDescription { ephemeral_key: EphemeralKeyBytes(epk.0), cmu, enc_ciphertext: ct[..52].try_into().unwrap() };
    let z = Zip212Enforcement::On;
    let good = |lvl: &str, ivk: &sapling::keys::PreparedIncomingViewingKey| -> Result<(), String> {
        match try_sapling_note_decryption(ivk, &full, z) {
            Some((n, a, m)) if a == recipient && n.value().inner() == VALUE && n.cmu() == cmu && m == memo => {}
            Some(_) => return Err(format!("{lvl}: decrypts to a different note")),
            None => return Err(format!("{lvl}: the matching-scope incoming viewing key does not decrypt the note")),
        }
        match try_sapling_compact_note_decryption(ivk, &compact, z) {
            Some((n, a)) if a == recipient && n.value().inner() == VALUE && n.cmu() == cmu => Ok(()),
            Some(_) => Err(format!("{lvl}: compact decryption gives a different note")),
            None => Err(format!("{lvl}: the matching-scope incoming viewing key does not decrypt the compact output")),
        }
    };
    let mut own_seen = 0;
    for e in &lat.ivks {
        if is_own(e, ctx, scope) {
            good(&format!("lattice[{}]", e.label()), &e.sap)?;
            own_seen += 1;
        } else if try_sapling_note_decryption(&e.sap, &full, z).is_some() || try_sapling_compact_note_decryption(&e.sap, &compact, z).is_some() {
            return Err(format!("the note decrypts under the unrelated key {}", e.label()));
        }
    }
    if own_seen != 1 {
        return Err(format!("lattice contains the note's own key {own_seen} times"));
    }
    for (lvl, ivk) in &own.sap[(scope == Scope::Internal) as usize].0 {
        good(lvl, ivk)?;
    }
    Ok("decrypts-under-own-scope-only".into())
}

macro_rules! orchard_like_case {
    ($fname:ident, $dom:ty, $other:ty, $encr:ty, $version:expr, $pool:expr) => {
        fn $fname(lat: &Lattice, ctx: &KeyCtx, own: &Own, scope: Scope, j: u128) -> Result<String, String> {
            let recipient = ctx.ofvk.address_at(di(j), scope);
            // rho: a canonical Pallas base element (top two bits cleared)
            let mut nfb = tagged("c11-orchard-nf", ctx, scope, $pool, j, 0);
            nfb[31] &= 0x3f;
            let nf: Nullifier = Option::from(Nullifier::from_bytes(&nfb)).ok_or("nullifier bytes not canonical")?;
            let rho: Rho = Option::from(Rho::from_bytes(&nfb)).ok_or("rho bytes not canonical")?;
            let mut n = 0u32;
            let (note, rseed_bytes) = loop {
                let b = tagged("c11-orchard-rseed", ctx, scope, $pool, j, n);
                let rs: Option<RandomSeed> = Option::from(RandomSeed::from_bytes(b, &rho));
                if let Some(rs) = rs {
                    let nt: Option<orchard::Note> = Option::from(orchard::Note::from_parts(recipient, orchard::value::NoteValue::from_raw(VALUE), rho, rs, $version));
                    if let Some(nt) = nt {
                        break (nt, b);
                    }
                }
                n += 1;
                if n > 64 {
                    return Err("could not build a note from fixed randomness".into());
                }
            };
            let memo = memo_for(&rseed_bytes);
            let enc = <$encr>::new(None, note, memo);
            let cmx = ExtractedNoteCommitment::from(note.commitment());
            let epk = <$dom>::epk_bytes(enc.epk());
            let ct = enc.encrypt_note_plaintext();
            let compact = CompactAction::from_parts(nf, cmx, EphemeralKeyBytes(epk.0), ct[..52].try_into().unwrap());
            let full = FullOut { epk: EphemeralKeyBytes(epk.0), cm: cmx.to_bytes(), enc: ct };
            let dom = <$dom>::for_compact_action(&compact);
            let other_dom = <$other>::for_compact_action(&compact);
            let good = |lvl: &str, ivk: &orchard::keys::PreparedIncomingViewingKey| -> Result<(), String> {
                match try_note_decryption(&dom, ivk, &full) {
                    Some((nt, a, m)) if a == recipient && nt.value().inner() == VALUE && nt.version() == $version && ExtractedNoteCommitment::from(nt.commitment()) == cmx && m == memo => {}
                    Some(_) => return Err(format!("{lvl}: decrypts to a different note")),
                    None => return Err(format!("{lvl}: the matching-scope incoming viewing key does not decrypt the note")),
                }
                match try_compact_note_decryption(&dom, ivk, &compact) {
                    Some((nt, a)) if a == recipient && nt.value().inner() == VALUE && nt.version() == $version => {}
                    Some(_) => return Err(format!("{lvl}: compact decryption gives a different note")),
                    None => return Err(format!("{lvl}: the matching-scope incoming viewing key does not decrypt the compact action")),
                }
                // the sibling pool's domain accepts only its own note version
                if try_note_decryption(&other_dom, ivk, &full).is_some() || try_compact_note_decryption(&other_dom, ivk, &compact).is_some() {
                    return Err(format!("{lvl}: the note also decrypts in the other pool's note-encryption domain"));
                }
                Ok(())
            };
            let mut own_seen = 0;
            for e in &lat.ivks {
                if is_own(e, ctx, scope) {
                    good(&format!("lattice[{}]", e.label()), &e.orch)?;
                    own_seen += 1;
                } else if try_note_decryption(&dom, &e.orch, &full).is_some() || try_compact_note_decryption(&dom, &e.orch, &compact).is_some() {
                    return Err(format!("the note decrypts under the unrelated key {}", e.label()));
                }
            }
            if own_seen != 1 {
                return Err(format!("lattice contains the note's own key {own_seen} times"));
            }
            for (lvl, ivk) in &own.orch[(scope == Scope::Internal) as usize].0 {
                good(lvl, ivk)?;
            }
            Ok("decrypts-under-own-scope-only".into())
        }
    };
}
orchard_like_case!(orchard_case, OrchardDomain, IronwoodDomain, OrchardNoteEncryption, NoteVersion::V2, "orchard");
orchard_like_case!(ironwood_case, IronwoodDomain, OrchardDomain, IronwoodNoteEncryption, NoteVersion::V3, "ironwood");

/// One (key, scope, pool, index) note case. `own` must come from the key's largest component subset.
pub fn check_note(lat: &Lattice, ctx: &KeyCtx, own: &Own, internal: bool, pool: &str, j: u128) -> Result<String, String> {
    let scope = if internal { Scope::Internal } else { Scope::External };
    let r = catch(|| match pool {
        "sapling" => sapling_case(lat, ctx, own, scope, j),
        "orchard" => orchard_case(lat, ctx, own, scope, j),
        "ironwood" => ironwood_case(lat, ctx, own, scope, j),
        _ => Err(format!("unknown pool {pool}")),
    });
    match r {
        Ok(x) => x,
        Err(p) => Err(format!("panic: {p}")),
    }
}
