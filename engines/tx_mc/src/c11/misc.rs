//! Small exhaustive lattices around the address machinery: request constructors and
//! intersection, non-hardened child index boundaries, and gap-limit address lists.

use super::addr::At;
use super::keys::{di, hash160, KeyCtx, Levels, O, S, T, T_LIMIT};
use super::model::{expect_address, intersect, ErrClass, Expect, Req, Rq};
use mc_core::catch;
use zcash_keys::address::Address;
use zcash_keys::keys::transparent::gap_limits::generate_address_list;
use zcash_keys::keys::{ReceiverRequirementError, ReceiverRequirements, UnifiedAddressRequest};
use zcash_transparent::address::TransparentAddress;
use zcash_transparent::keys::{NonHardenedChildIndex, NonHardenedChildRange, TransparentKeyScope};
use zip32::DiversifierIndex;

fn triple(r: &ReceiverRequirements) -> (Rq, Rq, Rq) {
    (Rq::of(r.orchard()), Rq::of(r.sapling()), Rq::of(r.p2pkh()))
}

/// Constructors of one request and its intersection with another.
pub fn check_request_pair(a: Req, b: Req) -> Result<String, String> {
    let r = catch(|| -> Result<String, String> {
        let (Req::Custom(ao, as_, at), Req::Custom(bo, bs, bt)) = (a, b) else {
            return Err("request pair must be Custom".into());
        };
        // constructors of `a`
        let ok = a.constructible();
        match ReceiverRequirements::new(ao.real(), as_.real(), at.real()) {
            Ok(r) if ok && triple(&r) == (ao, as_, at) => {}
            Err(ReceiverRequirementError::NoShieldedReceiver) if !ok => {}
            other => return Err(format!("ReceiverRequirements::new({}) = {other:?}", a.code())),
        }
        match UnifiedAddressRequest::custom(ao.real(), as_.real(), at.real()) {
            Ok(UnifiedAddressRequest::Custom(r)) if ok && triple(&r) == (ao, as_, at) => {}
            Err(ReceiverRequirementError::NoShieldedReceiver) if !ok => {}
            other => return Err(format!("UnifiedAddressRequest::custom({}) = {other:?}", a.code())),
        }
        // documented: the unsafe constructors panic when both shielded receivers are omitted
        match catch(|| ReceiverRequirements::unsafe_new(ao.real(), as_.real(), at.real())) {
            Ok(r) if ok && triple(&r) == (ao, as_, at) => {}
            Err(_) if !ok => {}
            other => return Err(format!("ReceiverRequirements::unsafe_new({}) = {:?}", a.code(), other.map(|r| triple(&r)))),
        }
        match catch(|| UnifiedAddressRequest::unsafe_custom(ao.real(), as_.real(), at.real())) {
            Ok(UnifiedAddressRequest::Custom(r)) if ok && triple(&r) == (ao, as_, at) => {}
            Err(_) if !ok => {}
            other => return Err(format!("UnifiedAddressRequest::unsafe_custom({}) = {:?}", a.code(), other.is_ok())),
        }
        if !ok || !b.constructible() {
            return Ok(if ok { "constructed".into() } else { "rejected:no-shielded-receiver".into() });
        }
        // component-wise intersection
        for (x, y) in [(ao, bo), (as_, bs), (at, bt)] {
            match (x.real().intersect(y.real()), intersect(x, y)) {
                (Ok(r), Some(m)) if Rq::of(r) == m => {}
                (Err(ReceiverRequirementError::Conflict), None) => {}
                (got, want) => return Err(format!("{x:?}.intersect({y:?}) = {got:?}, documented {want:?}")),
            }
        }
        let ra = ReceiverRequirements::new(ao.real(), as_.real(), at.real()).map_err(|e| format!("{e:?}"))?;
        let rb = ReceiverRequirements::new(bo.real(), bs.real(), bt.real()).map_err(|e| format!("{e:?}"))?;
        let comps = (intersect(ao, bo), intersect(as_, bs), intersect(at, bt));
        let got = ra.intersect(&rb);
        match (comps, &got) {
            ((Some(o), Some(s), Some(t)), Ok(r)) if !(o == Rq::Omit && s == Rq::Omit) && triple(r) == (o, s, t) => Ok("intersect:ok".into()),
            ((Some(Rq::Omit), Some(Rq::Omit), Some(_)), Err(ReceiverRequirementError::NoShieldedReceiver)) => Ok("intersect:no-shielded-receiver".into()),
            ((o, s, t), Err(ReceiverRequirementError::Conflict)) if o.is_none() || s.is_none() || t.is_none() => Ok("intersect:conflict".into()),
            // both error conditions hold: either report is documented
            ((o, s, _), Err(ReceiverRequirementError::NoShieldedReceiver)) if matches!(o, Some(Rq::Omit)) && matches!(s, Some(Rq::Omit)) => Ok("intersect:no-shielded-receiver".into()),
            _ => Err(format!("{}.intersect({}) = {got:?}, documented components {comps:?}", a.code(), b.code())),
        }
    });
    match r {
        Ok(x) => x,
        Err(p) => Err(format!("panic: {p}")),
    }
}

/// The documented request constants.
pub fn check_request_constants() -> Result<(), String> {
    let t = |r: UnifiedAddressRequest| match r {
        UnifiedAddressRequest::Custom(r) => Some(triple(&r)),
        _ => None,
    };
    if t(UnifiedAddressRequest::ALLOW_ALL) != Some((Rq::Allow, Rq::Allow, Rq::Allow)) {
        return Err("ALLOW_ALL is not (Allow, Allow, Allow)".into());
    }
    if t(UnifiedAddressRequest::SHIELDED) != Some((Rq::Allow, Rq::Allow, Rq::Omit)) {
        return Err("SHIELDED is not (Allow, Allow, Omit)".into());
    }
    if t(UnifiedAddressRequest::ORCHARD) != Some((Rq::Require, Rq::Omit, Rq::Omit)) {
        return Err("ORCHARD is not (Require, Omit, Omit)".into());
    }
    Ok(())
}

pub fn tindex_lattice() -> Vec<u64> {
    let mut v: Vec<u64> = vec![0, 1, 2, 9, 10, 11];
    for c in [1u64 << 31, 1u64 << 32] {
        v.extend([c - 2, c - 1, c, c + 1]);
    }
    v.sort();
    v.dedup();
    v
}

/// Boundary behaviour of `NonHardenedChildIndex`, `TransparentKeyScope` and their conversions at
/// value `v` with delta `d`; exact integer arithmetic is the oracle.
pub fn check_tindex(v: u64, d: u64) -> Result<Vec<String>, String> {
    let r = catch(|| -> Result<Vec<String>, String> {
        let mut out = Vec::new();
        let max = (1u64 << 31) - 1;
        if v <= u32::MAX as u64 {
            let got = NonHardenedChildIndex::from_index(v as u32);
            if got.is_some() != (v <= max) || got.map(|i| i.index() as u64).unwrap_or(v) != v {
                return Err(format!("NonHardenedChildIndex::from_index({v}) = {got:?}"));
            }
            let sc = TransparentKeyScope::custom(v as u32);
            if sc.is_some() != (v <= max) {
                return Err(format!("TransparentKeyScope::custom({v}) = {sc:?}"));
            }
            // documented panic of the const constructor
            let c = catch(|| NonHardenedChildIndex::const_from_index(v as u32));
            if c.is_ok() != (v <= max) {
                return Err(format!("const_from_index({v}) ok={}", c.is_ok()));
            }
            if let Some(i) = got {
                out.push("index:accepted".into());
                let n = i.next();
                if n.map(|x| x.index() as u64) != (v + 1 <= max).then_some(v + 1) {
                    return Err(format!("({v}).next() = {n:?}"));
                }
                if d <= u32::MAX as u64 {
                    let a = i.saturating_add(d as u32).index() as u64;
                    if a != (v + d).min(max) {
                        return Err(format!("({v}).saturating_add({d}) = {a}"));
                    }
                    let s = i.saturating_sub(d as u32).index() as u64;
                    if s != v.saturating_sub(d) {
                        return Err(format!("({v}).saturating_sub({d}) = {s}"));
                    }
                }
                if u128::from(DiversifierIndex::from(i)) != v as u128 {
                    return Err(format!("DiversifierIndex::from(index {v}) changes the value"));
                }
                // end-exclusive ranges [v, v+d) for small d
                if d >= 1 && d <= 4 {
                    let end = i.saturating_add(d as u32);
                    let got: Vec<u64> = NonHardenedChildRange::from(i..end).into_iter().map(|x| x.index() as u64).collect();
                    let want: Vec<u64> = (v..end.index() as u64).collect();
                    if !want.is_empty() && got != want {
                        return Err(format!("range {v}..{} yields {got:?}", end.index()));
                    }
                    if want.is_empty() {
                        // observed only: what an empty range yields is outside this property
                        out.push(format!("observed:empty-range-yields-{}-items", got.len()));
                    }
                }
            } else {
                out.push("index:rejected".into());
            }
        }
        // conversions from diversifier indices: the value itself, and the same low 32 bits with
        // higher bytes set
        for x in [v as u128, (v as u128) | (1u128 << 32), (v as u128) | (1u128 << 87), (v as u128) << 32] {
            if x >= 1u128 << 88 {
                continue;
            }
            let got = NonHardenedChildIndex::try_from(di(x));
            let want = x < T_LIMIT;
            if got.is_ok() != want || got.map(|i| i.index() as u128).unwrap_or(x) != x {
                return Err(format!("NonHardenedChildIndex::try_from(DiversifierIndex {x}) = {got:?}"));
            }
            out.push(if want { "from-diversifier:accepted".into() } else { "from-diversifier:rejected".into() });
        }
        Ok(out)
    });
    match r {
        Ok(x) => x,
        Err(p) => Err(format!("panic: {p}")),
    }
}

pub fn scope_by_code(c: u32) -> TransparentKeyScope {
    match c {
        0 => TransparentKeyScope::EXTERNAL,
        1 => TransparentKeyScope::INTERNAL,
        2 => TransparentKeyScope::EPHEMERAL,
        n => TransparentKeyScope::custom(n).expect("scope below 2^31"),
    }
}

/// `generate_address_list` for `[start, start+len)`: every returned address belongs to the key
/// at the returned index and scope; external entries carry the unified address the key derives
/// for the request at that index (or, as documented, the bare transparent address when no
/// unified address can exist there).
pub fn check_gap_list(ctx: &KeyCtx, lv: &Levels, scope_code: u32, req: Req, start: u64, with_ufvk: bool, require_key: bool) -> Result<String, String> {
    let r = catch(|| -> Result<String, String> {
        let real = req.real().ok_or("request is not constructible")?;
        let scope = scope_by_code(scope_code);
        let s = NonHardenedChildIndex::from_index(start as u32).ok_or("start out of range")?;
        let e = s.saturating_add(3);
        let ufvk = with_ufvk.then_some(&lv.ufvk);
        let got = generate_address_list(&lv.uivk, ufvk, scope, real, s..e, require_key);
        let has_key = with_ufvk && lv.mask & T != 0;
        if !has_key || scope_code > 2 {
            // Which of "empty list" / "error" is reported for a missing key or an unsupported
            // scope is not this property's business; an address, however, cannot belong to a
            // key that has no transparent component or to a scope the function does not derive.
            return match got {
                Ok(v) if v.is_empty() => Ok(if has_key { "unsupported-scope:empty".into() } else { "no-key:empty".into() }),
                Err(_) => Ok(if has_key { "unsupported-scope:error".into() } else { "no-key:error".into() }),
                Ok(v) => Err(format!("{} addresses returned without a transparent key / for an unsupported scope", v.len())),
            };
        }
        let tpub = ctx.tpub.as_ref().ok_or("no transparent key")?;
        let want_idx: Vec<u64> = (start..e.index() as u64).collect();
        // per-index expectation
        let mut fatal = false;
        let mut want: Vec<(u64, TransparentAddress, Option<Expect>)> = Vec::new();
        for &i in &want_idx {
            let idx = NonHardenedChildIndex::from_index(i as u32).ok_or("idx")?;
            let pk = tpub.derive_address_pubkey(scope, idx).map_err(|e| format!("{e:?}"))?;
            let ta = TransparentAddress::PublicKeyHash(hash160(&pk.serialize()));
            let ex = if scope_code == 0 {
                let at = At::new(ctx, i as u128);
                let ex = expect_address(&at.facts(lv.mask), req);
                if let Expect::Err(c) = &ex {
                    // an underivable *required* receiver must surface as an error (unless a
                    // missing key item is an equally valid report at that index)
                    if c.iter().all(|x| matches!(x, ErrClass::InvalidSapling | ErrClass::InvalidTransparent)) {
                        fatal = true;
                    }
                }
                Some(ex)
            } else {
                None
            };
            want.push((i, ta, ex));
        }
        let list = match got {
            Ok(l) => l,
            Err(e) => {
                // an error may only come from an index where the request cannot be met
                let excusable = want.iter().any(|(_, _, ex)| matches!(ex, Some(Expect::Err(c)) if c.iter().any(|x| !matches!(x, ErrClass::NoShielded))));
                return if excusable { Ok("error:request-unsatisfiable-in-range".into()) } else { Err(format!("error {e:?} although every index in the range has an address")) };
            }
        };
        if fatal {
            return Err("a list was returned although a required receiver cannot be derived at an index in the range".into());
        }
        if list.iter().map(|x| x.2.index() as u64).collect::<Vec<_>>() != want_idx {
            return Err(format!("indices {:?}, the end-exclusive range is {want_idx:?}", list.iter().map(|x| x.2.index()).collect::<Vec<_>>()));
        }
        let mut fallback = 0;
        for ((addr, ta, _), (i, wta, ex)) in list.iter().zip(want.iter()) {
            if ta != wta {
                return Err(format!("index {i}: transparent address is not HASH160 of the key's public key at this scope and index"));
            }
            match (addr, ex) {
                (Address::Transparent(a), None) if a == wta => {}
                (Address::Unified(ua), Some(Expect::Ok(m))) => {
                    let at = At::new(ctx, *i as u128);
                    let want_ua = lv.uivk.address(di(*i as u128), real).map_err(|e| format!("{e:?}"))?;
                    let gm = (if ua.has_orchard() { O } else { 0 }) | (if ua.has_sapling() { S } else { 0 }) | (if ua.has_transparent() { T } else { 0 });
                    if *ua != want_ua || gm != *m || (m & T != 0 && ua.transparent() != Some(wta)) || (m & O != 0 && ua.orchard() != Some(&at.o)) || (m & S != 0 && ua.sapling() != at.s.as_ref()) {
                        return Err(format!("index {i}: unified address does not carry exactly the key's requested receivers"));
                    }
                }
                (Address::Transparent(a), Some(Expect::Err(_))) if a == wta => fallback += 1,
                (a, ex) => return Err(format!("index {i}: address {a:?} where the model expects {ex:?}")),
            }
        }
        Ok(if fallback > 0 { "list:with-transparent-fallback".into() } else { "list:all-derived".into() })
    });
    match r {
        Ok(x) => x,
        Err(p) => Err(format!("panic: {p}")),
    }
}
