//! Key lattice for C11: seed shapes x ZIP 32 accounts x networks, the component-level ("level 0")
//! derivations that serve as the independent corner of every commutation square, and the
//! unified keys (with every component subset) at each level, plain and decoded.

use ripemd::Ripemd160;
use sha2::{Digest, Sha256};
use zcash_keys::keys::{sapling as ksap, Era, UnifiedFullViewingKey, UnifiedIncomingViewingKey, UnifiedSpendingKey};
use zcash_protocol::consensus::{BlockHeight, NetworkConstants, NetworkType, NetworkUpgrade, Parameters};
use zcash_transparent::address::TransparentAddress;
use zcash_transparent::keys::{AccountPrivKey, AccountPubKey, NonHardenedChildIndex};
use zip32::{AccountId, DiversifierIndex, Scope};

/// Consensus parameters that only carry the network type (all key/address code looks at nothing
/// else).
#[derive(Clone, Copy, Debug, PartialEq, Eq)]
pub struct Net(pub NetworkType);
impl Parameters for Net {
    fn network_type(&self) -> NetworkType {
        self.0
    }
    fn activation_height(&self, _nu: NetworkUpgrade) -> Option<BlockHeight> {
        None
    }
}

pub const NET_NAMES: [&str; 3] = ["main", "test", "regtest"];
pub fn net_by_name(n: &str) -> Option<Net> {
    match n {
        "main" => Some(Net(NetworkType::Main)),
        "test" => Some(Net(NetworkType::Test)),
        "regtest" => Some(Net(NetworkType::Regtest)),
        _ => None,
    }
}

/// Seed *shapes*: the two constant extremes, a counting pattern at the minimum ZIP 32 length, the
/// BIP 32 maximum length (64) and the ZIP 32 maximum length (252).
pub const SEED_NAMES: [&str; 5] = ["zero32", "ff32", "count32", "count64", "count252"];
pub fn seed_by_name(n: &str) -> Option<Vec<u8>> {
    match n {
        "zero32" => Some(vec![0u8; 32]),
        "ff32" => Some(vec![0xffu8; 32]),
        "count32" => Some((0..32u32).map(|i| i as u8).collect()),
        "count64" => Some((0..64u32).map(|i| i as u8).collect()),
        "count252" => Some((0..252u32).map(|i| i as u8).collect()),
        _ => None,
    }
}

pub const MAX_DI: u128 = (1u128 << 88) - 1;
pub const T_LIMIT: u128 = 1u128 << 31;

pub fn di(j: u128) -> DiversifierIndex {
    DiversifierIndex::try_from(j).expect("diversifier index below 2^88")
}
pub fn di_val(j: &DiversifierIndex) -> u128 {
    u128::from(*j)
}

pub fn hash160(data: &[u8]) -> [u8; 20] {
    let sha = Sha256::digest(data);
    let r = Ripemd160::digest(sha);
    let mut out = [0u8; 20];
    out.copy_from_slice(&r);
    out
}

pub const O: u8 = 1;
pub const S: u8 = 2;
pub const T: u8 = 4;
pub fn subset_name(m: u8) -> String {
    let mut s = String::new();
    if m & O != 0 {
        s.push('O');
    }
    if m & S != 0 {
        s.push('S');
    }
    if m & T != 0 {
        s.push('T');
    }
    s
}

/// Unified viewing keys restricted to one component subset, at every level.
pub struct Levels {
    pub mask: u8,
    pub ufvk: UnifiedFullViewingKey,
    pub uivk: UnifiedIncomingViewingKey,
    /// decode(encode(ufvk)) / decode(encode(uivk)); absent for the transparent-only subset, which
    /// has no ZIP 316 encoding.
    pub dec_ufvk: Option<UnifiedFullViewingKey>,
    pub dec_uivk: Option<UnifiedIncomingViewingKey>,
    /// from_bytes(to_bytes(usk)).to_unified_full_viewing_key(); full subset only.
    pub dec_usk_ufvk: Option<UnifiedFullViewingKey>,
    /// UIVKs derived from the decoded UFVKs (derived once; `UnifiedFullViewingKey::address` is a
    /// one-line delegate to these).
    pub dec_ufvk_uivk: Option<UnifiedIncomingViewingKey>,
    pub dec_usk_uivk: Option<UnifiedIncomingViewingKey>,
}

pub struct KeyCtx {
    pub seed_name: String,
    pub seed: Vec<u8>,
    pub account: u32,
    pub net_name: String,
    pub net: Net,
    pub coin_type: u32,
    /// `UnifiedSpendingKey::from_seed`; `Err` text when the documented `Result` is an error.
    pub usk: Result<UnifiedSpendingKey, String>,
    // ---- level 0: each component derived directly from the seed with the protocol crates ----
    pub extsk: sapling::zip32::ExtendedSpendingKey,
    pub dfvk: sapling::zip32::DiversifiableFullViewingKey,
    pub extsk_int: sapling::zip32::ExtendedSpendingKey,
    pub osk: orchard::keys::SpendingKey,
    pub ofvk: orchard::keys::FullViewingKey,
    pub tpriv: Option<AccountPrivKey>,
    pub tpub: Option<AccountPubKey>,
    pub secp: secp256k1::Secp256k1<secp256k1::All>,
}

impl KeyCtx {
    pub fn id(&self) -> String {
        format!("{}/{}/{}", self.seed_name, self.account, self.net_name)
    }

    pub fn build(seed_name: &str, account: u32, net_name: &str) -> Result<KeyCtx, String> {
        let seed = seed_by_name(seed_name).ok_or_else(|| format!("unknown seed {seed_name}"))?;
        let net = net_by_name(net_name).ok_or_else(|| format!("unknown network {net_name}"))?;
        let acct = AccountId::try_from(account).map_err(|_| format!("bad account {account}"))?;
        let coin_type = net.coin_type();
        let usk = UnifiedSpendingKey::from_seed(&net, &seed, acct).map_err(|e| format!("{e:?}"));
        let extsk = ksap::spending_key(&seed, coin_type, acct);
        let dfvk = extsk.to_diversifiable_full_viewing_key();
        let extsk_int = extsk.derive_internal();
        let osk = orchard::keys::SpendingKey::from_zip32_seed(&seed, coin_type, acct).map_err(|e| format!("orchard zip32: {e:?}"))?;
        let ofvk = orchard::keys::FullViewingKey::from(&osk);
        let tpriv = AccountPrivKey::from_seed(&net, &seed, acct).ok();
        let tpub = tpriv.as_ref().map(|k| k.to_account_pubkey());
        Ok(KeyCtx {
            seed_name: seed_name.to_string(),
            seed,
            account,
            net_name: net_name.to_string(),
            net,
            coin_type,
            usk,
            extsk,
            dfvk,
            extsk_int,
            osk,
            ofvk,
            tpriv,
            tpub,
            secp: secp256k1::Secp256k1::new(),
        })
    }

    pub fn has_t(&self) -> bool {
        self.tpub.is_some()
    }

    /// All component subsets this key can populate.
    pub fn subsets(&self) -> Vec<u8> {
        (1u8..8).filter(|m| m & T == 0 || self.has_t()).collect()
    }

    /// Level-0 receivers at index `j`, from the spending-side component keys only.
    pub fn l0_orchard(&self, j: u128) -> orchard::Address {
        self.ofvk.address_at(di(j), Scope::External)
    }
    pub fn l0_sapling(&self, j: u128) -> Option<sapling::PaymentAddress> {
        self.dfvk.address(di(j))
    }
    pub fn l0_sapling_internal(&self, j: u128) -> Option<sapling::PaymentAddress> {
        self.extsk_int.to_diversifiable_full_viewing_key().address(di(j))
    }
    /// Transparent receiver from the *private* key: secret key at `m/44'/coin'/acct'/0/j`, its
    /// public key, HASH160 computed here.
    pub fn l0_transparent(&self, j: u128) -> Option<TransparentAddress> {
        if j >= T_LIMIT {
            return None;
        }
        let idx = NonHardenedChildIndex::from_index(j as u32)?;
        let sk = self.tpriv.as_ref()?.derive_external_secret_key(idx).ok()?;
        let pk = secp256k1::PublicKey::from_secret_key(&self.secp, &sk);
        Some(TransparentAddress::PublicKeyHash(hash160(&pk.serialize())))
    }

    pub fn sapling_valid(&self, j: u128) -> bool {
        j <= MAX_DI && self.l0_sapling(j).is_some()
    }

    /// First index >= `from` that is invalid (resp. valid) for Sapling under this key.
    pub fn first_sapling(&self, from: u128, want_valid: bool) -> Option<u128> {
        (from..from + 256).find(|j| *j <= MAX_DI && self.sapling_valid(*j) == want_valid)
    }

    /// Unified keys for one component subset at all levels.
    pub fn levels(&self, mask: u8) -> Result<Levels, String> {
        let full = mask == (O | S | T);
        let ufvk = match (&self.usk, full) {
            (Ok(usk), true) => usk.to_unified_full_viewing_key(),
            _ => UnifiedFullViewingKey::new(
                if mask & T != 0 { Some(self.tpub.clone().ok_or("no transparent key")?) } else { None },
                if mask & S != 0 { Some(self.dfvk.clone()) } else { None },
                if mask & O != 0 { Some(self.ofvk.clone()) } else { None },
            )
            .map_err(|e| format!("UnifiedFullViewingKey::new: {e:?}"))?,
        };
        let uivk = ufvk.to_unified_incoming_viewing_key();
        let encodable = mask & (O | S) != 0;
        let (dec_ufvk, dec_uivk) = if encodable {
            let s = ufvk.encode(&self.net);
            let d = UnifiedFullViewingKey::decode(&self.net, &s).map_err(|e| format!("UFVK decode of own encoding failed: {e}"))?;
            let si = uivk.encode(&self.net);
            let di = UnifiedIncomingViewingKey::decode(&self.net, &si).map_err(|e| format!("UIVK decode of own encoding failed: {e}"))?;
            (Some(d), Some(di))
        } else {
            (None, None)
        };
        let dec_usk_ufvk = match (&self.usk, full) {
            (Ok(usk), true) => {
                let b = usk.to_bytes(Era::Orchard);
                let d = UnifiedSpendingKey::from_bytes(Era::Orchard, &b).map_err(|e| format!("USK from_bytes of own encoding failed: {e:?}"))?;
                Some(d.to_unified_full_viewing_key())
            }
            _ => None,
        };
        let dec_ufvk_uivk = dec_ufvk.as_ref().map(|k| k.to_unified_incoming_viewing_key());
        let dec_usk_uivk = dec_usk_ufvk.as_ref().map(|k| k.to_unified_incoming_viewing_key());
        Ok(Levels { mask, ufvk, uivk, dec_ufvk, dec_uivk, dec_usk_ufvk, dec_ufvk_uivk, dec_usk_uivk })
    }
}
