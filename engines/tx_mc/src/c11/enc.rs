//! Encoding round trips at every key level: USK bytes, UFVK/UIVK strings (every component
//! subset), the legacy Sapling encodings and the transparent key/address encodings.
//! Every check is `decode(encode(x))` re-encodes to the same bytes, keeps every component, and
//! is refused under the parameters of a network with a different prefix.

use super::keys::{hash160, net_by_name, subset_name, KeyCtx, Net, NET_NAMES, O, S, T};
use mc_core::catch;
use secrecy::{ExposeSecret, SecretString};
use zcash_address::unified::{Encoding, Ufvk, Uivk};
use zcash_keys::address::Address;
use zcash_keys::encoding::{
    decode_extended_full_viewing_key, decode_extended_spending_key, decode_extfvk_with_network, decode_payment_address, decode_transparent_address,
    encode_extended_full_viewing_key, encode_extended_spending_key, encode_payment_address, encode_payment_address_p, encode_transparent_address,
    encode_transparent_address_p, AddressCodec, Bech32DecodeError,
};
use zcash_keys::keys::transparent::Key;
use zcash_keys::keys::{Era, UnifiedFullViewingKey, UnifiedIncomingViewingKey, UnifiedSpendingKey};
use zcash_protocol::consensus::{NetworkConstants, Parameters};
use zcash_transparent::address::TransparentAddress;
use zcash_transparent::keys::{AccountPrivKey, AccountPubKey, ExternalIvk, IncomingViewingKey, InternalIvk, NonHardenedChildIndex, TransparentKeyScope};
use zip32::Scope;

fn other_nets(ctx: &KeyCtx) -> Vec<(String, Net)> {
    NET_NAMES.iter().filter(|n| **n != ctx.net_name).map(|n| (n.to_string(), net_by_name(n).unwrap())).collect()
}

fn usk_checks(ctx: &KeyCtx, out: &mut Vec<String>) -> Result<(), String> {
    let usk = match &ctx.usk {
        Ok(u) => u,
        Err(e) => {
            // `from_seed` is fallible by signature; the transparent component follows BIP 32,
            // whose seeds are 16, 32 or 64 bytes long.
            if [32usize, 64].contains(&ctx.seed.len()) {
                return Err(format!("UnifiedSpendingKey::from_seed failed for a {}-byte seed: {e}", ctx.seed.len()));
            }
            out.push(format!("usk:from_seed-error:seed-len-{}", ctx.seed.len()));
            return Ok(());
        }
    };
    let tpriv = ctx.tpriv.as_ref().ok_or("USK exists but direct transparent derivation failed")?;
    // USK::from_seed commutes with deriving each component from the seed
    if usk.sapling().to_bytes() != ctx.extsk.to_bytes() {
        return Err("USK Sapling component differs from sapling::spending_key(seed, coin_type, account)".into());
    }
    if usk.orchard().to_bytes() != ctx.osk.to_bytes() {
        return Err("USK Orchard component differs from SpendingKey::from_zip32_seed".into());
    }
    if usk.transparent().to_bytes() != tpriv.to_bytes() {
        return Err("USK transparent component differs from AccountPrivKey::from_seed".into());
    }
    let b = usk.to_bytes(Era::Orchard);
    let d = UnifiedSpendingKey::from_bytes(Era::Orchard, &b).map_err(|e| format!("USK from_bytes(to_bytes) failed: {e:?}"))?;
    if d.to_bytes(Era::Orchard) != b {
        return Err("USK does not re-encode to the same bytes".into());
    }
    if d.sapling().to_bytes() != usk.sapling().to_bytes() || d.orchard().to_bytes() != usk.orchard().to_bytes() || d.transparent().to_bytes() != usk.transparent().to_bytes() {
        return Err("decoded USK has different components".into());
    }
    if d.to_unified_full_viewing_key().encode(&ctx.net) != usk.to_unified_full_viewing_key().encode(&ctx.net) {
        return Err("decoded USK derives a different UFVK".into());
    }
    // every strict prefix is refused (and never panics)
    for n in 0..b.len() {
        if UnifiedSpendingKey::from_bytes(Era::Orchard, &b[..n]).is_ok() {
            return Err(format!("USK from_bytes accepts a {n}-byte prefix of a {}-byte encoding", b.len()));
        }
    }
    // an era identifier that is not the Orchard era's is refused
    for era in [0u32, 0x76b8_09bb, 0xc8e7_1055, 0xffff_ffff] {
        let mut m = b.clone();
        m[..4].copy_from_slice(&era.to_le_bytes());
        if m != b && UnifiedSpendingKey::from_bytes(Era::Orchard, &m).is_ok() {
            return Err(format!("USK from_bytes accepts era id {era:#x}"));
        }
    }
    out.push("usk:bytes-roundtrip".into());
    Ok(())
}

fn unified_viewing_checks(ctx: &KeyCtx, out: &mut Vec<String>) -> Result<(), String> {
    for mask in ctx.subsets() {
        if mask & (O | S) == 0 {
            continue; // a transparent-only key has no ZIP 316 encoding
        }
        let name = subset_name(mask);
        let lv = ctx.levels(mask)?;
        let dec = lv.dec_ufvk.as_ref().ok_or("missing decoded UFVK")?;
        let s = lv.ufvk.encode(&ctx.net);
        if !s.starts_with(ctx.net.hrp_unified_fvk()) {
            return Err(format!("UFVK[{name}] encoding does not start with the network's prefix"));
        }
        if dec.encode(&ctx.net) != s {
            return Err(format!("UFVK[{name}] does not re-encode to the same string"));
        }
        let comp = |k: &UnifiedFullViewingKey| (k.transparent().map(|t| t.serialize()), k.sapling().map(|x| x.to_bytes().to_vec()), k.orchard().map(|x| x.to_bytes().to_vec()));
        if comp(dec) != comp(&lv.ufvk) {
            return Err(format!("UFVK[{name}] decoded components differ"));
        }
        let want = (
            (mask & T != 0).then(|| ctx.tpub.as_ref().map(|t| t.serialize())).flatten(),
            (mask & S != 0).then(|| ctx.dfvk.to_bytes().to_vec()),
            (mask & O != 0).then(|| ctx.ofvk.to_bytes().to_vec()),
        );
        if comp(&lv.ufvk) != want {
            return Err(format!("UFVK[{name}] components differ from the ones derived from the seed"));
        }
        // internal-scope viewing keys survive the encoding
        if let (Some(a), Some(b)) = (dec.sapling(), lv.ufvk.sapling()) {
            if a.to_ivk(Scope::Internal).to_repr() != b.to_ivk(Scope::Internal).to_repr() || a.to_ivk(Scope::External).to_repr() != b.to_ivk(Scope::External).to_repr() {
                return Err(format!("UFVK[{name}] decoded Sapling IVKs differ"));
            }
        }
        if let (Some(a), Some(b)) = (dec.orchard(), lv.ufvk.orchard()) {
            if a.to_ivk(Scope::Internal).to_bytes() != b.to_ivk(Scope::Internal).to_bytes() || a.to_ivk(Scope::External).to_bytes() != b.to_ivk(Scope::External).to_bytes() {
                return Err(format!("UFVK[{name}] decoded Orchard IVKs differ"));
            }
        }
        let (net, parsed) = Ufvk::decode(&s).map_err(|e| format!("Ufvk::decode: {e}"))?;
        if net != ctx.net.network_type() {
            return Err(format!("UFVK[{name}] string decodes to network {net:?}"));
        }
        let p = UnifiedFullViewingKey::parse(&parsed).map_err(|e| format!("UFVK parse: {e}"))?;
        if p.encode(&ctx.net) != s {
            return Err(format!("UFVK[{name}] parse(decode) does not re-encode identically"));
        }
        if !lv.ufvk.subsumes_ufvk(dec) || !dec.subsumes_ufvk(&lv.ufvk) || !lv.ufvk.subsumes_uivk(&lv.uivk) {
            return Err(format!("UFVK[{name}] does not subsume its own decoding / UIVK"));
        }
        for (on, onet) in other_nets(ctx) {
            if UnifiedFullViewingKey::decode(&onet, &s).is_ok() {
                return Err(format!("UFVK[{name}] for {} decodes under {on} parameters", ctx.net_name));
            }
        }
        // the constructor route gives the same key as USK -> UFVK
        let built = UnifiedFullViewingKey::new(
            if mask & T != 0 { ctx.tpub.clone() } else { None },
            if mask & S != 0 { Some(ctx.dfvk.clone()) } else { None },
            if mask & O != 0 { Some(ctx.ofvk.clone()) } else { None },
        )
        .map_err(|e| format!("UFVK::new: {e:?}"))?;
        if built.encode(&ctx.net) != s {
            return Err(format!("UFVK[{name}] built from parts encodes differently from the derived one"));
        }
        if mask == S {
            #[allow(deprecated)]
            let from_ext = UnifiedFullViewingKey::from_sapling_extended_full_viewing_key(ctx.extsk.to_extended_full_viewing_key()).map_err(|e| format!("{e:?}"))?;
            if from_ext.encode(&ctx.net) != s {
                return Err("UFVK from the Sapling extended FVK encodes differently".into());
            }
        }
        out.push(format!("ufvk:{name}:string-roundtrip"));

        // ---- UIVK ----
        let di = lv.dec_uivk.as_ref().ok_or("missing decoded UIVK")?;
        let si = lv.uivk.encode(&ctx.net);
        if !si.starts_with(ctx.net.hrp_unified_ivk()) {
            return Err(format!("UIVK[{name}] encoding does not start with the network's prefix"));
        }
        if di.encode(&ctx.net) != si {
            return Err(format!("UIVK[{name}] does not re-encode to the same string"));
        }
        let compi = |k: &UnifiedIncomingViewingKey| {
            (k.transparent().as_ref().map(|t| t.serialize()), k.sapling().as_ref().map(|x| x.to_bytes().to_vec()), k.orchard().as_ref().map(|x| x.to_bytes().to_vec()))
        };
        if compi(di) != compi(&lv.uivk) {
            return Err(format!("UIVK[{name}] decoded components differ"));
        }
        // Observed only (key *equality* is not part of this property): does the API's own
        // equality / `subsumes` relation see decode(encode(uivk)) as the same key?
        let same = *di == lv.uivk && lv.ufvk.subsumes_uivk(di);
        out.push(format!("observed:decoded-uivk-{}:{}", if same { "equal-to-original" } else { "NOT-equal-to-original" }, if mask & T != 0 { "with-transparent-item" } else { "shielded-only" }));
        let wanti = (
            (mask & T != 0).then(|| ctx.tpub.as_ref().and_then(|t| t.derive_external_ivk().ok()).map(|t| t.serialize())).flatten(),
            (mask & S != 0).then(|| ctx.dfvk.to_external_ivk().to_bytes().to_vec()),
            (mask & O != 0).then(|| ctx.ofvk.to_ivk(Scope::External).to_bytes().to_vec()),
        );
        if compi(&lv.uivk) != wanti {
            return Err(format!("UIVK[{name}] components differ from the external IVKs derived from the seed"));
        }
        if compi(&dec.to_unified_incoming_viewing_key()) != wanti {
            return Err(format!("UIVK[{name}] derived from the decoded UFVK differs"));
        }
        let (neti, _) = Uivk::decode(&si).map_err(|e| format!("Uivk::decode: {e}"))?;
        if neti != ctx.net.network_type() {
            return Err(format!("UIVK[{name}] string decodes to network {neti:?}"));
        }
        for (on, onet) in other_nets(ctx) {
            if UnifiedIncomingViewingKey::decode(&onet, &si).is_ok() {
                return Err(format!("UIVK[{name}] for {} decodes under {on} parameters", ctx.net_name));
            }
        }
        let builti = UnifiedIncomingViewingKey::new(
            if mask & T != 0 { ctx.tpub.as_ref().and_then(|t| t.derive_external_ivk().ok()) } else { None },
            if mask & S != 0 { Some(ctx.dfvk.to_external_ivk()) } else { None },
            if mask & O != 0 { Some(ctx.ofvk.to_ivk(Scope::External)) } else { None },
        );
        if builti.encode(&ctx.net) != si {
            return Err(format!("UIVK[{name}] built from parts encodes differently from the derived one"));
        }
        // a UFVK string is not a UIVK string and vice versa
        if UnifiedIncomingViewingKey::decode(&ctx.net, &s).is_ok() || UnifiedFullViewingKey::decode(&ctx.net, &si).is_ok() {
            return Err(format!("UFVK/UIVK[{name}] strings are accepted by the other decoder"));
        }
        out.push(format!("uivk:{name}:string-roundtrip"));
    }
    Ok(())
}

fn sapling_legacy_checks(ctx: &KeyCtx, out: &mut Vec<String>) -> Result<(), String> {
    let master = sapling::zip32::ExtendedSpendingKey::master(&ctx.seed);
    for (which, k) in [("account", &ctx.extsk), ("master", &master), ("internal", &ctx.extsk_int)] {
        let hrp = ctx.net.hrp_sapling_extended_spending_key();
        let s = encode_extended_spending_key(hrp, k);
        let d = decode_extended_spending_key(hrp, &s).map_err(|e| format!("extsk[{which}] decode: {e}"))?;
        if d.to_bytes() != k.to_bytes() || &d != k || encode_extended_spending_key(hrp, &d) != s {
            return Err(format!("Sapling extended spending key [{which}] does not round-trip"));
        }
        #[allow(deprecated)]
        let fvk = k.to_extended_full_viewing_key();
        let fhrp = ctx.net.hrp_sapling_extended_full_viewing_key();
        let fs = encode_extended_full_viewing_key(fhrp, &fvk);
        let fd = decode_extended_full_viewing_key(fhrp, &fs).map_err(|e| format!("extfvk[{which}] decode: {e}"))?;
        let bytes = |x: &sapling::zip32::ExtendedFullViewingKey| {
            let mut v = Vec::new();
            x.write(&mut v).map(|_| v)
        };
        if bytes(&fd).map_err(|e| e.to_string())? != bytes(&fvk).map_err(|e| e.to_string())? || encode_extended_full_viewing_key(fhrp, &fd) != fs {
            return Err(format!("Sapling extended full viewing key [{which}] does not round-trip"));
        }
        #[allow(deprecated)]
        let via_decoded_sk = d.to_extended_full_viewing_key();
        if bytes(&via_decoded_sk).map_err(|e| e.to_string())? != bytes(&fvk).map_err(|e| e.to_string())? {
            return Err(format!("decoded extended spending key [{which}] derives a different FVK"));
        }
        match decode_extfvk_with_network(&fs) {
            Ok((n, x)) if n == ctx.net.network_type() && bytes(&x).ok() == bytes(&fvk).ok() => {}
            other => return Err(format!("decode_extfvk_with_network [{which}] = {:?}", other.map(|(n, _)| n))),
        }
        if fd.default_address() != fvk.default_address() || fd.to_diversifiable_full_viewing_key().to_bytes() != k.to_diversifiable_full_viewing_key().to_bytes() {
            return Err(format!("decoded extended FVK [{which}] derives different addresses"));
        }
        // payment addresses: default external and default change
        let dfvk = k.to_diversifiable_full_viewing_key();
        let ahrp = ctx.net.hrp_sapling_payment_address();
        for (an, pa) in [("default", dfvk.default_address().1), ("change", dfvk.change_address().1)] {
            let ps = encode_payment_address(ahrp, &pa);
            if encode_payment_address_p(&ctx.net, &pa) != ps || <sapling::PaymentAddress as AddressCodec<Net>>::encode(&pa, &ctx.net) != ps {
                return Err(format!("the three Sapling address encoders disagree [{which}/{an}]"));
            }
            if decode_payment_address(ahrp, &ps) != Ok(pa) || <sapling::PaymentAddress as AddressCodec<Net>>::decode(&ctx.net, &ps) != Ok(pa) {
                return Err(format!("Sapling payment address [{which}/{an}] does not round-trip"));
            }
            match Address::decode(&ctx.net, &ps) {
                Some(Address::Sapling(x)) if x == pa => {
                    if Address::Sapling(x).encode(&ctx.net) != ps {
                        return Err(format!("Address::encode differs for Sapling address [{which}/{an}]"));
                    }
                }
                other => return Err(format!("Address::decode of a Sapling address [{which}/{an}] = {other:?}")),
            }
            for (on, onet) in other_nets(ctx) {
                match decode_payment_address(onet.hrp_sapling_payment_address(), &ps) {
                    Err(Bech32DecodeError::HrpMismatch { .. }) => {}
                    other => return Err(format!("Sapling address for {} under {on} prefix: {other:?}", ctx.net_name)),
                }
                if Address::decode(&onet, &ps).is_some() {
                    return Err(format!("Address::decode accepts a {} Sapling address under {on} parameters", ctx.net_name));
                }
            }
        }
        for (on, onet) in other_nets(ctx) {
            match decode_extended_spending_key(onet.hrp_sapling_extended_spending_key(), &s) {
                Err(Bech32DecodeError::HrpMismatch { .. }) => {}
                other => return Err(format!("extsk for {} under {on} prefix: {:?}", ctx.net_name, other.map(|_| "accepted"))),
            }
            match decode_extended_full_viewing_key(onet.hrp_sapling_extended_full_viewing_key(), &fs) {
                Err(Bech32DecodeError::HrpMismatch { .. }) => {}
                other => return Err(format!("extfvk for {} under {on} prefix: {:?}", ctx.net_name, other.map(|_| "accepted"))),
            }
        }
        // the wrong kind of string is refused
        if decode_extended_full_viewing_key(fhrp, &s).is_ok() || decode_extended_spending_key(hrp, &fs).is_ok() {
            return Err("Sapling key decoders accept each other's strings".into());
        }
        out.push(format!("sapling-legacy:{which}:roundtrip"));
    }
    Ok(())
}

fn transparent_checks(ctx: &KeyCtx, out: &mut Vec<String>) -> Result<(), String> {
    let (tpriv, tpub) = match (&ctx.tpriv, &ctx.tpub) {
        (Some(a), Some(b)) => (a, b),
        _ => {
            out.push("transparent:no-key-for-this-seed-length".into());
            return Ok(());
        }
    };
    let idx0 = NonHardenedChildIndex::ZERO;
    let idx5 = NonHardenedChildIndex::from_index(5).ok_or("index 5")?;
    // account-level keys
    let pb = tpriv.to_bytes();
    let pd = AccountPrivKey::from_bytes(&pb).ok_or("AccountPrivKey::from_bytes(to_bytes) is None")?;
    if pd.to_bytes() != pb || pd.to_account_pubkey() != *tpub {
        return Err("AccountPrivKey does not round-trip".into());
    }
    for scope in [TransparentKeyScope::EXTERNAL, TransparentKeyScope::INTERNAL, TransparentKeyScope::EPHEMERAL] {
        if pd.derive_secret_key(scope, idx5).map_err(|e| format!("{e:?}"))? != tpriv.derive_secret_key(scope, idx5).map_err(|e| format!("{e:?}"))? {
            return Err("decoded AccountPrivKey derives different secret keys".into());
        }
    }
    for n in 0..pb.len() {
        if AccountPrivKey::from_bytes(&pb[..n]).is_some() {
            return Err(format!("AccountPrivKey::from_bytes accepts a {n}-byte prefix"));
        }
    }
    let ub = tpub.serialize();
    let arr: [u8; 65] = ub.clone().try_into().map_err(|_| "AccountPubKey::serialize is not 65 bytes")?;
    let ud = AccountPubKey::deserialize(&arr).map_err(|e| format!("AccountPubKey::deserialize: {e:?}"))?;
    if ud.serialize() != ub || ud != *tpub {
        return Err("AccountPubKey does not round-trip".into());
    }
    let ext = tpub.derive_external_ivk().map_err(|e| format!("{e:?}"))?;
    let int = tpub.derive_internal_ivk().map_err(|e| format!("{e:?}"))?;
    let eph = tpub.derive_ephemeral_ivk().map_err(|e| format!("{e:?}"))?;
    let ext_d = ud.derive_external_ivk().map_err(|e| format!("{e:?}"))?;
    let int_d = ud.derive_internal_ivk().map_err(|e| format!("{e:?}"))?;
    let eph_d = ud.derive_ephemeral_ivk().map_err(|e| format!("{e:?}"))?;
    let a = |r: Result<TransparentAddress, bip32::Error>| r.map_err(|e| format!("{e:?}"));
    for idx in [idx0, idx5] {
        if a(ext.derive_address(idx))? != a(ext_d.derive_address(idx))?
            || a(int.derive_address(idx))? != a(int_d.derive_address(idx))?
            || a(eph.derive_ephemeral_address(idx))? != a(eph_d.derive_ephemeral_address(idx))?
        {
            return Err("decoded AccountPubKey derives different addresses".into());
        }
    }
    if ud.external_ovk().as_bytes() != tpub.external_ovk().as_bytes() || ud.internal_ovk().as_bytes() != tpub.internal_ovk().as_bytes() {
        return Err("decoded AccountPubKey derives different OVKs".into());
    }
    // change-level IVKs
    let eb: [u8; 65] = ext.serialize().try_into().map_err(|_| "ExternalIvk::serialize is not 65 bytes")?;
    let ed = ExternalIvk::deserialize(&eb).map_err(|e| format!("{e:?}"))?;
    let ib: [u8; 65] = int.serialize().try_into().map_err(|_| "InternalIvk::serialize is not 65 bytes")?;
    let id = InternalIvk::deserialize(&ib).map_err(|e| format!("{e:?}"))?;
    if ed.serialize() != eb.to_vec() || id.serialize() != ib.to_vec() {
        return Err("transparent IVK does not re-serialize identically".into());
    }
    for idx in [idx0, idx5] {
        if a(ed.derive_address(idx))? != a(ext.derive_address(idx))? || a(id.derive_address(idx))? != a(int.derive_address(idx))? {
            return Err("decoded transparent IVK derives different addresses".into());
        }
    }
    if ed.default_address() != ext.default_address() {
        return Err("decoded ExternalIvk has a different default address".into());
    }
    // default transparent address is the same at every level
    if let Ok(usk) = &ctx.usk {
        let ufvk = usk.to_unified_full_viewing_key();
        let d0 = usk.default_transparent_address();
        if Some(d0) != ufvk.default_transparent_address() || Some(d0) != ufvk.to_unified_incoming_viewing_key().default_transparent_address() || d0 != ext.default_address() {
            return Err("default transparent address differs between USK, UFVK, UIVK and the external IVK".into());
        }
        if Some(d0.0) != ctx.l0_transparent(d0.1.index() as u128) {
            return Err("default transparent address is not the secret-key-side address at its index".into());
        }
    }
    out.push("transparent:account-and-ivk-keys:roundtrip".into());

    // addresses: one per scope, in both P2PKH and P2SH shape
    let mut addrs = Vec::new();
    for x in [a(ext.derive_address(idx0))?, a(int.derive_address(idx0))?, a(eph.derive_ephemeral_address(idx0))?] {
        if let TransparentAddress::PublicKeyHash(h) = x {
            addrs.push(TransparentAddress::PublicKeyHash(h));
            addrs.push(TransparentAddress::ScriptHash(h));
        } else {
            return Err("derived transparent address is not P2PKH".into());
        }
    }
    let (pk_pre, sh_pre) = (ctx.net.b58_pubkey_address_prefix(), ctx.net.b58_script_address_prefix());
    for ta in &addrs {
        let s = <TransparentAddress as AddressCodec<Net>>::encode(ta, &ctx.net);
        if encode_transparent_address_p(&ctx.net, ta) != s || encode_transparent_address(&pk_pre, &sh_pre, ta) != s {
            return Err("the three transparent address encoders disagree".into());
        }
        match <TransparentAddress as AddressCodec<Net>>::decode(&ctx.net, &s) {
            Ok(d) if d == *ta => {}
            other => return Err(format!("transparent address does not round-trip: {other:?}")),
        }
        if decode_transparent_address(&pk_pre, &sh_pre, &s) != Ok(Some(*ta)) {
            return Err("decode_transparent_address does not invert the encoder".into());
        }
        match Address::decode(&ctx.net, &s) {
            Some(Address::Transparent(d)) if d == *ta && Address::Transparent(d).encode(&ctx.net) == s => {}
            other => return Err(format!("Address::decode of a transparent address = {other:?}")),
        }
        for (on, onet) in other_nets(ctx) {
            let shared = onet.b58_pubkey_address_prefix() == pk_pre && onet.b58_script_address_prefix() == sh_pre;
            let r = <TransparentAddress as AddressCodec<Net>>::decode(&onet, &s);
            match (shared, r) {
                (true, Ok(d)) if d == *ta => {}
                (false, Err(_)) => {}
                (sh, other) => return Err(format!("{} transparent address under {on} parameters (shared prefixes: {sh}): {other:?}", ctx.net_name)),
            }
        }
    }
    out.push("transparent:addresses:roundtrip".into());

    // zcashd-style secret key encodings of the first external secret key
    let sk = tpriv.derive_external_secret_key(idx0).map_err(|e| format!("{e:?}"))?;
    for compressed in [true, false] {
        let key = Key::new(sk, compressed);
        let enc: SecretString = key.encode_base58(&ctx.net);
        let dec = Key::decode_base58(&ctx.net, &enc).map_err(|e| format!("Key::decode_base58(encode_base58): {e:?}"))?;
        if dec.secret() != &sk || dec.compressed() != compressed || dec.encode_base58(&ctx.net).expose_secret() != enc.expose_secret() {
            return Err(format!("transparent secret key (compressed={compressed}) does not round-trip through Base58"));
        }
        for (on, onet) in other_nets(ctx) {
            let shared = onet.b58_secret_key_prefix() == ctx.net.b58_secret_key_prefix();
            if Key::decode_base58(&onet, &enc).is_ok() != shared {
                return Err(format!("{} secret key under {on} parameters: accepted != prefixes shared ({shared})", ctx.net_name));
            }
        }
        let der = key.der_encode();
        let dd = Key::der_decode(&der, compressed).map_err(|_| "Key::der_decode(der_encode) failed")?;
        if dd.secret() != &sk || dd.der_encode().expose_secret() != der.expose_secret() {
            return Err(format!("transparent secret key (compressed={compressed}) does not round-trip through DER"));
        }
        let pk = key.pubkey();
        if TransparentAddress::PublicKeyHash(hash160(&pk.serialize())) != a(ext.derive_address(idx0))? {
            return Err("public key of the encoded secret key does not hash to the derived address".into());
        }
    }
    out.push("transparent:secret-key-base58-and-der:roundtrip".into());
    Ok(())
}

/// All encoding laws for one (seed, account, network).
pub fn check_encodings(ctx: &KeyCtx) -> Result<Vec<String>, String> {
    let r = catch(|| -> Result<Vec<String>, String> {
        let mut out = Vec::new();
        usk_checks(ctx, &mut out)?;
        unified_viewing_checks(ctx, &mut out)?;
        sapling_legacy_checks(ctx, &mut out)?;
        transparent_checks(ctx, &mut out)?;
        Ok(out)
    });
    match r {
        Ok(x) => x,
        Err(p) => Err(format!("panic: {p}")),
    }
}
