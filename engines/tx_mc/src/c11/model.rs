//! Reference model of unified-address requests, written from the documentation of
//! `ReceiverRequirement`, `UnifiedAddressRequest`, `AddressGenerationError` and
//! `UnifiedIncomingViewingKey::{address, find_address}`. Plain booleans; never calls the code
//! under test.

use super::keys::{MAX_DI, O, S, T, T_LIMIT};
use zcash_address::unified::Typecode;
use zcash_keys::keys::{AddressGenerationError, ReceiverRequirement, UnifiedAddressRequest};

#[derive(Clone, Copy, PartialEq, Eq, Debug)]
pub enum Rq {
    Require,
    Allow,
    Omit,
}
pub const RQS: [Rq; 3] = [Rq::Require, Rq::Allow, Rq::Omit];

impl Rq {
    pub fn letter(self) -> char {
        match self {
            Rq::Require => 'R',
            Rq::Allow => 'A',
            Rq::Omit => 'O',
        }
    }
    pub fn from_letter(c: char) -> Option<Rq> {
        match c {
            'R' => Some(Rq::Require),
            'A' => Some(Rq::Allow),
            'O' => Some(Rq::Omit),
            _ => None,
        }
    }
    pub fn real(self) -> ReceiverRequirement {
        match self {
            Rq::Require => ReceiverRequirement::Require,
            Rq::Allow => ReceiverRequirement::Allow,
            Rq::Omit => ReceiverRequirement::Omit,
        }
    }
    pub fn of(r: ReceiverRequirement) -> Rq {
        match r {
            ReceiverRequirement::Require => Rq::Require,
            ReceiverRequirement::Allow => Rq::Allow,
            ReceiverRequirement::Omit => Rq::Omit,
        }
    }
}

/// A request: `AllAvailableKeys` or `Custom(orchard, sapling, p2pkh)`.
#[derive(Clone, Copy, PartialEq, Eq, Debug)]
pub enum Req {
    All,
    Custom(Rq, Rq, Rq),
}

impl Req {
    pub fn code(self) -> String {
        match self {
            Req::All => "all".to_string(),
            Req::Custom(o, s, t) => [o.letter(), s.letter(), t.letter()].iter().collect(),
        }
    }
    pub fn parse(s: &str) -> Option<Req> {
        if s == "all" {
            return Some(Req::All);
        }
        let c: Vec<char> = s.chars().collect();
        if c.len() != 3 {
            return None;
        }
        Some(Req::Custom(Rq::from_letter(c[0])?, Rq::from_letter(c[1])?, Rq::from_letter(c[2])?))
    }
    /// The documented constructor; `None` for the three combinations that omit both shielded
    /// receivers (rejected with `NoShieldedReceiver`, checked separately).
    pub fn real(self) -> Option<UnifiedAddressRequest> {
        match self {
            Req::All => Some(UnifiedAddressRequest::AllAvailableKeys),
            Req::Custom(o, s, t) => UnifiedAddressRequest::custom(o.real(), s.real(), t.real()).ok(),
        }
    }
    /// Every request: AllAvailableKeys plus the 27 Custom combinations.
    pub fn all() -> Vec<Req> {
        let mut v = vec![Req::All];
        for o in RQS {
            for s in RQS {
                for t in RQS {
                    v.push(Req::Custom(o, s, t));
                }
            }
        }
        v
    }
    pub fn constructible(self) -> bool {
        !matches!(self, Req::Custom(Rq::Omit, Rq::Omit, _))
    }
}

/// What the key can do at one index.
#[derive(Clone, Copy, Debug)]
pub struct Facts {
    pub mask: u8,
    /// the Sapling diversifier at this index is valid for this key (from the Sapling crate)
    pub s_valid: bool,
    /// the index is a valid non-hardened BIP 32 child index (and derivation succeeded)
    pub t_valid: bool,
}

#[derive(Clone, Copy, PartialEq, Eq, Debug)]
pub enum ErrClass {
    /// Require of a receiver type the key has no item for
    Missing(u8),
    /// Require Sapling at an index whose diversifier is invalid
    InvalidSapling,
    /// Require P2PKH at an index outside the non-hardened range
    InvalidTransparent,
    /// no shielded receiver would be present
    NoShielded,
    /// find_address ran off the end of the diversifier space
    Exhausted,
}

#[derive(Clone, PartialEq, Eq, Debug)]
pub enum Expect {
    /// exactly these receivers (component mask)
    Ok(u8),
    /// an error; any of the listed causes is an acceptable report
    Err(Vec<ErrClass>),
}

pub fn expect_address(f: &Facts, req: Req) -> Expect {
    let has = |c: u8| f.mask & c != 0;
    let (ro, rs, rt) = match req {
        Req::All => {
            // "requires a receiver for each data item of this UIVK"; error if that has no
            // shielded receiver.
            if !has(O) && !has(S) {
                return Expect::Err(vec![ErrClass::NoShielded]);
            }
            let r = |c: u8| if has(c) { Rq::Require } else { Rq::Omit };
            (r(O), r(S), r(T))
        }
        Req::Custom(o, s, t) => (o, s, t),
    };
    let mut errs = Vec::new();
    if rt == Rq::Require {
        if !has(T) {
            errs.push(ErrClass::Missing(T));
        } else if !f.t_valid {
            errs.push(ErrClass::InvalidTransparent);
        }
    }
    if ro == Rq::Require && !has(O) {
        errs.push(ErrClass::Missing(O));
    }
    if rs == Rq::Require {
        if !has(S) {
            errs.push(ErrClass::Missing(S));
        } else if !f.s_valid {
            errs.push(ErrClass::InvalidSapling);
        }
    }
    if !errs.is_empty() {
        return Expect::Err(errs);
    }
    let mut m = 0u8;
    if ro != Rq::Omit && has(O) {
        m |= O;
    }
    if rs != Rq::Omit && has(S) && f.s_valid {
        m |= S;
    }
    if rt != Rq::Omit && has(T) && f.t_valid {
        m |= T;
    }
    if m & (O | S) == 0 {
        Expect::Err(vec![ErrClass::NoShielded])
    } else {
        Expect::Ok(m)
    }
}

/// Observed error, normalised.
#[derive(Clone, PartialEq, Eq, Debug)]
pub enum Seen {
    InvalidTransparent(u128),
    InvalidSapling(u128),
    Exhausted,
    NotSupported(u8),
    KeyNotAvailable(u8),
    NoShielded,
    Other(String),
}

fn tc_mask(t: &Typecode) -> u8 {
    match t {
        Typecode::Orchard => O,
        Typecode::Sapling => S,
        Typecode::P2pkh => T,
        _ => 0,
    }
}

pub fn seen(e: &AddressGenerationError) -> Seen {
    match e {
        AddressGenerationError::InvalidTransparentChildIndex(i) => Seen::InvalidTransparent(u128::from(*i)),
        AddressGenerationError::InvalidSaplingDiversifierIndex(i) => Seen::InvalidSapling(u128::from(*i)),
        AddressGenerationError::DiversifierSpaceExhausted => Seen::Exhausted,
        AddressGenerationError::ReceiverTypeNotSupported(t) => Seen::NotSupported(tc_mask(t)),
        AddressGenerationError::KeyNotAvailable(t) => Seen::KeyNotAvailable(tc_mask(t)),
        AddressGenerationError::ShieldedReceiverRequired => Seen::NoShielded,
        other => Seen::Other(format!("{other:?}")),
    }
}

impl Seen {
    pub fn class(&self) -> &'static str {
        match self {
            Seen::InvalidTransparent(_) => "invalid-transparent-index",
            Seen::InvalidSapling(_) => "invalid-sapling-index",
            Seen::Exhausted => "space-exhausted",
            Seen::NotSupported(_) => "receiver-type-not-supported",
            Seen::KeyNotAvailable(_) => "key-not-available",
            Seen::NoShielded => "shielded-receiver-required",
            Seen::Other(_) => "other",
        }
    }
}

/// Is the observed error an acceptable report of one of the expected causes at index `j`?
///
/// The error *variants* for an invalid index are documented precisely and carry the index. For a
/// missing key item the variant documentation and `receiver_requirements` disagree
/// (`KeyNotAvailable` vs `ReceiverTypeNotSupported`), and `address` reports every failure of
/// `receiver_requirements` as `ShieldedReceiverRequired`; the property only demands *an error*
/// there, so all three are accepted (weaker reading, stated as an assumption).
pub fn err_matches(expected: &[ErrClass], got: &Seen, j: u128) -> bool {
    expected.iter().any(|e| match (e, got) {
        (ErrClass::InvalidSapling, Seen::InvalidSapling(i)) => *i == j,
        (ErrClass::InvalidTransparent, Seen::InvalidTransparent(i)) => *i == j,
        (ErrClass::NoShielded, Seen::NoShielded) => true,
        (ErrClass::Exhausted, Seen::Exhausted) => true,
        (ErrClass::Missing(c), Seen::NotSupported(d)) | (ErrClass::Missing(c), Seen::KeyNotAvailable(d)) => c == d,
        (ErrClass::Missing(_), Seen::NoShielded) => true,
        _ => false,
    })
}

/// Expected result of `find_address(j, req)`: the smallest index `k >= j` at which an address
/// conforming to the request exists, or an error when none does.
#[derive(Clone, PartialEq, Eq, Debug)]
pub enum FindExpect {
    /// found at `k` with exactly these receivers
    Ok(u128, u8),
    /// no index >= j can satisfy the request; `at_start` tells whether that is already decided at
    /// `j` itself (then the error must report one of `causes` at `j`), otherwise any error.
    Err { causes: Vec<ErrClass>, at_start: bool },
    /// the search horizon of the model was exceeded (never observed; reported as a cap)
    Horizon,
}

pub const FIND_HORIZON: u128 = 96;

pub fn expect_find(mask: u8, j: u128, req: Req, s_valid: &dyn Fn(u128) -> bool, t_ok: &dyn Fn(u128) -> bool) -> FindExpect {
    let mut k = j;
    loop {
        if k > MAX_DI {
            return FindExpect::Err { causes: vec![ErrClass::Exhausted], at_start: false };
        }
        if k - j > FIND_HORIZON {
            return FindExpect::Horizon;
        }
        let f = Facts { mask, s_valid: s_valid(k), t_valid: k < T_LIMIT && t_ok(k) };
        match expect_address(&f, req) {
            Expect::Ok(m) => return FindExpect::Ok(k, m),
            Expect::Err(causes) => {
                // Only an invalid Sapling diversifier can be cured by moving to a later index
                // (Orchard accepts every index; the transparent range is downward closed).
                let cured = matches!(expect_address(&Facts { s_valid: true, ..f }, req), Expect::Ok(_));
                if !cured {
                    return FindExpect::Err { causes, at_start: k == j };
                }
            }
        }
        k += 1;
    }
}

/// `ReceiverRequirement::intersect` from its documentation.
pub fn intersect(a: Rq, b: Rq) -> Option<Rq> {
    match (a, b) {
        (Rq::Require, Rq::Omit) | (Rq::Omit, Rq::Require) => None,
        (Rq::Require, _) | (_, Rq::Require) => Some(Rq::Require),
        (Rq::Omit, _) | (_, Rq::Omit) => Some(Rq::Omit),
        (Rq::Allow, Rq::Allow) => Some(Rq::Allow),
    }
}
