//! C10, strings part: seeds for every address kind x network, and every listed mutation of every
//! seed string, driven through `ZcashAddress`, `zcash_keys::address::Address` and the `AddressCodec`
//! implementations of zcash_keys.

use super::refenc::{self, Variant};
use mc_core::{catch, Run, Tier};
use rayon::prelude::*;
use serde_json::json;
use std::collections::{BTreeMap, BTreeSet};
use zcash_address::unified::{self, Container, Encoding, Item};
use zcash_address::{ConversionError, ToAddress, TryFromAddress, ZcashAddress};
use zcash_keys::address::{Address, UnifiedAddress};
use zcash_keys::encoding::AddressCodec;
use zcash_protocol::consensus::{NetworkType, Parameters, MAIN_NETWORK, TEST_NETWORK};
use zcash_protocol::local_consensus::LocalNetwork;
use zcash_transparent::address::TransparentAddress;

// Prefix tables written from the protocol specification (section 5.6) and ZIP 316 / ZIP 320.
const SAPLING_HRPS: [&str; 3] = ["zs", "ztestsapling", "zregtestsapling"];
const TEX_HRPS: [&str; 3] = ["tex", "textest", "texregtest"];
const UNIFIED_HRPS: [&str; 9] = ["u", "utest", "uregtest", "uview", "uviewtest", "uviewregtest", "uivk", "uivktest", "uivkregtest"];
// [main, test]; regtest shares the testnet prefixes
const SPROUT_PREFIX: [[u8; 2]; 2] = [[0x16, 0x9a], [0x16, 0xb6]];
const P2PKH_PREFIX: [[u8; 2]; 2] = [[0x1c, 0xb8], [0x1d, 0x25]];
const P2SH_PREFIX: [[u8; 2]; 2] = [[0x1c, 0xbd], [0x1c, 0xba]];

fn regtest() -> LocalNetwork {
    LocalNetwork { overwinter: None, sapling: None, blossom: None, heartwood: None, canopy: None, nu5: None, nu6: None, nu6_1: None, nu6_2: None, nu6_3: None }
}

/// What a parsed `ZcashAddress` contains, observed through the public conversion trait.
#[derive(Debug, Clone, PartialEq, Eq)]
pub struct Cap {
    pub kind: &'static str,
    pub net: NetworkType,
    pub data: Vec<u8>,
}

impl Cap {
    fn bech32_family(&self) -> bool {
        matches!(self.kind, "sapling" | "unified" | "tex")
    }
}

impl TryFromAddress for Cap {
    type Error = ();
    fn try_from_sprout(net: NetworkType, data: [u8; 64]) -> Result<Self, ConversionError<()>> {
        Ok(Cap { kind: "sprout", net, data: data.to_vec() })
    }
    fn try_from_sapling(net: NetworkType, data: [u8; 43]) -> Result<Self, ConversionError<()>> {
        Ok(Cap { kind: "sapling", net, data: data.to_vec() })
    }
    fn try_from_unified(net: NetworkType, ua: unified::Address) -> Result<Self, ConversionError<()>> {
        Ok(Cap { kind: "unified", net, data: ua.items_as_parsed().iter().flat_map(|i| i.typed_encoding()).collect() })
    }
    fn try_from_transparent_p2pkh(net: NetworkType, data: [u8; 20]) -> Result<Self, ConversionError<()>> {
        Ok(Cap { kind: "p2pkh", net, data: data.to_vec() })
    }
    fn try_from_transparent_p2sh(net: NetworkType, data: [u8; 20]) -> Result<Self, ConversionError<()>> {
        Ok(Cap { kind: "p2sh", net, data: data.to_vec() })
    }
    fn try_from_tex(net: NetworkType, data: [u8; 20]) -> Result<Self, ConversionError<()>> {
        Ok(Cap { kind: "tex", net, data: data.to_vec() })
    }
}

#[derive(Clone, Debug)]
pub enum Family {
    Bech32 { hrp: &'static str, variant: Variant, data: Vec<u8> },
    Base58 { payload: Vec<u8> },
}

pub struct Seed {
    pub name: String,
    pub z: ZcashAddress,
    pub kind: &'static str,
    /// network the value was asked for
    pub requested: NetworkType,
    pub data: Vec<u8>,
    pub family: Family,
}

fn sapling_receiver() -> [u8; 43] {
    sapling::zip32::ExtendedSpendingKey::master(&[7u8; 32]).default_address().1.to_bytes()
}
fn orchard_receiver() -> [u8; 43] {
    let sk: orchard::keys::SpendingKey = Option::<orchard::keys::SpendingKey>::from(orchard::keys::SpendingKey::from_bytes([7u8; 32])).expect("fixed orchard spending key is valid");
    orchard::keys::FullViewingKey::from(&sk).address_at(0u32, orchard::keys::Scope::External).to_raw_address_bytes()
}
fn filler<const N: usize>(salt: u8) -> [u8; N] {
    let mut a = [0u8; N];
    for (i, b) in a.iter_mut().enumerate() {
        *b = (i as u8).wrapping_mul(37).wrapping_add(salt) | 1;
    }
    a
}

const NETTYPES: [NetworkType; 3] = [NetworkType::Main, NetworkType::Test, NetworkType::Regtest];
const NETNAMES: [&str; 3] = ["main", "test", "regtest"];

/// Unified seeds as (typecode, payload) lists in ascending typecode order.
fn unified_seed_items() -> Vec<(&'static str, Vec<(u32, Vec<u8>)>)> {
    vec![
        ("ua-orchard", vec![(3, orchard_receiver().to_vec())]),
        ("ua-p2pkh-sapling", vec![(0, filler::<20>(3).to_vec()), (2, sapling_receiver().to_vec())]),
        ("ua-p2sh-sapling-orchard-unknown", vec![(1, filler::<20>(5).to_vec()), (2, sapling_receiver().to_vec()), (3, orchard_receiver().to_vec()), (0xffff, vec![1, 2, 3, 4, 5])]),
        ("ua-arbitrary-payloads", vec![(2, filler::<43>(9).to_vec()), (3, filler::<43>(11).to_vec())]),
    ]
}

fn receiver(tc: u32, d: &[u8]) -> unified::Receiver {
    match tc {
        0 => unified::Receiver::P2pkh(d.try_into().unwrap()),
        1 => unified::Receiver::P2sh(d.try_into().unwrap()),
        2 => unified::Receiver::Sapling(d.try_into().unwrap()),
        3 => unified::Receiver::Orchard(d.try_into().unwrap()),
        t => unified::Receiver::Unknown { typecode: t, data: d.to_vec() },
    }
}

pub fn seeds() -> Vec<Seed> {
    let mut out = Vec::new();
    for n in 0..3 {
        let net = NETTYPES[n];
        let b58net = if n == 0 { 0 } else { 1 };
        let sprout: [u8; 64] = filler(1);
        let mut payload = SPROUT_PREFIX[b58net].to_vec();
        payload.extend(sprout);
        out.push(Seed { name: format!("sprout-{}", NETNAMES[n]), z: ZcashAddress::from_sprout(net, sprout), kind: "sprout", requested: net, data: sprout.to_vec(), family: Family::Base58 { payload } });
        let pkh: [u8; 20] = filler(2);
        let mut payload = P2PKH_PREFIX[b58net].to_vec();
        payload.extend(pkh);
        out.push(Seed { name: format!("p2pkh-{}", NETNAMES[n]), z: ZcashAddress::from_transparent_p2pkh(net, pkh), kind: "p2pkh", requested: net, data: pkh.to_vec(), family: Family::Base58 { payload } });
        let sh: [u8; 20] = filler(4);
        let mut payload = P2SH_PREFIX[b58net].to_vec();
        payload.extend(sh);
        out.push(Seed { name: format!("p2sh-{}", NETNAMES[n]), z: ZcashAddress::from_transparent_p2sh(net, sh), kind: "p2sh", requested: net, data: sh.to_vec(), family: Family::Base58 { payload } });
        let sap = sapling_receiver();
        out.push(Seed {
            name: format!("sapling-{}", NETNAMES[n]),
            z: ZcashAddress::from_sapling(net, sap),
            kind: "sapling",
            requested: net,
            data: sap.to_vec(),
            family: Family::Bech32 { hrp: SAPLING_HRPS[n], variant: Variant::Bech32, data: sap.to_vec() },
        });
        let tex: [u8; 20] = filler(6);
        out.push(Seed {
            name: format!("tex-{}", NETNAMES[n]),
            z: ZcashAddress::from_tex(net, tex),
            kind: "tex",
            requested: net,
            data: tex.to_vec(),
            family: Family::Bech32 { hrp: TEX_HRPS[n], variant: Variant::Bech32m, data: tex.to_vec() },
        });
        for (name, items) in unified_seed_items() {
            let ua = unified::Address::try_from_items(items.iter().map(|(t, d)| receiver(*t, d)).collect()).expect("seed unified address is well-formed");
            let mut raw = Vec::new();
            for (t, d) in &items {
                raw.extend(refenc::compact_size(*t as u64));
                raw.extend(refenc::compact_size(d.len() as u64));
                raw.extend(d);
            }
            let typed = raw.clone();
            let mut pad = [0u8; 16];
            pad[..UNIFIED_HRPS[n].len()].copy_from_slice(UNIFIED_HRPS[n].as_bytes());
            raw.extend(pad);
            out.push(Seed {
                name: format!("{name}-{}", NETNAMES[n]),
                z: ZcashAddress::from_unified(net, ua),
                kind: "unified",
                requested: net,
                data: typed,
                family: Family::Bech32 { hrp: UNIFIED_HRPS[n], variant: Variant::Bech32m, data: refenc::f4jumble(&raw).expect("seed raw length is valid") },
            });
        }
    }
    out
}

/// parse(encode(v)) == v, and the parsed value carries exactly the kind and bytes of the seed on the
/// seed's network. The one documented exception: Sprout and transparent encodings are shared between
/// testnet and regtest, so a value asked for on regtest may come back as the testnet value.
pub fn check_seed(idx: usize) -> Result<String, String> {
    let all = seeds();
    let seed = all.get(idx).ok_or("no such seed")?;
    let enc = catch(|| seed.z.encode()).map_err(|p| format!("encode panicked: {p}"))?;
    let back = catch(|| ZcashAddress::try_from_encoded(&enc)).map_err(|p| format!("parse panicked: {p}"))?;
    let back = back.map_err(|e| format!("{}: encode() gives {enc:?} which does not parse: {e:?}", seed.name))?;
    let cap_v = seed.z.clone().convert::<Cap>().map_err(|_| "convert failed".to_string())?;
    let cap_b = back.clone().convert::<Cap>().map_err(|_| "convert failed".to_string())?;
    let shared = matches!(seed.kind, "sprout" | "p2pkh" | "p2sh");
    let net_ok = |n: NetworkType| n == seed.requested || (shared && seed.requested == NetworkType::Regtest && n == NetworkType::Test);
    for (what, c) in [("constructed", &cap_v), ("parsed", &cap_b)] {
        if c.kind != seed.kind || c.data != seed.data || !net_ok(c.net) {
            return Err(format!("{}: {what} value carries {:?}/{:?}/{} but the seed is {:?}/{:?}/{}", seed.name, c.kind, c.net, hex::encode(&c.data), seed.kind, seed.requested, hex::encode(&seed.data)));
        }
    }
    if back != seed.z && !(shared && seed.requested == NetworkType::Regtest && cap_v.net != cap_b.net) {
        return Err(format!("{}: parse(encode(v)) != v", seed.name));
    }
    Ok(format!("seed-roundtrip:{}", seed.kind))
}

/// `convert_if_network`: succeeds iff the networks match, or (documented) a testnet Sprout /
/// transparent address is read as regtest.
pub fn check_network(idx: usize, target: usize) -> Result<String, String> {
    let all = seeds();
    let seed = all.get(idx).ok_or("no such seed")?;
    let t = NETTYPES[target];
    let shared = matches!(seed.kind, "sprout" | "p2pkh" | "p2sh");
    let carried = seed.z.clone().convert::<Cap>().map_err(|_| "convert failed".to_string())?.net;
    let want_ok = carried == t || (shared && carried == NetworkType::Test && t == NetworkType::Regtest);
    let got = catch(|| seed.z.clone().convert_if_network::<Cap>(t)).map_err(|p| format!("convert_if_network panicked: {p}"))?;
    match (got, want_ok) {
        (Ok(c), true) if c.kind == seed.kind && c.data == seed.data && c.net == t => Ok("network:ok".into()),
        (Err(ConversionError::IncorrectNetwork { .. }), false) => Ok("network:refused".into()),
        (g, _) => Err(format!("{} read as {:?}: got {:?}, expected success = {want_ok}", seed.name, t, g.map(|c| (c.kind, c.net)).map_err(|e| format!("{e:?}")))),
    }
}

// ---- typed layer -----------------------------------------------------------------------------

fn typed_seeds() -> Vec<(String, Address)> {
    let sap = sapling::PaymentAddress::from_bytes(&sapling_receiver()).expect("valid sapling receiver");
    let orc: orchard::Address = Option::<orchard::Address>::from(orchard::Address::from_raw_address_bytes(&orchard_receiver())).expect("valid orchard receiver");
    let pkh = TransparentAddress::PublicKeyHash(filler(2));
    let sh = TransparentAddress::ScriptHash(filler(4));
    let mut v = vec![
        ("sapling".to_string(), Address::Sapling(sap)),
        ("p2pkh".to_string(), Address::Transparent(pkh)),
        ("p2sh".to_string(), Address::Transparent(sh)),
        ("tex".to_string(), Address::Tex(filler(6))),
    ];
    for (o, s) in [(true, false), (false, true), (true, true)] {
        for (tn, t) in [("none", None), ("p2pkh", Some(pkh)), ("p2sh", Some(sh))] {
            let ua = UnifiedAddress::from_receivers(o.then_some(orc), s.then_some(sap), t).expect("at least one shielded receiver");
            v.push((format!("ua-o{}-s{}-t{}", o as u8, s as u8, tn), Address::Unified(ua)));
        }
    }
    v
}

fn typed_roundtrip<P: Parameters>(p: &P, name: &str, a: &Address) -> Result<String, String> {
    let enc = catch(|| a.encode(p)).map_err(|e| format!("{name}: Address::encode panicked: {e}"))?;
    match catch(|| Address::decode(p, &enc)).map_err(|e| format!("{name}: Address::decode panicked: {e}"))? {
        Some(b) if &b == a => {}
        other => return Err(format!("{name}: decode(encode(a)) = {other:?} for {enc}")),
    }
    // the generic parser sees the same value
    let z = catch(|| ZcashAddress::try_from_encoded(&enc)).map_err(|e| format!("parse panicked: {e}"))?.map_err(|e| format!("{name}: {enc} does not parse: {e:?}"))?;
    if catch(|| a.to_zcash_address(p)).map_err(|e| format!("to_zcash_address panicked: {e}"))? != z {
        return Err(format!("{name}: to_zcash_address differs from the parsed string"));
    }
    Ok("typed-seed-roundtrip".into())
}

pub fn check_typed_seed(idx: usize, net: usize) -> Result<String, String> {
    let all = typed_seeds();
    let (name, a) = all.get(idx).ok_or("no such typed seed")?;
    match net {
        0 => typed_roundtrip(&MAIN_NETWORK, name, a),
        1 => typed_roundtrip(&TEST_NETWORK, name, a),
        _ => typed_roundtrip(&regtest(), name, a),
    }
}

fn canonical_ok(enc: &str, trimmed: &str, bech32_family: bool) -> bool {
    enc == trimmed || (bech32_family && !trimmed.bytes().any(|b| b.is_ascii_lowercase()) && trimmed.to_ascii_lowercase() == enc)
}

fn typed_layer<P: Parameters>(p: &P, pname: &str, s: &str, t: &str) -> Result<bool, String> {
    let mut any = false;
    if let Some(a) = catch(|| Address::decode(p, s)).map_err(|e| format!("Address::decode({pname}) panicked: {e}"))? {
        any = true;
        let enc = catch(|| a.encode(p)).map_err(|e| format!("Address::encode({pname}) panicked: {e}"))?;
        if !canonical_ok(&enc, t, !matches!(a, Address::Transparent(_))) {
            return Err(format!("Address::decode({pname}) accepted the string but it re-encodes to {enc:?}"));
        }
        match catch(|| Address::decode(p, &enc)).map_err(|e| format!("Address::decode({pname}) panicked: {e}"))? {
            Some(b) if b == a => {}
            _ => return Err(format!("Address::decode({pname}): the re-encoded string {enc:?} does not decode to the same value")),
        }
    }
    match catch(|| <TransparentAddress as AddressCodec<P>>::decode(p, s)).map_err(|e| format!("TransparentAddress::decode({pname}) panicked: {e}"))? {
        Ok(a) => {
            any = true;
            let enc = catch(|| AddressCodec::encode(&a, p)).map_err(|e| format!("TransparentAddress::encode panicked: {e}"))?;
            if enc != s {
                return Err(format!("TransparentAddress::decode({pname}) accepted the string but it re-encodes to {enc:?}"));
            }
        }
        Err(_) => {}
    }
    match catch(|| <sapling::PaymentAddress as AddressCodec<P>>::decode(p, s)).map_err(|e| format!("PaymentAddress::decode({pname}) panicked: {e}"))? {
        Ok(a) => {
            any = true;
            let enc = catch(|| AddressCodec::encode(&a, p)).map_err(|e| format!("PaymentAddress::encode panicked: {e}"))?;
            if !canonical_ok(&enc, s, true) {
                return Err(format!("PaymentAddress::decode({pname}) accepted the string but it re-encodes to {enc:?}"));
            }
        }
        Err(_) => {}
    }
    match catch(|| <UnifiedAddress as AddressCodec<P>>::decode(p, s)).map_err(|e| format!("UnifiedAddress::decode({pname}) panicked: {e}"))? {
        Ok(a) => {
            any = true;
            let enc = catch(|| a.encode(p)).map_err(|e| format!("UnifiedAddress::encode panicked: {e}"))?;
            if !canonical_ok(&enc, s, true) {
                return Err(format!("UnifiedAddress::decode({pname}) accepted the string but it re-encodes to {enc:?}"));
            }
        }
        Err(_) => {}
    }
    Ok(any)
}

fn err_class(e: &zcash_address::ParseError) -> &'static str {
    match e {
        zcash_address::ParseError::InvalidEncoding => "invalid-encoding",
        zcash_address::ParseError::NotZcash => "not-zcash",
        zcash_address::ParseError::Unified(_) => "unified",
    }
}

/// Every decoder on one string: no panic; whatever is accepted re-encodes to the canonical form of
/// the input and that form decodes to the same value.
pub fn check_string(s: &str) -> Result<String, String> {
    let t = s.trim();
    let outcome = match catch(|| ZcashAddress::try_from_encoded(s)).map_err(|p| format!("ZcashAddress::try_from_encoded panicked: {p}"))? {
        Err(e) => format!("reject:{}", err_class(&e)),
        Ok(z) => {
            let cap = catch(|| z.clone().convert::<Cap>()).map_err(|p| format!("convert panicked: {p}"))?.map_err(|_| "convert failed".to_string())?;
            let enc = catch(|| z.encode()).map_err(|p| format!("encode panicked: {p}"))?;
            if !canonical_ok(&enc, t, cap.bech32_family()) {
                return Err(format!("accepted as {} {:?}, but re-encodes to {enc:?}, not to the trimmed input", cap.kind, cap.net));
            }
            match catch(|| ZcashAddress::try_from_encoded(&enc)).map_err(|p| format!("parse panicked: {p}"))? {
                Ok(z2) if z2 == z => {}
                _ => return Err(format!("the re-encoded string {enc:?} does not parse back to the same value")),
            }
            format!("accept:{}:{:?}", cap.kind, cap.net)
        }
    };
    let a = typed_layer(&MAIN_NETWORK, "main", s, t)?;
    let b = typed_layer(&TEST_NETWORK, "test", s, t)?;
    let c = typed_layer(&regtest(), "regtest", s, t)?;
    Ok(format!("{outcome}:typed{}{}{}", a as u8, b as u8, c as u8))
}

// ---- mutation enumeration ----------------------------------------------------------------------

fn mutations(seed: &Seed, seed_str: &str, tier: Tier) -> Vec<String> {
    let mut out: Vec<String> = Vec::new();
    let chars: Vec<char> = seed_str.chars().collect();
    let mut alpha: Vec<char> = match (&seed.family, tier) {
        (_, Tier::Thorough) => (0x20u8..0x7f).map(|b| b as char).chain(['é', '\u{a0}', '\n']).collect(),
        (Family::Bech32 { .. }, _) => refenc::BECH32_CHARSET.iter().map(|b| *b as char).chain(['1', 'b', 'i', 'o', 'Q', '-', ' ']).collect(),
        (Family::Base58 { .. }, _) => refenc::BASE58_ALPHABET.iter().map(|b| *b as char).chain(['0', 'O', 'I', 'l', '-', ' ']).collect(),
    };
    alpha.dedup();
    // every single-character substitution
    for pos in 0..chars.len() {
        for &c in &alpha {
            if c != chars[pos] {
                let mut v = chars.clone();
                v[pos] = c;
                out.push(v.into_iter().collect());
            }
        }
    }
    // every truncation (prefixes and suffixes), every single deletion
    for k in 0..chars.len() {
        out.push(chars[..k].iter().collect());
        if k > 0 {
            out.push(chars[k..].iter().collect());
        }
        let mut v = chars.clone();
        v.remove(k);
        out.push(v.into_iter().collect());
    }
    // every single insertion (thorough: full alphabet; quick: one in-alphabet and one out-of-alphabet character)
    let ins: Vec<char> = if tier == Tier::Thorough { alpha.clone() } else { vec!['q', '2', 'b', ' '] };
    for pos in 0..=chars.len() {
        for &c in &ins {
            let mut v = chars.clone();
            v.insert(pos, c);
            out.push(v.into_iter().collect());
        }
    }
    // adjacent transpositions
    for k in 0..chars.len().saturating_sub(1) {
        if chars[k] != chars[k + 1] {
            let mut v = chars.clone();
            v.swap(k, k + 1);
            out.push(v.into_iter().collect());
        }
    }
    // whitespace padding
    let ws = [" ", "\t", "\n", "\r\n", "\u{b}", "\u{c}", "\u{85}", "\u{a0}", "\u{2003}", "\u{3000}", "\u{200b}", "\u{feff}", "  \t "];
    for w in ws {
        out.push(format!("{w}{seed_str}"));
        out.push(format!("{seed_str}{w}"));
        out.push(format!("{w}{seed_str}{w}"));
        let mid = chars.len() / 2;
        out.push(format!("{}{w}{}", chars[..mid].iter().collect::<String>(), chars[mid..].iter().collect::<String>()));
    }
    // case
    out.push(seed_str.to_ascii_uppercase());
    out.push(seed_str.to_ascii_lowercase());
    if let Some(i) = seed_str.find('1') {
        out.push(format!("{}{}", seed_str[..i].to_ascii_uppercase(), &seed_str[i..]));
        out.push(format!("{}{}", &seed_str[..i], seed_str[i..].to_ascii_uppercase()));
    }
    match &seed.family {
        Family::Bech32 { hrp, variant, data } => {
            let other = if *variant == Variant::Bech32 { Variant::Bech32m } else { Variant::Bech32 };
            // wrong checksum variant
            out.push(refenc::bech32_encode(hrp, data, other));
            // every known prefix and two unknown ones, both checksum variants, payload as is / one byte short / one byte long
            for h in SAPLING_HRPS.iter().chain(TEX_HRPS.iter()).chain(UNIFIED_HRPS.iter()).chain(["zz", "t"].iter()) {
                for v in [Variant::Bech32, Variant::Bech32m] {
                    out.push(refenc::bech32_encode(h, data, v));
                    out.push(refenc::bech32_encode(h, &data[..data.len() - 1], v));
                    let mut longer = data.clone();
                    longer.push(0);
                    out.push(refenc::bech32_encode(h, &longer, v));
                }
            }
            out.push(refenc::bech32_encode(hrp, &[], *variant));
            // non-canonical 8-to-5 regrouping: non-zero padding bits, surplus groups (valid checksum)
            let d5 = refenc::to_5bit(data);
            let pad_bits = d5.len() * 5 - data.len() * 8;
            for v in 1..(1u8 << pad_bits) {
                let mut g = d5.clone();
                *g.last_mut().unwrap() |= v;
                out.push(refenc::bech32_encode_groups(hrp, &g, *variant));
            }
            for extra in [&[0u8][..], &[31], &[0, 0], &[1, 0]] {
                let mut g = d5.clone();
                g.extend_from_slice(extra);
                out.push(refenc::bech32_encode_groups(hrp, &g, *variant));
            }
        }
        Family::Base58 { payload } => {
            let body = &payload[2..];
            for prefix in SPROUT_PREFIX.iter().chain(P2PKH_PREFIX.iter()).chain(P2SH_PREFIX.iter()).chain([[0x1c, 0xb9], [0x00, 0x00], [0x16, 0x9b], [0x1d, 0x26]].iter()) {
                for b in [body.to_vec(), body[..body.len() - 1].to_vec(), [body, &[0u8][..]].concat(), vec![]] {
                    out.push(refenc::base58check(&[&prefix[..], &b[..]].concat()));
                }
            }
            // one-byte and three-byte version prefixes, empty payload
            out.push(refenc::base58check(&payload[1..]));
            out.push(refenc::base58check(&[&[0x1c][..], &payload[..]].concat()));
            out.push(refenc::base58check(&[]));
            out.push(refenc::base58check(&payload[..1]));
            // valid Base58 but no / wrong checksum
            out.push(bs58::encode(&payload).into_string());
        }
    }
    out
}

pub fn sweep(run: &Run, tier: Tier) {
    let all = seeds();
    let mut strings: BTreeSet<String> = BTreeSet::new();
    let mut seed_strings = Vec::new();
    for (i, seed) in all.iter().enumerate() {
        match check_seed(i) {
            Ok(o) => run.outcome(&o),
            Err(m) => run.fail("seed", format!("seed:{}", seed.name), m, json!({"seed": i})),
        }
        run.eval(format!("seed{i}").as_bytes());
        for target in 0..3 {
            match check_network(i, target) {
                Ok(o) => run.outcome(&o),
                Err(m) => run.fail("network", format!("network:{}->{}", seed.name, NETNAMES[target]), m, json!({"seed": i, "target": target})),
            }
            run.eval(format!("network{i}:{target}").as_bytes());
        }
        if let Ok(s) = catch(|| seed.z.encode()) {
            // the independent encoders must produce a string the parser reads as the same value
            let own = match &seed.family {
                Family::Bech32 { hrp, variant, data } => refenc::bech32_encode(hrp, data, *variant),
                Family::Base58 { payload } => refenc::base58check(payload),
            };
            strings.insert(own);
            strings.insert(s.clone());
            for m in mutations(seed, &s, tier) {
                strings.insert(m);
            }
            seed_strings.push(s);
        }
    }
    let typed = typed_seeds();
    for (i, (name, _)) in typed.iter().enumerate() {
        for net in 0..3 {
            match check_typed_seed(i, net) {
                Ok(o) => run.outcome(&o),
                Err(m) => run.fail("typed-seed", format!("typed-seed:{name}:{}", NETNAMES[net]), m, json!({"seed": i, "net": net})),
            }
            run.eval(format!("typed{i}:{net}").as_bytes());
        }
    }
    // a few fixed degenerate inputs
    for s in ["", " ", "1", "zs1", "u1", "tex1", "zs", "\u{0}", "🦓", "zs1🦓", "1111111111", "u1qqqqqq"] {
        strings.insert(s.to_string());
    }
    run.section("seeds", json!(all.iter().map(|s| s.name.clone()).collect::<Vec<_>>()));
    run.section("typed_seeds", json!(typed.len() * 3));
    run.section("mutated_strings", json!(strings.len()));
    let list: Vec<&String> = strings.iter().collect();
    list.par_chunks(256).for_each(|chunk| {
        let mut n = 0u64;
        let mut outcomes: BTreeMap<String, u64> = BTreeMap::new();
        for s in chunk {
            n += 1;
            match check_string(s) {
                Ok(o) => *outcomes.entry(format!("string:{o}")).or_insert(0) += 1,
                Err(m) => run.fail("string", format!("string:{}", s.escape_default()), m, json!({"s": s})),
            }
        }
        run.eval_distinct(n);
        for (k, v) in outcomes {
            run.outcome_n(&k, v);
        }
    });
    // every seed string itself must have been accepted by the generic parser
    for s in &seed_strings {
        run.require(matches!(check_string(s), Ok(o) if o.starts_with("accept")) || run.failure_count() > 0, "a seed string was not accepted");
    }
}
