//! Independent reference encoders for C10, written from the specifications only:
//! CompactSize (Bitcoin), F4Jumble (ZIP 316 "Jumbling"), Bech32/Bech32m (BIP 173 / BIP 350, with the
//! ZIP 316 length extension), Base58Check (Bitcoin). None of this calls into /repo.

use blake2b_simd::Params;

/// Canonical CompactSize.
pub fn compact_size(v: u64) -> Vec<u8> {
    if v < 253 {
        vec![v as u8]
    } else if v <= 0xffff {
        let mut o = vec![0xfd];
        o.extend_from_slice(&(v as u16).to_le_bytes());
        o
    } else if v <= 0xffff_ffff {
        let mut o = vec![0xfe];
        o.extend_from_slice(&(v as u32).to_le_bytes());
        o
    } else {
        let mut o = vec![0xff];
        o.extend_from_slice(&v.to_le_bytes());
        o
    }
}

/// CompactSize in a chosen width (1, 3, 5, 9 bytes); `None` when the value does not fit the width.
/// A width larger than the canonical one gives a non-canonical encoding.
pub fn compact_size_width(v: u64, width: usize) -> Option<Vec<u8>> {
    match width {
        1 if v < 253 => Some(vec![v as u8]),
        3 if v <= 0xffff => {
            let mut o = vec![0xfd];
            o.extend_from_slice(&(v as u16).to_le_bytes());
            Some(o)
        }
        5 if v <= 0xffff_ffff => {
            let mut o = vec![0xfe];
            o.extend_from_slice(&(v as u32).to_le_bytes());
            Some(o)
        }
        9 => {
            let mut o = vec![0xff];
            o.extend_from_slice(&v.to_le_bytes());
            Some(o)
        }
        _ => None,
    }
}

pub const F4_MIN: usize = 48;
pub const F4_MAX: usize = 4_194_368;
const L_H: usize = 64;

fn h_i(i: u8, l_l: usize, u: &[u8]) -> Vec<u8> {
    // H_i(u) = BLAKE2b-(8 l_L)("UA_F4Jumble_H" || [i, 0, 0], u)
    let mut pers = [0u8; 16];
    pers[..13].copy_from_slice(b"UA_F4Jumble_H");
    pers[13] = i;
    Params::new().hash_length(l_l).personal(&pers).hash(u).as_bytes().to_vec()
}

fn g_i(i: u8, l_r: usize, u: &[u8]) -> Vec<u8> {
    // G_i(u) = first l_R bytes of the concatenation over j = 0 .. ceil(l_R / l_H) - 1 of
    //          BLAKE2b-512("UA_F4Jumble_G" || [i] || I2LEOSP_16(j), u)
    let blocks = l_r.div_ceil(L_H);
    let mut out = Vec::with_capacity(blocks * L_H);
    for j in 0..blocks {
        let mut pers = [0u8; 16];
        pers[..13].copy_from_slice(b"UA_F4Jumble_G");
        pers[13] = i;
        pers[14..16].copy_from_slice(&(j as u16).to_le_bytes());
        out.extend_from_slice(Params::new().hash_length(L_H).personal(&pers).hash(u).as_bytes());
    }
    out.truncate(l_r);
    out
}

fn xor(a: &[u8], b: &[u8]) -> Vec<u8> {
    assert_eq!(a.len(), b.len());
    a.iter().zip(b).map(|(x, y)| x ^ y).collect()
}

/// F4Jumble per ZIP 316; `None` outside 48..=4194368.
pub fn f4jumble(m: &[u8]) -> Option<Vec<u8>> {
    let l_m = m.len();
    if !(F4_MIN..=F4_MAX).contains(&l_m) {
        return None;
    }
    let l_l = L_H.min(l_m / 2);
    let l_r = l_m - l_l;
    let (a, b) = m.split_at(l_l);
    let x = xor(b, &g_i(0, l_r, a));
    let y = xor(a, &h_i(0, l_l, &x));
    let d = xor(&x, &g_i(1, l_r, &y));
    let c = xor(&y, &h_i(1, l_l, &d));
    let mut out = c;
    out.extend_from_slice(&d);
    Some(out)
}

/// F4Jumble^-1 per ZIP 316.
pub fn f4jumble_inv(m: &[u8]) -> Option<Vec<u8>> {
    let l_m = m.len();
    if !(F4_MIN..=F4_MAX).contains(&l_m) {
        return None;
    }
    let l_l = L_H.min(l_m / 2);
    let l_r = l_m - l_l;
    let (c, d) = m.split_at(l_l);
    let y = xor(c, &h_i(1, l_l, d));
    let x = xor(d, &g_i(1, l_r, &y));
    let a = xor(&y, &h_i(0, l_l, &x));
    let b = xor(&x, &g_i(0, l_r, &a));
    let mut out = a;
    out.extend_from_slice(&b);
    Some(out)
}

#[derive(Clone, Copy, PartialEq, Eq, Debug)]
pub enum Variant {
    Bech32,
    Bech32m,
}

pub const BECH32_CHARSET: &[u8; 32] = b"qpzry9x8gf2tvdw0s3jn54khce6mua7l";

fn polymod(values: impl Iterator<Item = u8>) -> u32 {
    const GEN: [u32; 5] = [0x3b6a57b2, 0x26508e6d, 0x1ea119fa, 0x3d4233dd, 0x2a1462b3];
    let mut chk: u32 = 1;
    for v in values {
        let b = chk >> 25;
        chk = ((chk & 0x1ff_ffff) << 5) ^ (v as u32);
        for (i, g) in GEN.iter().enumerate() {
            if (b >> i) & 1 == 1 {
                chk ^= g;
            }
        }
    }
    chk
}

/// 8-bit to 5-bit regrouping with zero padding (BIP 173 `convertbits(data, 8, 5, pad=True)`).
pub fn to_5bit(data: &[u8]) -> Vec<u8> {
    let mut acc: u32 = 0;
    let mut bits = 0;
    let mut out = Vec::with_capacity(data.len() * 8 / 5 + 1);
    for &b in data {
        acc = (acc << 8) | b as u32;
        bits += 8;
        while bits >= 5 {
            bits -= 5;
            out.push(((acc >> bits) & 31) as u8);
        }
    }
    if bits > 0 {
        out.push(((acc << (5 - bits)) & 31) as u8);
    }
    out
}

/// Bech32 / Bech32m string of (hrp, bytes); no length limit (ZIP 316 lifts the 90-character limit).
pub fn bech32_encode(hrp: &str, data: &[u8], variant: Variant) -> String {
    bech32_encode_groups(hrp, &to_5bit(data), variant)
}

/// Bech32 / Bech32m string whose data part is the given 5-bit groups (checksum appended).
pub fn bech32_encode_groups(hrp: &str, d5: &[u8], variant: Variant) -> String {
    let konst: u32 = match variant {
        Variant::Bech32 => 1,
        Variant::Bech32m => 0x2bc830a3,
    };
    let hb = hrp.as_bytes();
    let expanded = hb.iter().map(|c| c >> 5).chain(std::iter::once(0)).chain(hb.iter().map(|c| c & 31));
    let pm = polymod(expanded.chain(d5.iter().copied()).chain([0u8; 6])) ^ konst;
    let mut s = String::with_capacity(hrp.len() + 1 + d5.len() + 6);
    s.push_str(hrp);
    s.push('1');
    for v in d5 {
        s.push(BECH32_CHARSET[*v as usize] as char);
    }
    for i in 0..6 {
        s.push(BECH32_CHARSET[((pm >> (5 * (5 - i))) & 31) as usize] as char);
    }
    s
}

pub const BASE58_ALPHABET: &[u8; 58] = b"123456789ABCDEFGHJKLMNPQRSTUVWXYZabcdefghijkmnopqrstuvwxyz";

/// Base58Check(payload) = base58(payload || SHA256(SHA256(payload))[..4]).
pub fn base58check(payload: &[u8]) -> String {
    use sha2::{Digest, Sha256};
    let mut full = payload.to_vec();
    let chk = Sha256::digest(Sha256::digest(payload));
    full.extend_from_slice(&chk[..4]);
    let zeros = full.iter().take_while(|b| **b == 0).count();
    // big-endian base conversion
    let mut digits: Vec<u8> = Vec::new(); // little-endian base-58 digits
    for &byte in &full {
        let mut carry = byte as u32;
        for d in digits.iter_mut() {
            carry += (*d as u32) << 8;
            *d = (carry % 58) as u8;
            carry /= 58;
        }
        while carry > 0 {
            digits.push((carry % 58) as u8);
            carry /= 58;
        }
    }
    let mut s = String::new();
    for _ in 0..zeros {
        s.push('1');
    }
    for d in digits.iter().rev() {
        s.push(BASE58_ALPHABET[*d as usize] as char);
    }
    s
}
