//! C12 — ZIP 321 payment requests round-trip and only valid requests parse.
//!
//! Sweeps (all on the real `zip321` / `zcash_protocol::memo` code):
//!  A. URIs as token sequences: lead address in {none, Sapling, transparent, unified} x every sequence
//!     (with repetition, every order) of length <= 3 (quick) / <= 4 (thorough) over a 35-token alphabet
//!     of `name[.index]=value` parameters; rendered to a string here; compared with an independent
//!     validity predicate + expected request written from ZIP 321.
//!  B. Amounts: every fractional part x boundary coin values and every coin value x boundary
//!     fractions (thorough; a by-structure subset in quick), both directions, against integer arithmetic;
//!     plus a list of malformed / boundary amount strings.
//!  C. Labels, messages, other-parameter values: every ASCII character in five contexts and all pairs
//!     of a UTF-8 / percent-literal lattice, through to_uri -> from_uri.
//!  D. Memos: length x lead byte x tail pattern lattice through MemoBytes, Memo and the URI.
//!  E. `Payment::new` on recipient kind x network x amount x memo, and requests at index sets.

use mc_core::{catch, Args, Run, Tier};
use rayon::prelude::*;
use serde_json::{json, Value};
use std::collections::{BTreeMap, BTreeSet};
use std::sync::OnceLock;
use zcash_address::unified::{self, Encoding};
use zcash_address::{ToAddress, ZcashAddress};
use zcash_protocol::consensus::NetworkType;
use zcash_protocol::memo::{Memo, MemoBytes};
use zcash_protocol::value::Zatoshis;
use zip321::{Payment, PaymentError, TransactionRequest};

const COIN: u64 = 100_000_000;
const MAX_MONEY: u64 = 21_000_000 * COIN;

// ---------------------------------------------------------------------------------------------
// Recipient fixtures (values only; what they can receive is stated here from the protocol, not asked
// of the code under test)
// ---------------------------------------------------------------------------------------------

/// Recipient kinds; a unified address is described by the typecodes of its receivers.
#[derive(Clone, Copy, Debug, PartialEq, Eq)]
pub enum Kind {
    Sprout,
    Sapling,
    P2pkh,
    P2sh,
    Tex,
    Unified(&'static [u32]),
}

/// ZIP 321 / ZIP 316, stated here independently of the code: a memo can only be delivered to a shielded
/// recipient, i.e. a Sprout or Sapling address or a unified address holding a Sapling (2) or Orchard (3) receiver.
fn memo_ok(k: Kind) -> bool {
    match k {
        Kind::Sprout | Kind::Sapling => true,
        Kind::P2pkh | Kind::P2sh | Kind::Tex => false,
        Kind::Unified(tcs) => tcs.iter().any(|t| *t == 2 || *t == 3),
    }
}

/// A payment produces a transparent output when the recipient is P2PKH, P2SH or TEX, or a unified address with a
/// transparent receiver (0 / 1) and no Sapling / Orchard receiver (documented at `is_transparent_only`).
fn t_only(k: Kind) -> bool {
    match k {
        Kind::Sprout | Kind::Sapling => false,
        Kind::P2pkh | Kind::P2sh | Kind::Tex => true,
        Kind::Unified(tcs) => tcs.iter().any(|t| *t <= 1) && !tcs.iter().any(|t| *t == 2 || *t == 3),
    }
}

#[derive(Clone, Debug)]
pub struct Addr {
    pub name: String,
    pub kind: Kind,
    pub z: ZcashAddress,
    pub s: String,
    pub memo_ok: bool,
    pub t_only: bool,
}

fn fill<const N: usize>(salt: u8) -> [u8; N] {
    let mut a = [0u8; N];
    for (i, b) in a.iter_mut().enumerate() {
        *b = (i as u8).wrapping_mul(29).wrapping_add(salt) | 1;
    }
    a
}

const NETS: [(NetworkType, &str); 3] = [(NetworkType::Main, "main"), (NetworkType::Test, "test"), (NetworkType::Regtest, "regtest")];
/// One recipient for every kind and every combination of the two predicates that a unified address can show.
/// per network: 0 sapling, 1 sapling2, 2 p2pkh, 3 p2sh, 4 tex, 5 ua(p2pkh+sapling), 6 ua(orchard), 7 sprout,
/// 8 ua(sapling), 9 ua(unknown only), 10 ua(p2pkh+unknown), 11 ua(p2sh+orchard+unknown)
const KINDS: [(&str, Kind, u8); 12] = [
    ("sapling", Kind::Sapling, 1),
    ("sapling2", Kind::Sapling, 2),
    ("p2pkh", Kind::P2pkh, 3),
    ("p2sh", Kind::P2sh, 4),
    ("tex", Kind::Tex, 5),
    ("ua-p2pkh-sapling", Kind::Unified(&[0, 2]), 6),
    ("ua-orchard", Kind::Unified(&[3]), 8),
    ("sprout", Kind::Sprout, 9),
    ("ua-sapling", Kind::Unified(&[2]), 10),
    ("ua-unknown-only", Kind::Unified(&[0x99]), 11),
    ("ua-p2pkh-unknown", Kind::Unified(&[0, 0x99]), 12),
    ("ua-p2sh-orchard-unknown", Kind::Unified(&[1, 3, 0xffff]), 13),
];
const PER_NET: usize = KINDS.len();

pub fn addrs() -> &'static Vec<Addr> {
    static A: OnceLock<Vec<Addr>> = OnceLock::new();
    A.get_or_init(|| {
        let mut v = Vec::new();
        for (net, nn) in NETS {
            for (name, kind, salt) in KINDS {
                let z = match kind {
                    Kind::Sprout => ZcashAddress::from_sprout(net, fill(salt)),
                    Kind::Sapling => ZcashAddress::from_sapling(net, fill(salt)),
                    Kind::P2pkh => ZcashAddress::from_transparent_p2pkh(net, fill(salt)),
                    Kind::P2sh => ZcashAddress::from_transparent_p2sh(net, fill(salt)),
                    Kind::Tex => ZcashAddress::from_tex(net, fill(salt)),
                    Kind::Unified(tcs) => {
                        let items = tcs
                            .iter()
                            .map(|t| match *t {
                                0 => unified::Receiver::P2pkh(fill(salt + 1)),
                                1 => unified::Receiver::P2sh(fill(salt + 2)),
                                2 => unified::Receiver::Sapling(fill(salt + 3)),
                                3 => unified::Receiver::Orchard(fill(salt + 4)),
                                t => unified::Receiver::Unknown { typecode: t, data: fill::<40>(salt + 5).to_vec() },
                            })
                            .collect();
                        ZcashAddress::from_unified(net, unified::Address::try_from_items(items).expect("well-formed"))
                    }
                };
                let s = z.encode();
                v.push(Addr { name: format!("{name}-{nn}"), kind, z, s, memo_ok: memo_ok(kind), t_only: t_only(kind) });
            }
        }
        v
    })
}
fn addr(net: usize, k: usize) -> &'static Addr {
    &addrs()[net * PER_NET + k]
}
/// lead-address code: 0 = no lead address, k + 1 = `addrs()[k]`
fn lead_addr(code: usize) -> Result<Option<&'static Addr>, String> {
    if code == 0 {
        Ok(None)
    } else {
        addrs().get(code - 1).map(Some).ok_or_else(|| "no such lead address".to_string())
    }
}
fn lead_code(net: usize, k: usize) -> usize {
    net * PER_NET + k + 1
}

// ---------------------------------------------------------------------------------------------
// Expected / observed request
// ---------------------------------------------------------------------------------------------

#[derive(Clone, Debug, PartialEq, Eq, Default)]
pub struct ExpPayment {
    addr: String,
    amount: Option<u64>,
    memo: Option<Vec<u8>>, // 512 bytes
    label: Option<String>,
    message: Option<String>,
    others: Vec<(String, String)>,
}
pub type ExpReq = BTreeMap<usize, ExpPayment>;

fn observe(r: &TransactionRequest) -> ExpReq {
    r.payments()
        .iter()
        .map(|(i, p)| {
            (
                *i,
                ExpPayment {
                    addr: p.recipient_address().encode(),
                    amount: p.amount().map(u64::from),
                    memo: p.memo().map(|m| m.as_array().to_vec()),
                    label: p.label().cloned(),
                    message: p.message().cloned(),
                    others: p.other_params().to_vec(),
                },
            )
        })
        .collect()
}

fn pad512(b: &[u8]) -> Vec<u8> {
    let mut v = b.to_vec();
    v.resize(512, 0);
    v
}

/// base64url without padding (RFC 4648 section 5), written here.
fn b64url(data: &[u8]) -> String {
    const T: &[u8; 64] = b"ABCDEFGHIJKLMNOPQRSTUVWXYZabcdefghijklmnopqrstuvwxyz0123456789-_";
    let mut s = String::new();
    for c in data.chunks(3) {
        let n = (c[0] as u32) << 16 | (*c.get(1).unwrap_or(&0) as u32) << 8 | *c.get(2).unwrap_or(&0) as u32;
        s.push(T[(n >> 18) as usize & 63] as char);
        s.push(T[(n >> 12) as usize & 63] as char);
        if c.len() > 1 {
            s.push(T[(n >> 6) as usize & 63] as char);
        }
        if c.len() > 2 {
            s.push(T[n as usize & 63] as char);
        }
    }
    s
}

/// Common clauses for anything the parser accepted: it re-renders to a URI that parses to the same
/// request, and `total()` is the exact sum.
fn accepted_clauses(r: &TransactionRequest) -> Result<(), String> {
    let uri2 = catch(|| r.to_uri()).map_err(|p| format!("to_uri panicked: {p}"))?;
    match catch(|| TransactionRequest::from_uri(&uri2)).map_err(|p| format!("from_uri panicked on the re-rendered URI: {p}"))? {
        Ok(r2) if &r2 == r => {}
        Ok(_) => return Err(format!("from_uri(to_uri(r)) != r; re-rendered URI {uri2:?}")),
        Err(e) => return Err(format!("the re-rendered URI {uri2:?} does not parse: {e:?}")),
    }
    let obs = observe(r);
    let exact: Option<u128> = obs.values().map(|p| p.amount.map(|a| a as u128)).sum();
    let present: u128 = obs.values().filter_map(|p| p.amount.map(|a| a as u128)).sum();
    let got = catch(|| r.total()).map_err(|p| format!("total panicked: {p}"))?;
    match (exact, got) {
        (None, Ok(None)) => {}
        // documented twice: "Ok(None) if any payment does not specify an amount" and "Err if any summation step
        // leaves the range"; when both hold either answer is within the documentation
        (None, Err(_)) if present > MAX_MONEY as u128 => {}
        (Some(s), Ok(Some(t))) if s <= MAX_MONEY as u128 && u64::from(t) as u128 == s => {}
        (Some(s), Err(_)) if s > MAX_MONEY as u128 => {}
        (e, g) => return Err(format!("total() = {g:?} but the exact sum is {e:?}")),
    }
    // whatever the parser (or a constructor) let through must be a payment the validating constructor builds
    for (i, p) in r.payments() {
        let rebuilt = catch(|| Payment::new(p.recipient_address().clone(), p.amount(), p.memo().cloned(), p.label().cloned(), p.message().cloned(), p.other_params().to_vec()))
            .map_err(|e| format!("Payment::new panicked: {e}"))?;
        match rebuilt {
            Ok(q) if &q == p => {}
            Ok(_) => return Err(format!("payment {i}: Payment::new on its own parts gives a different payment")),
            Err(e) => return Err(format!("payment {i} to {} was accepted, but Payment::new refuses exactly these parts: {e:?}", p.recipient_address().encode())),
        }
        let mut names: BTreeSet<&str> = BTreeSet::new();
        if !p.other_params().iter().all(|(n, _)| names.insert(n.as_str())) {
            return Err(format!("payment {i} holds a repeated parameter name: {:?}", p.other_params()));
        }
    }
    for (i, p) in &obs {
        if *i > 9999 {
            return Err(format!("payment index {i} above 9999"));
        }
        if p.amount.is_some_and(|a| a > MAX_MONEY) {
            return Err("amount above MAX_MONEY".into());
        }
    }
    Ok(())
}

// ---------------------------------------------------------------------------------------------
// A. token sequences
// ---------------------------------------------------------------------------------------------

#[derive(Clone, Debug)]
enum Sem {
    Addr(&'static Addr),
    BadAddr,
    Amount(u64),
    BadAmount,
    Memo(Vec<u8>),
    BadMemo,
    Label(String),
    Message(String),
    Other(String, String),
    Req,
}

#[derive(Clone, Debug)]
pub struct Tok {
    text: String,
    /// `None`: the index is malformed (".0", ".01", ".10000")
    idx: Option<usize>,
    sem: Sem,
    /// member of the alphabet of the main sweep
    main: bool,
}

fn idx_of(suffix: &str) -> Option<usize> {
    match suffix {
        "" => Some(0),
        ".1" => Some(1),
        ".2" => Some(2),
        ".9999" => Some(9999),
        _ => None, // ".0", ".01", ".10000"
    }
}

/// Lead addresses of the main sweep (testnet): none, and one recipient for each value of the predicate pair
/// (memo allowed, transparent output) in plain and unified form.
fn main_leads() -> Vec<usize> {
    vec![0, lead_code(1, 0), lead_code(1, 2), lead_code(1, 5), lead_code(1, 9), lead_code(1, 10)]
}

pub fn tokens() -> &'static Vec<Tok> {
    static T: OnceLock<Vec<Tok>> = OnceLock::new();
    T.get_or_init(|| {
        let sap2 = addr(1, 1);
        let taddr = addr(1, 2);
        let tex = addr(1, 4);
        let ua_unknown = addr(1, 9);
        let mut bad = sap2.s.clone();
        let last = bad.pop().unwrap();
        bad.push(if last == 'q' { 'p' } else { 'q' });
        let mut memo512 = vec![0xf5u8; 512];
        memo512[511] = 7;
        let memo513 = vec![0x41u8; 513];
        let mut v = Vec::new();
        let mut t = |main: bool, name: &str, ix: &str, value: String, sem: Sem| {
            v.push(Tok { text: format!("{name}{ix}={value}"), idx: idx_of(ix), sem, main });
        };
        t(true, "address", "", sap2.s.clone(), Sem::Addr(sap2));
        t(true, "address", ".1", sap2.s.clone(), Sem::Addr(sap2));
        t(true, "address", ".1", taddr.s.clone(), Sem::Addr(taddr));
        t(true, "address", ".1", ua_unknown.s.clone(), Sem::Addr(ua_unknown));
        t(true, "address", ".2", tex.s.clone(), Sem::Addr(tex));
        t(true, "address", ".9999", taddr.s.clone(), Sem::Addr(taddr));
        t(true, "address", ".10000", sap2.s.clone(), Sem::Addr(sap2));
        t(true, "address", ".01", sap2.s.clone(), Sem::Addr(sap2));
        t(true, "address", ".0", sap2.s.clone(), Sem::Addr(sap2));
        t(true, "address", ".1", bad, Sem::BadAddr);
        t(true, "amount", "", "1".into(), Sem::Amount(COIN));
        t(true, "amount", "", "0".into(), Sem::Amount(0));
        t(true, "amount", ".1", "0".into(), Sem::Amount(0));
        t(true, "amount", ".1", "21000000".into(), Sem::Amount(MAX_MONEY));
        t(true, "amount", ".1", "21000000.00000001".into(), Sem::BadAmount);
        t(true, "amount", ".2", "0.00000001".into(), Sem::Amount(1));
        t(true, "amount", "", "1.123456789".into(), Sem::BadAmount);
        t(true, "amount", ".1", "1.".into(), Sem::BadAmount);
        t(true, "amount", ".9999", "0.1".into(), Sem::Amount(COIN / 10));
        t(true, "amount", ".01", "1".into(), Sem::Amount(COIN));
        t(true, "memo", "", b64url(b"hi"), Sem::Memo(pad512(b"hi")));
        t(true, "memo", ".1", b64url(&memo512), Sem::Memo(memo512.clone()));
        t(true, "memo", ".2", b64url(&memo513), Sem::BadMemo);
        t(true, "memo", ".1", "!!!!".into(), Sem::BadMemo);
        t(true, "label", "", "abc".into(), Sem::Label("abc".into()));
        t(true, "label", ".1", "a%20b".into(), Sem::Label("a b".into()));
        t(true, "label", ".1", "".into(), Sem::Label("".into()));
        t(true, "message", "", "x".into(), Sem::Message("x".into()));
        t(true, "message", ".1", "%E2%82%AC".into(), Sem::Message("€".into()));
        t(true, "message", ".10000", "x".into(), Sem::Message("x".into()));
        // unknown parameters: two names, each available twice with different values, at two indices (the duplicate
        // scan must find a repeat wherever it stands among the unknown names already seen)
        for ix in ["", ".1"] {
            for (n, val) in [("foo", "a"), ("foo", "b"), ("bar", "x"), ("bar", "y")] {
                t(true, n, ix, val.into(), Sem::Other(n.into(), val.into()));
            }
        }
        t(true, "req-x", "", "1".into(), Sem::Req);
        t(true, "req-x", ".1", "1".into(), Sem::Req);
        // tokens used by the dedicated sweeps only
        t(false, "baz", "", "1".into(), Sem::Other("baz".into(), "1".into()));
        t(false, "baz", "", "2".into(), Sem::Other("baz".into(), "2".into()));
        t(false, "amount", "", "0.00000001".into(), Sem::Amount(1));
        t(false, "amount", ".1", "0.00000001".into(), Sem::Amount(1));
        for a in addrs() {
            for ix in ["", ".1"] {
                t(false, "address", ix, a.s.clone(), Sem::Addr(a));
            }
        }
        v
    })
}

/// Index of the first token with exactly this text.
fn tok(text: &str) -> usize {
    tokens().iter().position(|t| t.text == text).unwrap_or_else(|| mc_core::machinery_error(&format!("C12: no token {text}")))
}

#[derive(Debug)]
enum Exp {
    Accept(ExpReq),
    Reject(&'static str),
    Either(&'static str),
}

/// ZIP 321 validity and meaning of (lead address, parameter list), written from the ZIP.
fn reference(lead: Option<&'static Addr>, toks: &[&Tok]) -> Exp {
    if toks.iter().any(|t| t.idx.is_none()) {
        return Exp::Reject("param-index"); // paramindex = "." NONZERO 0*3DIGIT
    }
    for t in toks {
        match t.sem {
            Sem::BadAddr => return Exp::Reject("address-value"),
            Sem::BadAmount => return Exp::Reject("amount-value"),
            Sem::BadMemo => return Exp::Reject("memo-value"),
            Sem::Req => return Exp::Reject("unknown-required-parameter"),
            _ => {}
        }
    }
    // group by index; at most one occurrence of each (name, index)
    let mut addrs: BTreeMap<usize, &'static Addr> = BTreeMap::new();
    if let Some(a) = lead {
        addrs.insert(0, a);
    }
    let mut seen: BTreeSet<(usize, String)> = BTreeSet::new();
    if lead.is_some() {
        seen.insert((0, "address".into()));
    }
    for t in toks {
        let i = t.idx.unwrap();
        let name = match &t.sem {
            Sem::Addr(_) => "address".to_string(),
            Sem::Amount(_) => "amount".into(),
            Sem::Memo(_) => "memo".into(),
            Sem::Label(_) => "label".into(),
            Sem::Message(_) => "message".into(),
            Sem::Other(n, _) => n.clone(),
            _ => unreachable!(),
        };
        if !seen.insert((i, name)) {
            return Exp::Reject("duplicate-parameter");
        }
        if let Sem::Addr(a) = &t.sem {
            addrs.insert(i, a);
        }
    }
    let mut req: ExpReq = BTreeMap::new();
    for (i, a) in &addrs {
        req.insert(*i, ExpPayment { addr: a.s.clone(), ..Default::default() });
    }
    for t in toks {
        let i = t.idx.unwrap();
        let a = match addrs.get(&i) {
            Some(a) => a,
            None => return Exp::Reject("recipient-missing"),
        };
        let p = req.get_mut(&i).unwrap();
        match &t.sem {
            Sem::Amount(z) => {
                if *z == 0 && a.t_only {
                    return Exp::Reject("zero-valued-transparent-output");
                }
                p.amount = Some(*z);
            }
            Sem::Memo(m) => {
                if !a.memo_ok {
                    return Exp::Reject("memo-to-recipient-without-memo-capability");
                }
                p.memo = Some(m.clone());
            }
            Sem::Label(s) => p.label = Some(s.clone()),
            Sem::Message(s) => p.message = Some(s.clone()),
            Sem::Other(n, v) => p.others.push((n.clone(), v.clone())),
            _ => {}
        }
    }
    if req.is_empty() {
        return Exp::Either("no-payment"); // "zcash:" alone: the ABNF asks for an address or parameters; the crate documents it as the empty request
    }
    Exp::Accept(req)
}

fn render_uri(lead: Option<&Addr>, toks: &[&Tok]) -> String {
    let mut s = String::from("zcash:");
    if let Some(a) = lead {
        s.push_str(&a.s);
    }
    for (i, t) in toks.iter().enumerate() {
        s.push(if i == 0 { '?' } else { '&' });
        s.push_str(&t.text);
    }
    s
}

pub fn check_uri(lead_i: usize, tok_is: &[usize]) -> Result<String, String> {
    let lead = lead_addr(lead_i)?;
    let all = tokens();
    let toks: Vec<&Tok> = tok_is.iter().map(|i| all.get(*i).ok_or("token")).collect::<Result<_, _>>()?;
    let uri = render_uri(lead, &toks);
    let exp = reference(lead, &toks);
    let got = catch(|| TransactionRequest::from_uri(&uri)).map_err(|p| format!("from_uri panicked on {uri:?}: {p}"))?;
    match (got, exp) {
        (Ok(_), Exp::Reject(why)) => Err(format!("accepted a URI that ZIP 321 forbids ({why}): {uri}")),
        (Err(e), Exp::Accept(_)) => Err(format!("refused a valid URI with {e:?}: {uri}")),
        (Err(_), Exp::Reject(why)) => Ok(format!("reject:{why}")),
        (Err(_), Exp::Either(why)) => Ok(format!("either-rejected:{why}")),
        (Ok(r), Exp::Either(why)) => {
            accepted_clauses(&r)?;
            Ok(format!("either-accepted:{why}"))
        }
        (Ok(r), Exp::Accept(want)) => {
            let obs = observe(&r);
            if obs != want {
                return Err(format!("parsed request differs from the ZIP 321 meaning of {uri}: got {obs:?}, expected {want:?}"));
            }
            accepted_clauses(&r)?;
            Ok(format!("accept:{}payments", want.len()))
        }
    }
}

fn sweep_uris(run: &Run, tier: Tier) {
    let maxlen = tier.pick(3, 4);
    let show = |i: usize| {
        let t = &tokens()[i].text;
        if t.len() > 60 { format!("{}…", &t[..60]) } else { t.clone() }
    };
    let main: Vec<usize> = (0..tokens().len()).filter(|i| tokens()[*i].main).collect();
    let leads = main_leads();
    run.section("token_alphabet", json!(main.iter().map(|i| show(*i)).collect::<Vec<_>>()));
    run.section("lead_addresses", json!(leads.iter().map(|c| lead_addr(*c).ok().flatten().map(|a| a.name.clone()).unwrap_or("none".into())).collect::<Vec<_>>()));
    // one pass per length, shortest first, so that the recorded counterexamples are the shortest ones
    for len in 0..=maxlen {
        sweep_uri_level(run, &leads, &[], &main, len, None, None);
    }
    if tier == Tier::Thorough {
        // one level deeper over the tokens that are well-formed on their own (a malformed token makes the URI invalid
        // wherever it stands, so it adds no interplay), four of the lead choices
        let sub: Vec<usize> = main.iter().copied().filter(|i| tokens()[*i].idx.is_some() && !matches!(tokens()[*i].sem, Sem::BadAddr | Sem::BadAmount | Sem::BadMemo)).collect();
        run.section("token_sub_alphabet_deeper", json!({"length": 5, "tokens": sub.len(), "leads": 4}));
        sweep_uri_level(run, &[0, lead_code(1, 0), lead_code(1, 2), lead_code(1, 9)], &[], &sub, 5, None, None);
    }
    // Duplicate scan: every sequence over three unknown names (each twice) and the four known optional
    // parameters, deeper than the main sweep, at index none and at index .1
    let sap = lead_code(1, 0);
    let d0: Vec<usize> = ["foo=a", "foo=b", "bar=x", "bar=y", "baz=1", "baz=2", "amount=1", "label=abc", "message=x"].iter().map(|t| tok(t)).chain([tok(&format!("memo={}", b64url(b"hi")))]).collect();
    for len in 0..=tier.pick(5, 6) {
        sweep_uri_level(run, &[sap], &[], &d0, len, Some(maxlen), None);
    }
    let d1: Vec<usize> = ["foo.1=a", "foo.1=b", "bar.1=x", "bar.1=y", "amount.1=21000000", "label.1=a%20b", "message.1=%E2%82%AC"].iter().map(|t| tok(t)).collect();
    let a1 = tok(&format!("address.1={}", addr(1, 1).s));
    for len in 0..=tier.pick(5, 6) {
        sweep_uri_level(run, &[sap, 0], &[a1], &d1, len, Some(maxlen), None);
    }
    // Recipient sweep: every recipient kind on every network, as lead address, as `address=` and as `address.1=`,
    // with every sequence of the parameters whose validity depends on the recipient
    let s0: Vec<usize> = vec![tok("amount=0"), tok("amount=0.00000001"), tok(&format!("memo={}", b64url(b"hi"))), tok("label=abc")];
    let mut memo512 = vec![0xf5u8; 512];
    memo512[511] = 7;
    let s1: Vec<usize> = vec![tok("amount.1=0"), tok("amount.1=0.00000001"), tok(&format!("memo.1={}", b64url(&memo512))), tok("label.1=a%20b")];
    run.section("recipients", json!(addrs().iter().map(|a| json!({"name": a.name, "kind": format!("{:?}", a.kind), "memo_allowed": a.memo_ok, "transparent_output": a.t_only})).collect::<Vec<_>>()));
    let mut seen_strings: BTreeSet<&str> = BTreeSet::new();
    for (k, a) in addrs().iter().enumerate() {
        if !seen_strings.insert(a.s.as_str()) {
            continue; // regtest shares the testnet string for Base58 kinds
        }
        for len in 0..=3 {
            sweep_uri_level(run, &[k + 1], &[], &s0, len, Some(maxlen), None);
        }
        let t0 = tok(&format!("address={}", a.s));
        let t1 = tok(&format!("address.1={}", a.s));
        let mut with0 = s0.clone();
        with0.push(t0);
        let mut with1 = s1.clone();
        with1.push(t1);
        for len in 1..=4 {
            sweep_uri_level(run, &[0], &[], &with0, len, Some(maxlen), Some(t0));
            sweep_uri_level(run, &[sap], &[], &with1, len, Some(maxlen), Some(t1));
        }
    }
}

/// All sequences `prefix ++ s`, s of length `len` over `alphabet`, for every lead in `leads`. With
/// `skip_main = Some(m)`, cases that the main sweep already contains (main lead, main tokens, length <= m) are skipped.
fn sweep_uri_level(run: &Run, leads: &[usize], prefix: &[usize], alphabet: &[usize], len: usize, skip_main: Option<usize>, must_contain: Option<usize>) {
    let nt = alphabet.len() as u64;
    let per_lead = nt.pow(len as u32);
    let total = per_lead * leads.len() as u64;
    let mains = main_leads();
    const CH: u64 = 2048;
    (0..total.div_ceil(CH)).into_par_iter().for_each(|c| {
        let mut n = 0u64;
        let mut outcomes: BTreeMap<String, u64> = BTreeMap::new();
        let mut seq = vec![0usize; prefix.len() + len];
        seq[..prefix.len()].copy_from_slice(prefix);
        for code in c * CH..((c + 1) * CH).min(total) {
            let lead = leads[(code / per_lead) as usize];
            let mut rest = code % per_lead;
            for slot in seq[prefix.len()..].iter_mut().rev() {
                *slot = alphabet[(rest % nt) as usize];
                rest /= nt;
            }
            if must_contain.is_some_and(|t| !seq.contains(&t)) {
                continue;
            }
            if let Some(m) = skip_main {
                if seq.len() <= m && mains.contains(&lead) && seq.iter().all(|i| tokens()[*i].main) {
                    continue;
                }
            }
            n += 1;
            match check_uri(lead, &seq) {
                Ok(o) => *outcomes.entry(format!("uri:{o}")).or_insert(0) += 1,
                Err(m) => run.fail("uri", format!("uri:lead{lead}:{seq:?}"), m, json!({"lead": lead, "toks": seq})),
            }
        }
        run.eval_distinct(n);
        for (k, v) in outcomes {
            run.outcome_n(&k, v);
        }
    });
}

// ---------------------------------------------------------------------------------------------
// B. amounts
// ---------------------------------------------------------------------------------------------

#[derive(Debug, PartialEq, Eq, Clone, Copy)]
enum AmountRef {
    Valid(u64),
    /// well-formed digits with superfluous leading zeros: ZIP 321's ABNF admits them; not demanded
    LeadingZeros(u64),
    Invalid,
}

/// amountparam value = 1*DIGIT [ "." 1*8DIGIT ], value in zatoshis <= MAX_MONEY. Integer arithmetic.
fn ref_parse_amount(s: &str) -> AmountRef {
    let (whole, frac) = match s.split_once('.') {
        Some((w, f)) => (w, Some(f)),
        None => (s, None),
    };
    let digits = |x: &str| !x.is_empty() && x.bytes().all(|b| b.is_ascii_digit());
    if !digits(whole) || frac.is_some_and(|f| !digits(f) || f.len() > 8) {
        return AmountRef::Invalid;
    }
    let mut w: u128 = 0;
    for b in whole.bytes() {
        w = w * 10 + (b - b'0') as u128;
        if w > 21_000_000 {
            return AmountRef::Invalid;
        }
    }
    let mut f: u128 = 0;
    let fs = frac.unwrap_or("");
    for b in fs.bytes() {
        f = f * 10 + (b - b'0') as u128;
    }
    for _ in fs.len()..8 {
        f *= 10;
    }
    let z = w * COIN as u128 + f;
    if z > MAX_MONEY as u128 {
        return AmountRef::Invalid;
    }
    if whole.len() > 1 && whole.starts_with('0') {
        AmountRef::LeadingZeros(z as u64)
    } else {
        AmountRef::Valid(z as u64)
    }
}

fn amount_prefix() -> &'static str {
    static P: OnceLock<String> = OnceLock::new();
    P.get_or_init(|| format!("zcash:{}?amount=", addr(0, 0).s))
}

/// decimal string -> zatoshis through `from_uri`.
pub fn check_amount_str(s: &str) -> Result<&'static str, String> {
    let uri = format!("{}{}", amount_prefix(), s);
    let want = ref_parse_amount(s);
    let got = catch(|| TransactionRequest::from_uri(&uri)).map_err(|p| format!("from_uri panicked on amount {s:?}: {p}"))?;
    let got_amount = match &got {
        Ok(r) => match r.payments().get(&0) {
            Some(p) if r.payments().len() == 1 => Some(p.amount().map(u64::from)),
            _ => return Err(format!("amount {s:?}: unexpected request shape")),
        },
        Err(_) => None,
    };
    match (want, got_amount) {
        (AmountRef::Valid(z), Some(Some(g))) | (AmountRef::LeadingZeros(z), Some(Some(g))) if g == z => Ok("amount-accepted"),
        (AmountRef::Valid(z), g) => Err(format!("amount {s:?} is {z} zatoshis; parser gave {g:?}")),
        (AmountRef::LeadingZeros(z), Some(g)) => Err(format!("amount {s:?} accepted as {g:?}, exact value {z}")),
        (AmountRef::LeadingZeros(_), None) => Ok("amount-leading-zeros-refused"),
        (AmountRef::Invalid, None) => Ok("amount-refused"),
        (AmountRef::Invalid, Some(g)) => Err(format!("amount {s:?} is not a valid ZIP 321 amount but was accepted as {g:?}")),
    }
}

/// zatoshis -> decimal string through `to_uri`, back through `from_uri`, and the own renderings of the
/// same value through `from_uri`.
pub fn check_amount(z: u64) -> Result<(), String> {
    let coins = z / COIN;
    let f = z % COIN;
    if z > MAX_MONEY {
        // not a value; only the decimal strings naming it must be refused
        check_amount_str(&format!("{coins}.{f:08}"))?;
        return Ok(());
    }
    let zat = Zatoshis::from_u64(z).map_err(|_| format!("Zatoshis::from_u64({z}) refused"))?;
    let r = TransactionRequest::from_indexed(BTreeMap::from([(0usize, Payment::without_memo(addr(0, 0).z.clone(), zat))])).map_err(|e| format!("from_indexed: {e:?}"))?;
    let uri = catch(|| r.to_uri()).map_err(|p| format!("to_uri panicked for {z}: {p}"))?;
    let astr = uri.strip_prefix(amount_prefix()).ok_or_else(|| format!("unexpected rendering {uri:?}"))?;
    match ref_parse_amount(astr) {
        AmountRef::Valid(v) if v == z => {}
        other => return Err(format!("{z} zatoshis rendered as {astr:?}, which denotes {other:?}")),
    }
    match catch(|| TransactionRequest::from_uri(&uri)).map_err(|p| format!("from_uri panicked for {uri:?}: {p}"))? {
        Ok(r2) if r2 == r => {}
        other => return Err(format!("{z} zatoshis rendered as {astr:?} parses back to {:?}", other.map(|r| observe(&r)))),
    }
    // own renderings: full eight decimals; shortest; ".0" for whole coins
    let full = format!("{coins}.{f:08}");
    if full != astr {
        check_amount_str(&full).map_err(|m| format!("{z}: {m}"))?;
    }
    let shortest = if f == 0 { format!("{coins}") } else { full.trim_end_matches('0').to_string() };
    if shortest != astr {
        check_amount_str(&shortest).map_err(|m| format!("{z}: {m}"))?;
    }
    if f == 0 {
        check_amount_str(&format!("{coins}.0")).map_err(|m| format!("{z}: {m}"))?;
    }
    Ok(())
}

/// All numbers below 10^8 with at most `k` non-zero decimal digits.
fn sparse_digits(k: usize) -> Vec<u64> {
    fn rec(pos: usize, left: usize, cur: u64, out: &mut Vec<u64>) {
        if pos == 8 {
            out.push(cur);
            return;
        }
        rec(pos + 1, left, cur * 10, out);
        if left > 0 {
            for d in 1..10 {
                rec(pos + 1, left - 1, cur * 10 + d, out);
            }
        }
    }
    let mut out = Vec::new();
    rec(0, k, 0, &mut out);
    out
}

fn sweep_amounts(run: &Run, tier: Tier) {
    const COINS_B: [u64; 3] = [0, 1, 20_999_999];
    const FRACS_B: [u64; 4] = [0, 1, 10_000_000, 99_999_999];
    let eval_chunk = |zs: &mut dyn Iterator<Item = u64>| {
        let mut n = 0u64;
        for z in zs {
            n += 1;
            if let Err(m) = check_amount(z) {
                run.fail("amount", format!("amount:{z}"), m, json!({"z": z.to_string()}));
                break;
            }
        }
        run.eval_distinct(n);
        run.outcome_n("amount:exact-both-ways", n);
    };
    match tier {
        Tier::Thorough => {
            const CH: u64 = 1 << 16;
            let chunks = COIN.div_ceil(CH);
            (0..chunks).into_par_iter().for_each(|c| {
                let lo = c * CH;
                let hi = (lo + CH).min(COIN);
                eval_chunk(&mut (lo..hi).flat_map(|f| COINS_B.iter().map(move |c| c * COIN + f)));
            });
            let chunks = 21_000_001u64.div_ceil(CH);
            (0..chunks).into_par_iter().for_each(|c| {
                let lo = c * CH;
                let hi = (lo + CH).min(21_000_001);
                eval_chunk(&mut (lo..hi).flat_map(|coins| FRACS_B.iter().map(move |f| coins * COIN + f)));
            });
            run.section("amount_sweeps", json!({"fractions": "all 10^8 x coins {0,1,20999999}", "coins": "all 0..=21000000 x fractions {0,1,10^7,99999999}"}));
        }
        Tier::Quick => {
            let mut fr: BTreeSet<u64> = sparse_digits(4).into_iter().collect();
            fr.extend(0..1000);
            fr.extend([99_999_999, 99_999_990, 99_999_900, 12_345_678, 10_000_001, 9_999_999]);
            let mut co: BTreeSet<u64> = sparse_digits(4).into_iter().filter(|c| *c <= 21_000_000).collect();
            co.extend(0..1000);
            co.extend([20_999_999, 21_000_000, 20_999_990, 12_345_678, 9_999_999, 10_000_001]);
            run.section("amount_sweeps", json!({"fractions": format!("{} values: <=4 non-zero digits, all below 1000, boundaries; x coins {{0,1,20999999}}", fr.len()), "coins": format!("{} values: <=4 non-zero digits, all below 1000, boundaries; x fractions {{0,1,10^7,99999999}}", co.len())}));
            let fr: Vec<u64> = fr.into_iter().collect();
            fr.par_chunks(512).for_each(|ch| eval_chunk(&mut ch.iter().flat_map(|f| COINS_B.iter().map(move |c| c * COIN + f))));
            let co: Vec<u64> = co.into_iter().collect();
            co.par_chunks(512).for_each(|ch| eval_chunk(&mut ch.iter().flat_map(|c| FRACS_B.iter().map(move |f| c * COIN + f))));
        }
    }
    // explicit strings
    for s in amount_strings() {
        run.eval(format!("amount-str:{s}").as_bytes());
        match check_amount_str(&s) {
            Ok(o) => run.outcome(&format!("amount-str:{o}")),
            Err(m) => run.fail("amount-str", format!("amount-str:{s}"), m, json!({"s": s})),
        }
    }
}

fn amount_strings() -> Vec<String> {
    let mut v: Vec<String> = [
        "21000000", "21000000.0", "21000000.00000000", "21000000.00000001", "21000001", "20999999.99999999", "20999999.999999990", "0", "0.0", "0.00000000",
        "0.00000001", "0.000000001", "0.000000000", "00", "01", "00.5", "001.50", "1.", ".1", ".", "1..2", "1.2.3", "1.123456789", "1.12345678", "1,5", "1e3", "-1",
        "+1", "", "18446744073709551616", "18446744073709551615", "184467440737.09551616", "184467440738", "99999999999999999999999", "9223372036854775808",
        "18446744073709551624", "0x10", "１", "1.１", "1_0", "1.5.", "1.-5", "1.+5", "1.00000000000000000000", "000000000000000000000000000001", "2.1e7", "NaN", "inf",
        "1%2E5", "%31",
    ]
    .iter()
    .map(|s| s.to_string())
    .collect();
    for z in [MAX_MONEY - 1, MAX_MONEY, MAX_MONEY + 1, MAX_MONEY + COIN, 2 * MAX_MONEY] {
        v.push(format!("{}.{:08}", z / COIN, z % COIN));
    }
    v
}

// ---------------------------------------------------------------------------------------------
// C. labels / messages / other values
// ---------------------------------------------------------------------------------------------

pub fn check_text(s: &str) -> Result<&'static str, String> {
    let a = addr(1, 0);
    for field in 0..3 {
        let p = catch(|| {
            Payment::new(
                a.z.clone(),
                Some(Zatoshis::const_from_u64(1)),
                None,
                (field == 0).then(|| s.to_string()),
                (field == 1).then(|| s.to_string()),
                if field == 2 { vec![("x-note".to_string(), s.to_string()), ("Y2".to_string(), String::new())] } else { vec![] },
            )
        })
        .map_err(|p| format!("Payment::new panicked: {p}"))?
        .map_err(|e| format!("Payment::new refused a plain payment: {e:?}"))?;
        for at in [0usize, 7] {
            let r = TransactionRequest::from_indexed(BTreeMap::from([(at, p.clone())])).map_err(|e| format!("from_indexed: {e:?}"))?;
            let uri = catch(|| r.to_uri()).map_err(|p| format!("to_uri panicked for text {s:?}: {p}"))?;
            match catch(|| TransactionRequest::from_uri(&uri)).map_err(|p| format!("from_uri panicked for {uri:?}: {p}"))? {
                Ok(r2) if r2 == r => {}
                Ok(r2) => return Err(format!("text {s:?} in field {field} comes back as {:?} via {uri:?}", observe(&r2).values().next())),
                Err(e) => return Err(format!("text {s:?} in field {field} renders to {uri:?} which does not parse: {e:?}")),
            }
        }
        // the validating constructor agrees
        match catch(|| TransactionRequest::new(vec![p.clone()])).map_err(|p| format!("TransactionRequest::new panicked: {p}"))? {
            Ok(r) if observe(&r).get(&0).is_some() => {}
            other => return Err(format!("TransactionRequest::new on a valid payment with text {s:?}: {:?}", other.map(|r| observe(&r)))),
        }
    }
    Ok("text-roundtrip")
}

fn text_lattice() -> Vec<String> {
    [
        "", "\u{80}", "\u{7ff}", "\u{800}", "\u{ffff}", "\u{10000}", "\u{10ffff}", "e\u{301}", "\u{301}", "%", "%%", "%41", "%4", "%zz", "%E2%82%AC", "%e2%82", "a%20b", "+", "a+b",
        " ", "a b", "&", "a&b=c", "=", "?", "#", "/", ":", "@", "日本語", "🦄", "\u{200d}", "\u{feff}", "\0", "\r\n", "\u{7f}", "amount=5", "&address.1=x", "zcash:", "~", "\\", "\"",
    ]
    .iter()
    .map(|s| s.to_string())
    .collect()
}

fn sweep_text(run: &Run) {
    let mut cases: BTreeSet<String> = BTreeSet::new();
    for c in 0u8..128 {
        let c = c as char;
        for s in [format!("{c}"), format!("a{c}b"), format!("{c}{c}"), format!("%{c}"), format!("{c}41"), format!("{c}%"), format!("é{c}é")] {
            cases.insert(s);
        }
    }
    let lat = text_lattice();
    for a in &lat {
        cases.insert(a.clone());
        for b in &lat {
            cases.insert(format!("{a}{b}"));
        }
    }
    cases.insert("x".repeat(5000));
    cases.insert("%".repeat(2001));
    cases.insert("🦄".repeat(300));
    run.section("text_cases", json!(cases.len()));
    let list: Vec<&String> = cases.iter().collect();
    list.par_chunks(64).for_each(|ch| {
        for s in ch {
            match check_text(s) {
                Ok(o) => run.outcome(o),
                Err(m) => run.fail("text", format!("text:{}", s.escape_default()), m, json!({"s": s})),
            }
        }
        run.eval_distinct(ch.len() as u64);
    });
    // parse direction: every ASCII byte raw inside a value. qchar -> accepted verbatim; anything else is
    // not a qchar and must not be swallowed into the value ('&' starts a new parameter; '%' starts an escape).
    for c in 0u8..128 {
        run.eval(format!("raw-char:{c}").as_bytes());
        match check_raw_char(c) {
            Ok(o) => run.outcome(o),
            Err(m) => run.fail("raw-char", format!("raw-char:{c:#04x}"), m, json!({"c": c})),
        }
    }
}

pub fn check_raw_char(c: u8) -> Result<&'static str, String> {
    let ch = c as char;
    let uri = format!("zcash:{}?label=a{}b", addr(1, 0).s, ch);
    let qchar = ch.is_ascii_alphanumeric() || "-._~!$'()*+,;:@".contains(ch);
    let got = catch(|| TransactionRequest::from_uri(&uri)).map_err(|p| format!("from_uri panicked on raw byte {c:#04x}: {p}"))?;
    match got {
        Ok(r) => {
            accepted_clauses(&r)?;
            let label = observe(&r).get(&0).and_then(|p| p.label.clone());
            if qchar {
                if label.as_deref() == Some(&format!("a{ch}b")) {
                    Ok("raw-char:qchar-verbatim")
                } else {
                    Err(format!("qchar {ch:?} inside a label came back as {label:?}"))
                }
            } else if ch == '%' {
                Ok("raw-char:lone-percent-accepted") // "%b": not a pct-encoded triplet; the ZIP's grammar excludes it, the docs are silent
            } else if ch == '&' && label.as_deref() == Some("a") {
                Ok("raw-char:ampersand-splits") // "b" alone is an otherparam without a value in the ZIP's ABNF
            } else {
                Err(format!("byte {c:#04x} is not a qchar but the URI was accepted with label {label:?}"))
            }
        }
        Err(e) => {
            if qchar {
                Err(format!("qchar {ch:?} inside a label refused: {e:?}"))
            } else {
                Ok("raw-char:non-qchar-refused")
            }
        }
    }
}

// ---------------------------------------------------------------------------------------------
// D. memos
// ---------------------------------------------------------------------------------------------

fn strip_zeros(b: &[u8]) -> &[u8] {
    let n = b.iter().rposition(|x| *x != 0).map(|i| i + 1).unwrap_or(0);
    &b[..n]
}

pub fn check_memo(b: &[u8]) -> Result<&'static str, String> {
    let r = catch(|| -> Result<&'static str, String> {
        let mb = MemoBytes::from_bytes(b);
        if b.len() > 512 {
            if mb.is_ok() || Memo::from_bytes(b).is_ok() {
                return Err(format!("{} bytes accepted as a memo", b.len()));
            }
            let uri = format!("zcash:{}?memo={}", addr(1, 0).s, b64url(b));
            if TransactionRequest::from_uri(&uri).is_ok() {
                return Err(format!("URI with a {}-byte memo accepted", b.len()));
            }
            return Ok("memo:too-long-refused");
        }
        let mb = mb.map_err(|e| format!("MemoBytes::from_bytes refused {} bytes: {e:?}", b.len()))?;
        let padded = pad512(b);
        if mb.as_array()[..] != padded[..] || mb.clone().into_bytes()[..] != padded[..] {
            return Err("MemoBytes does not hold the zero-padded input".into());
        }
        if mb.as_slice() != strip_zeros(b) {
            return Err(format!("as_slice() has {} bytes, expected {}", mb.as_slice().len(), strip_zeros(b).len()));
        }
        // Memo <-> MemoBytes (ZIP 302 classes)
        let lead = padded[0];
        let memo = Memo::try_from(&mb);
        let class = match (&memo, lead) {
            (Ok(Memo::Text(t)), l) if l <= 0xf4 => {
                if std::str::from_utf8(strip_zeros(b)).ok() != Some(&**t) {
                    return Err("text memo content differs from the input".into());
                }
                "memo:text"
            }
            (Err(_), l) if l <= 0xf4 && std::str::from_utf8(strip_zeros(b)).is_err() => "memo:invalid-utf8-refused",
            (Ok(Memo::Empty), 0xf6) if padded[1..].iter().all(|x| *x == 0) => "memo:empty",
            (Ok(Memo::Arbitrary(a)), 0xff) if a[..] == padded[1..] => "memo:arbitrary",
            (Ok(Memo::Future(f)), l) if l >= 0xf5 && l != 0xff && !(l == 0xf6 && padded[1..].iter().all(|x| *x == 0)) && f.as_array()[..] == padded[..] => "memo:future",
            (m, l) => return Err(format!("memo with lead byte {l:#04x} classified as {m:?}")),
        };
        if let Ok(m) = &memo {
            if m.encode().as_array()[..] != padded[..] || MemoBytes::from(m.clone()).as_array()[..] != padded[..] {
                return Err("Memo -> MemoBytes does not give back the bytes".into());
            }
            if Memo::from_bytes(b).ok().as_ref() != Some(m) || Memo::try_from(m.encode()).ok().as_ref() != Some(m) {
                return Err("Memo::from_bytes / try_from(encode()) disagree".into());
            }
        }
        // through the URI (memos are carried as bytes whatever their class)
        let enc = zip321::memo_to_base64(&mb);
        if enc != b64url(strip_zeros(b)) {
            return Err(format!("memo_to_base64 gives {enc:?}, base64url of the unpadded bytes is {:?}", b64url(strip_zeros(b))));
        }
        match zip321::memo_from_base64(&enc) {
            Ok(m2) if m2 == mb => {}
            other => return Err(format!("memo_from_base64(memo_to_base64(m)) = {other:?}")),
        }
        for a in addrs()[PER_NET..2 * PER_NET].iter().filter(|a| a.memo_ok) {
            let p = Payment::new(a.z.clone(), None, Some(mb.clone()), None, None, vec![]).map_err(|e| format!("memo to {} refused: {e:?}", a.name))?;
            let r = TransactionRequest::new(vec![p]).map_err(|e| format!("request with memo refused: {e:?}"))?;
            let uri = r.to_uri();
            match TransactionRequest::from_uri(&uri) {
                Ok(r2) if r2 == r && observe(&r2).get(&0).and_then(|p| p.memo.clone()).as_deref() == Some(&padded[..]) => {}
                other => return Err(format!("memo does not survive to_uri/from_uri to {}: {:?}", a.name, other.map(|r| observe(&r)))),
            }
        }
        // own encodings: unpadded and with the trailing zeros kept
        for form in [b64url(strip_zeros(b)), b64url(b)] {
            let uri = format!("zcash:{}?memo={}", addr(1, 0).s, form);
            match TransactionRequest::from_uri(&uri) {
                Ok(r2) if observe(&r2).get(&0).and_then(|p| p.memo.clone()).as_deref() == Some(&padded[..]) => {}
                other => return Err(format!("memo={form:.40} parsed to {:?}", other.map(|r| observe(&r)))),
            }
        }
        // transparent recipients cannot take it
        for a in addrs().iter().filter(|a| !a.memo_ok) {
            if !matches!(Payment::new(a.z.clone(), None, Some(mb.clone()), None, None, vec![]), Err(PaymentError::TransparentMemo)) {
                return Err(format!("Payment::new accepted a memo for {}", a.name));
            }
            let uri = format!("zcash:{}?memo={}", a.s, enc);
            if TransactionRequest::from_uri(&uri).is_ok() {
                return Err(format!("URI with a memo for {} accepted", a.name));
            }
        }
        Ok(class)
    });
    match r {
        Ok(x) => x,
        Err(p) => Err(format!("panic: {p}")),
    }
}

fn memo_cases() -> Vec<Vec<u8>> {
    let mut out: BTreeSet<Vec<u8>> = BTreeSet::new();
    for len in [0usize, 1, 2, 3, 4, 5, 510, 511, 512, 513, 514, 1024] {
        for lead in [0x00u8, 0x41, 0x7f, 0x80, 0xc3, 0xf4, 0xf5, 0xf6, 0xf7, 0xfe, 0xff] {
            for tail in 0..8 {
                let mut b = vec![0u8; len];
                for (i, x) in b.iter_mut().enumerate().skip(1) {
                    *x = match tail {
                        0 => 0,
                        1 => 1,
                        2 => b'a',
                        3 => 0x80,
                        4 => if i == len - 1 { 9 } else { 0 },
                        5 => if i == len - 1 { 0 } else { b'z' },
                        6 => if i >= len.saturating_sub(3) { 0 } else { b'q' },
                        _ => [0x8f, 0xbf, 0xbf, b'x'][(i - 1) % 4], // makes F4 8F BF BF (U+10FFFF) with lead 0xF4
                    };
                }
                if len > 0 {
                    b[0] = lead;
                }
                out.insert(b);
            }
        }
    }
    // F4 90 80 80 is above U+10FFFF
    out.insert(vec![0xf4, 0x90, 0x80, 0x80]);
    out.insert(vec![0xf4, 0x8f, 0xbf, 0xbf]);
    out.insert("✨🦄 memo".as_bytes().to_vec());
    out.into_iter().collect()
}

// ---------------------------------------------------------------------------------------------
// E. Payment::new and requests at index sets
// ---------------------------------------------------------------------------------------------

const AMOUNTS: [Option<u64>; 4] = [None, Some(0), Some(1), Some(MAX_MONEY)];

pub fn check_payment(ai: usize, am: usize, with_memo: bool) -> Result<&'static str, String> {
    let a = addrs().get(ai).ok_or("addr")?;
    let amount = AMOUNTS[am];
    let memo = with_memo.then(|| MemoBytes::from_bytes(b"memo").unwrap());
    let got = catch(|| Payment::new(a.z.clone(), amount.map(|z| Zatoshis::from_u64(z).unwrap()), memo.clone(), Some("l".into()), None, vec![])).map_err(|p| format!("Payment::new panicked: {p}"))?;
    let memo_bad = with_memo && !a.memo_ok;
    let zero_bad = a.t_only && amount == Some(0);
    match got {
        Err(PaymentError::TransparentMemo) if memo_bad => Ok("payment:memo-refused"),
        Err(PaymentError::ZeroValuedTransparentOutput) if zero_bad => Ok("payment:zero-transparent-refused"),
        Err(e) => Err(format!("Payment::new({}, {amount:?}, memo={with_memo}) refused with {e:?}", a.name)),
        Ok(_) if memo_bad || zero_bad => Err(format!("Payment::new({}, {amount:?}, memo={with_memo}) accepted an invalid payment", a.name)),
        Ok(p) => {
            // the capability queries of the address agree with the protocol
            if a.z.can_receive_memo() != a.memo_ok || a.z.is_transparent_only() != a.t_only {
                return Err(format!("{}: can_receive_memo / is_transparent_only disagree with the address kind", a.name));
            }
            let r = catch(|| TransactionRequest::new(vec![p.clone()])).map_err(|p| format!("TransactionRequest::new panicked: {p}"))?.map_err(|e| format!("valid payment refused: {e:?}"))?;
            accepted_clauses(&r)?;
            let o = observe(&r);
            let want = ExpPayment { addr: a.s.clone(), amount, memo: memo.map(|m| m.as_array().to_vec()), label: Some("l".into()), ..Default::default() };
            if o.get(&0) != Some(&want) || o.len() != 1 {
                return Err(format!("request holds {o:?}, expected {want:?}"));
            }
            // and the same through a hand-written URI with the address as a parameter
            let mut uri = format!("zcash:?label=l&address={}", a.s);
            if let Some(z) = amount {
                uri.push_str(&format!("&amount={}.{:08}", z / COIN, z % COIN));
            }
            if with_memo {
                uri.push_str(&format!("&memo={}", b64url(b"memo")));
            }
            match catch(|| TransactionRequest::from_uri(&uri)).map_err(|p| format!("from_uri panicked: {p}"))? {
                Ok(r2) if r2 == r => Ok("payment:ok"),
                other => Err(format!("{uri} parsed to {:?}", other.map(|r| observe(&r)))),
            }
        }
    }
}

const INDEX_SETS: [&[usize]; 10] = [&[0], &[1], &[0, 1], &[5], &[9999], &[0, 9999], &[1, 2, 3], &[10, 100, 1000], &[9998, 9999], &[0, 1, 2, 3, 4, 5, 6, 7, 8, 9, 10]];

fn lattice_payment(k: usize) -> Payment {
    // varied valid payments
    let a = addrs();
    let pick = &a[k % a.len()];
    let amount = if pick.t_only { Some(1 + k as u64) } else { [None, Some(0), Some(MAX_MONEY / 4)][k % 3] };
    let memo = (pick.memo_ok && k % 2 == 0).then(|| MemoBytes::from_bytes(&[0xff, k as u8]).unwrap());
    Payment::new(
        pick.z.clone(),
        amount.map(|z| Zatoshis::from_u64(z).unwrap()),
        memo,
        (k % 3 == 0).then(|| format!("label {k} &=%")),
        (k % 4 == 1).then(|| "mess\u{e9}ge".to_string()),
        if k % 5 == 2 { vec![("b".into(), "2".into()), ("a".into(), "1 1".into())] } else { vec![] },
    )
    .expect("lattice payments are valid")
}

pub fn check_request(set_i: usize, shift: usize) -> Result<&'static str, String> {
    let set = INDEX_SETS.get(set_i).ok_or("index set")?;
    let map: BTreeMap<usize, Payment> = set.iter().enumerate().map(|(j, i)| (*i, lattice_payment(j * 7 + shift))).collect();
    let r = catch(|| TransactionRequest::from_indexed(map.clone())).map_err(|p| format!("from_indexed panicked: {p}"))?.map_err(|e| format!("from_indexed refused indices {set:?}: {e:?}"))?;
    if r.payments() != &map {
        return Err("from_indexed does not hold the given payments".into());
    }
    accepted_clauses(&r)?;
    // sequential constructor
    let seq: Vec<Payment> = map.values().cloned().collect();
    let r2 = catch(|| TransactionRequest::new(seq.clone())).map_err(|p| format!("new panicked: {p}"))?.map_err(|e| format!("new refused valid payments: {e:?}"))?;
    if r2.payments().keys().copied().collect::<Vec<_>>() != (0..seq.len()).collect::<Vec<_>>() || r2.payments().values().cloned().collect::<Vec<_>>() != seq {
        return Err("new() does not number the payments 0..n".into());
    }
    accepted_clauses(&r2)?;
    Ok("request:ok")
}

const OTHER_PAIRS: [(&str, &str); 5] = [("foo", "a"), ("foo", "b"), ("bar", "x"), ("bar", "y"), ("baz", "1")];

/// `TransactionRequest::new` on a payment whose other_params is the list coded by `code` (base 5, `len` entries), as
/// the first or the second payment: refused iff a name repeats; otherwise the list survives in order.
pub fn check_others(len: usize, mut code: usize, second: bool) -> Result<&'static str, String> {
    let mut list: Vec<(String, String)> = Vec::new();
    for _ in 0..len {
        let (n, v) = OTHER_PAIRS[code % OTHER_PAIRS.len()];
        list.push((n.to_string(), v.to_string()));
        code /= OTHER_PAIRS.len();
    }
    let mut names = BTreeSet::new();
    let repeated = !list.iter().all(|(n, _)| names.insert(n.clone()));
    let a = addr(1, 0);
    let plain = Payment::without_memo(addr(1, 2).z.clone(), Zatoshis::const_from_u64(5));
    // Payment::new documents only the memo and zero-value checks; a refusal here is fine when a name repeats
    let p = match catch(|| Payment::new(a.z.clone(), Some(Zatoshis::const_from_u64(1)), None, None, None, list.clone())).map_err(|e| format!("Payment::new panicked: {e}"))? {
        Ok(p) => p,
        Err(_) if repeated => return Ok("others:payment-refused"),
        Err(e) => return Err(format!("Payment::new refused distinct other_params {list:?}: {e:?}")),
    };
    let payments = if second { vec![plain, p] } else { vec![p] };
    match catch(|| TransactionRequest::new(payments)).map_err(|e| format!("TransactionRequest::new panicked: {e}"))? {
        Err(_) if repeated => Ok("others:repeated-name-refused"),
        Err(e) => Err(format!("TransactionRequest::new refused distinct other_params {list:?}: {e:?}")),
        Ok(_) if repeated => Err(format!("TransactionRequest::new accepted a payment whose other_params repeat a name: {list:?}")),
        Ok(r) => {
            accepted_clauses(&r)?;
            if observe(&r).get(&(second as usize)).map(|p| &p.others) != Some(&list) {
                return Err(format!("other_params {list:?} not held in order"));
            }
            Ok("others:ok")
        }
    }
}

pub fn check_limits() -> Result<&'static str, String> {
    let p = lattice_payment(0);
    let over = catch(|| TransactionRequest::from_indexed(BTreeMap::from([(10000usize, p.clone())]))).map_err(|p| format!("from_indexed panicked: {p}"))?;
    if over.is_ok() {
        return Err("from_indexed accepted payment index 10000".into());
    }
    let many = catch(|| TransactionRequest::new(vec![p.clone(); 9999])).map_err(|p| format!("new panicked: {p}"))?.map_err(|e| format!("new refused 9999 payments: {e:?}"))?;
    accepted_clauses(&many)?;
    let empty = TransactionRequest::empty();
    accepted_clauses(&empty)?;
    match catch(|| TransactionRequest::new(vec![])).map_err(|p| format!("new([]) panicked: {p}"))? {
        Ok(r) if r == empty => {}
        other => return Err(format!("new([]) = {:?}", other.map(|r| observe(&r)))),
    }
    Ok("limits:ok")
}

/// Degenerate and malformed URI strings: never a panic; anything accepted satisfies the common clauses.
pub fn check_raw_uri(uri: &str) -> Result<&'static str, String> {
    match catch(|| TransactionRequest::from_uri(uri)).map_err(|p| format!("from_uri panicked on {uri:?}: {p}"))? {
        Ok(r) => {
            accepted_clauses(&r)?;
            Ok("raw-uri:accepted")
        }
        Err(_) => Ok("raw-uri:refused"),
    }
}

fn raw_uris() -> Vec<String> {
    let a = &addr(1, 0).s;
    let t = &addr(1, 2).s;
    let mut v: Vec<String> = [
        "", "zcash", "zcash:", "zcash:?", "zcash:??", "zcash:&", "zcash:?&", "zcash:?=", "zcash:?a", "zcash:?a=", "zcash:?1=2", "ZCASH:", "zcash://", "zcash:?amount=1", "zcash:?address=",
        "zcash:?address", "zcash:#", "bitcoin:", " zcash:", "zcash:\u{0}", "zcash:?amount.1=1&amount=2", "zcash:?🦄=1", "zcash:?a=🦄", "zcash:?a.=1", "zcash:?a.1.2=1", "zcash:?a..1=1",
        "zcash:?.1=1", "zcash:?a.1", "zcash:?a.99999999999999999999=1", "zcash:?-a=1", "zcash:?a-=1", "zcash:?a+b-c=1",
    ]
    .iter()
    .map(|s| s.to_string())
    .collect();
    for tail in ["?", "?&", "?amount=1&", "?&amount=1", "?amount=1&&label=x", "?amount", "?amount=", "?=1", "?amount=1#frag", "?amount=1?amount=2", "?label=%", "?label=%f", "?label=%ff", "?label=%C3%28", "?other", "?other.1", "?req-", "?req-=1", "?Req-x=1", "?REQ-x=1", "?reqx=1", "?address=", "/", "?memo=", "?memo=A", "?memo=AA=", "?memo=AB", "?memo=A+B/", "?amount.1=1", "?amount.9999=1&address.9999=", "?message=a=b"] {
        v.push(format!("zcash:{a}{tail}"));
        v.push(format!("zcash:{t}{tail}"));
    }
    v.push(format!("zcash:{a}?address={a}"));
    v.push(format!("zcash:{a}?address.1={a}&address.1={t}"));
    v.push(format!("zcash: {a}"));
    v.push(format!("zcash:{a} "));
    v.push(format!("zcash:{a}%20"));
    v.push(format!("zcash:{}", a.to_ascii_uppercase()));
    v.push(format!("zcash:?address={}", a.to_ascii_uppercase()));
    v.push(format!("zcash:{a}?{}", vec!["x=1"; 3].join("&")));
    v.push(format!("zcash:{a}?{}", (0..2000).map(|i| format!("p{i}=v")).collect::<Vec<_>>().join("&")));
    v
}

// ---------------------------------------------------------------------------------------------

pub fn replay(kind: &str, case: &Value) -> Result<(), String> {
    let u = |k: &str| case[k].as_u64().map(|x| x as usize).ok_or_else(|| format!("missing {k}"));
    match kind {
        "uri" => {
            let toks: Vec<usize> = case["toks"].as_array().ok_or("toks")?.iter().filter_map(|v| v.as_u64().map(|x| x as usize)).collect();
            check_uri(u("lead")?, &toks).map(|_| ())
        }
        "amount" => check_amount(case["z"].as_str().and_then(|s| s.parse().ok()).ok_or("z")?),
        "amount-str" => check_amount_str(case["s"].as_str().ok_or("s")?).map(|_| ()),
        "text" => check_text(case["s"].as_str().ok_or("s")?).map(|_| ()),
        "raw-char" => check_raw_char(u("c")? as u8).map(|_| ()),
        "memo" => check_memo(&hex::decode(case["bytes"].as_str().ok_or("bytes")?).map_err(|e| e.to_string())?).map(|_| ()),
        "payment" => check_payment(u("addr")?, u("amount")?, case["memo"].as_bool().ok_or("memo")?).map(|_| ()),
        "request" => check_request(u("set")?, u("shift")?).map(|_| ()),
        "limits" => check_limits().map(|_| ()),
        "others" => check_others(u("len")?, u("code")?, case["second"].as_bool().ok_or("second")?).map(|_| ()),
        "raw-uri" => check_raw_uri(case["uri"].as_str().ok_or("uri")?).map(|_| ()),
        _ => Err(format!("unknown kind {kind}")),
    }
}

pub fn run(args: &Args) -> i32 {
    let run = Run::new(args, "exploration");
    let maxlen = args.tier.pick(3, 4);
    run.set_rule(&format!(
        "URIs: 6 lead-address choices (none and one recipient per value of the predicates memo-allowed / transparent-output, plain and \
         unified) x every sequence (with repetition, every order) of length 0..={maxlen} over the 40-token parameter alphabet (name x \
         index form x value variant; two unknown names each twice at two indices){}; a duplicate-scan sweep (every sequence of length \
         <= {} over 3 unknown names each twice + amount/label/message/memo, at index none and behind address.1 at index .1); a recipient \
         sweep (every recipient kind on 3 networks as lead, as address= and as address.1= x every sequence of length <= 3 resp. 4 of \
         {{amount 0, amount 1 zat, memo, label}}); each case renders to a distinct string; amounts: {} ; labels/messages/other values: \
         every ASCII character in 7 contexts and all pairs of a 42-string UTF-8/percent lattice x 3 fields x 2 index positions; memos: \
         12 lengths x 11 lead bytes x 8 tail patterns x every recipient; Payment::new on 36 recipients x 4 amounts x 2 memo choices; \
         TransactionRequest::new on every other_params list of length <= 4 over 5 (name,value) pairs x 2 positions; requests at 10 index \
         sets x 4 payment assignments. A case is distinct by its generating tuple and non-trivial because each is a full parse and/or render",
        args.tier.pick("", " (thorough tier: also every length-5 sequence over the tokens that are well-formed on their own, 4 leads)"),
        args.tier.pick(5, 6),
        args.tier.pick(
            "quick tier: all fractional parts with at most 4 non-zero digits, all below 1000 and the boundaries x coins {0,1,20999999}, and the same subset of coin values x fractions {0,1,10^7,99999999} (the complete sweeps run in the thorough tier)",
            "all 10^8 fractional parts x coins {0,1,20999999} and all 21000001 coin values x fractions {0,1,10^7,99999999}"
        )
    ));
    run.assume("ZIP 321 is read as: parameters may come in any order; each (name,index) at most once; every index needs an address; `zcash:<addr>?..` is `address=<addr>` at index 0; a parameter starting with req- that is not understood makes the URI invalid");
    run.assume("accept/reject agreement is demanded only for URIs built from unambiguous tokens (always `name=value`); `zcash:` with no payment, a lone '%', parameters without '=', leading zeros in amounts are accepted either way and only the accepted-implies clauses are checked");
    run.assume("whole and fractional parts of an amount are converted independently (visible in amount_str/parse_amount); the two sweeps cover each part exhaustively against boundary values of the other");
    run.assume("other_params names are outside {address, amount, memo, label, message} and do not start with req- (documented precondition of the crate's own generators)");
    run.assume("total(): documented both as Ok(None) when a payment has no amount and as Err when a summation step leaves the range; when both hold either answer is accepted");
    run.assume("which recipients can take a memo / give a transparent output is stated by the harness from ZIP 321 / ZIP 316 and the documentation of is_transparent_only: memo iff Sprout, Sapling or a unified address with a Sapling/Orchard receiver; transparent output iff P2PKH, P2SH, TEX or a unified address with a transparent receiver and no Sapling/Orchard receiver");
    run.assume("anything from_uri or TransactionRequest::new lets through must be a payment that Payment::new builds from the same parts (the constructor documents the memo and zero-value rules)");

    sweep_uris(&run, args.tier);
    run.section("t_uris_s", json!(run.elapsed()));
    if std::env::var("VERIF_C12_SKIP_AMOUNTS").is_ok() {
        run.cap_hit("debug switch VERIF_C12_SKIP_AMOUNTS set: amount sweeps not run");
    } else {
        sweep_amounts(&run, args.tier);
    }
    run.section("t_amounts_s", json!(run.elapsed()));
    sweep_text(&run);
    let memos = memo_cases();
    run.section("memo_cases", json!(memos.len()));
    memos.par_iter().for_each(|b| {
        run.eval_distinct(1);
        match check_memo(b) {
            Ok(o) => run.outcome(o),
            Err(m) => run.fail("memo", format!("memo:len{}:{}", b.len(), mc_core::sha256_hex(b)[..12].to_string()), m, json!({"bytes": hex::encode(b)})),
        }
    });
    for ai in 0..addrs().len() {
        for am in 0..AMOUNTS.len() {
            for memo in [false, true] {
                run.eval(format!("payment:{ai}:{am}:{memo}").as_bytes());
                match check_payment(ai, am, memo) {
                    Ok(o) => run.outcome(o),
                    Err(m) => run.fail("payment", format!("payment:{}:{:?}:memo={memo}", addrs()[ai].name, AMOUNTS[am]), m, json!({"addr": ai, "amount": am, "memo": memo})),
                }
            }
        }
    }
    for set in 0..INDEX_SETS.len() {
        for shift in 0..4 {
            run.eval(format!("request:{set}:{shift}").as_bytes());
            match check_request(set, shift) {
                Ok(o) => run.outcome(o),
                Err(m) => run.fail("request", format!("request:{:?}:{shift}", INDEX_SETS[set]), m, json!({"set": set, "shift": shift})),
            }
        }
    }
    for len in 0..=4usize {
        for code in 0..OTHER_PAIRS.len().pow(len as u32) {
            for second in [false, true] {
                run.eval(format!("others:{len}:{code}:{second}").as_bytes());
                match check_others(len, code, second) {
                    Ok(o) => run.outcome(o),
                    Err(m) => run.fail("others", format!("others:len{len}:code{code}:second={second}"), m, json!({"len": len, "code": code, "second": second})),
                }
            }
        }
    }
    run.eval(b"limits");
    match check_limits() {
        Ok(o) => run.outcome(o),
        Err(m) => run.fail("limits", "limits".into(), m, json!({})),
    }
    for uri in raw_uris() {
        run.eval(format!("raw-uri:{uri}").as_bytes());
        match check_raw_uri(&uri) {
            Ok(o) => run.outcome(o),
            Err(m) => run.fail("raw-uri", format!("raw-uri:{}", if uri.len() > 200 { format!("{}…({} bytes)", &uri[..100], uri.len()) } else { uri.escape_default().to_string() }), m, json!({"uri": uri})),
        }
    }
    // Observation only (outside the stated precondition on other_params names, so no verdict): what happens when a
    // reserved name is passed as an "other" parameter.
    let obs = catch(|| {
        let p = Payment::new(addr(1, 0).z.clone(), None, None, None, None, vec![("amount".to_string(), "5".to_string())]).ok()?;
        let r = TransactionRequest::new(vec![p]).ok()?;
        let back = TransactionRequest::from_uri(&r.to_uri()).ok()?;
        Some(back == r)
    });
    run.section(
        "observation_reserved_name_in_other_params",
        json!({"input": "Payment::new(.., other_params=[(\"amount\",\"5\")]) -> TransactionRequest::new", "accepted_and_roundtrips": format!("{obs:?}"),
               "note": "Some(false) means new() accepts the request although its URI parses to a different request (amount=5 ZEC); names are a documented precondition, not checked here"}),
    );
    run.sample(json!({"uri": "zcash:?amount=1&address=<sapling>&address.1=<p2pkh>&amount.1=0", "expected": "reject (zero-valued transparent output)"}));
    run.sample(json!({"uri": "zcash:<sapling>?address=<sapling2>", "expected": "reject (duplicate address at index 0)"}));
    run.sample(json!({"uri": "zcash:<sapling>?amount.9999=0.1&address.9999=<p2pkh>", "expected": "accept, two payments"}));
    run.sample(json!({"amount": "20999999.99999999 -> 2099999999999999 zatoshis and back", "also": "21000000.00000001 refused"}));
    run.require(run.outcomes_distinct() >= 25 || run.failure_count() > 0, "fewer than 25 distinct outcome classes observed");
    run.finish(&replay)
}
