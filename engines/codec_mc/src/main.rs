//! codec_mc — bounded-exhaustive checks of the pure codecs and arithmetic
mod c03;
mod c04;
mod c09;
mod c10;
mod c12;
mod c19;
mod c20;

use mc_core::{machinery_error, replay_file, Args};
use serde_json::Value;

fn replay(prop: &str) -> fn(&str, &Value) -> Result<(), String> {
    match prop {
        "C03" => c03::replay,
        "C04" => c04::replay,
        "C09" => c09::replay,
        "C10" => c10::replay,
        "C12" => c12::replay,
        "C19" => c19::replay,
        "C20" => c20::replay,
        _ => machinery_error(&format!("codec_mc does not serve {prop}")),
    }
}

fn main() {
    let args = Args::parse();
    let rp = replay(&args.prop);
    if let Some(p) = &args.replay {
        std::process::exit(replay_file(p, &rp));
    }
    let code = match args.prop.as_str() {
        "C03" => c03::run(&args),
        "C04" => c04::run(&args),
        "C09" => c09::run(&args),
        "C10" => c10::run(&args),
        "C12" => c12::run(&args),
        "C19" => c19::run(&args),
        "C20" => c20::run(&args),
        _ => unreachable!(),
    };
    std::process::exit(code);
}
