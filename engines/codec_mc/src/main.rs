//! codec_mc — bounded-exhaustive checks of the pure codecs and arithmetic:
//! C09 (amounts), C19 (Equihash), C20 (chain-history tree), C10 (addresses), C12 (ZIP 321).
mod c09;

use mc_core::{machinery_error, replay_file, Args};
use serde_json::Value;

fn replay(prop: &str) -> fn(&str, &Value) -> Result<(), String> {
    match prop {
        "C09" => c09::replay,
        _ => machinery_error(&format!("codec_mc does not serve {prop}")),
    }
}

fn main() {
    let args = Args::parse();
    let rp = replay(&args.prop);
    if let Some(p) = &args.replay {
        std::process::exit(replay_file(p, &rp));
    }
    let code = match args.prop.as_str() {
        "C09" => c09::run(&args),
        _ => unreachable!(),
    };
    std::process::exit(code);
}
