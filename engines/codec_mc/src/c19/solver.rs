//! Complete basic-Wagner solver for small Equihash parameters (n <= 128).
//!
//! Lists *every* solution of one (parameters, input, nonce): all 2^(c+1) rows are generated, and at
//! every level every pair of rows that agrees on the level's c-bit segment is kept (no row is ever
//! dropped, a row may take part in any number of pairs); pairs whose index sets intersect are
//! pruned because a solution needs 2^k distinct indices. Every unordered tree is produced once,
//! written with the sub-tree holding the smaller leading index on the left (the canonical order).
//! The solver is only a *generator*: each result is still judged by the reference verifier.

use super::reference::{Gen, P};
use rayon::prelude::*;

#[derive(Clone, Copy)]
struct Node {
    hash: u128,
    first: u32,
    left: u32,
    right: u32,
    /// relaxed mode: this sub-tree contains the one node whose segment differs in the relaxed bit
    flag: bool,
}

const LEAF: u32 = u32::MAX;

fn collect(nodes: &[Node], id: u32, out: &mut Vec<u32>) {
    let n = nodes[id as usize];
    if n.left == LEAF {
        out.push(n.first);
    } else {
        collect(nodes, n.left, out);
        collect(nodes, n.right, out);
    }
}

fn disjoint(nodes: &[Node], a: u32, b: u32, sa: &mut Vec<u32>, sb: &mut Vec<u32>) -> bool {
    sa.clear();
    sb.clear();
    collect(nodes, a, sa);
    collect(nodes, b, sb);
    !sa.iter().any(|x| sb.contains(x))
}

pub struct Solved {
    pub solutions: Vec<Vec<u32>>,
    /// rows alive at each level (level 0 = generated rows)
    pub level_sizes: Vec<usize>,
    pub capped: bool,
}

/// `prune = true`: the complete list of solutions. `prune = false`: pairs with intersecting index
/// sets are kept too, and only the results that *contain a repeated index* are returned: index
/// lists that satisfy every collision condition and the zero XOR but are not solutions.
pub fn solve(p: P, input: &[u8], nonce: &[u8], prune: bool, max_rows: usize) -> Solved {
    solve_with(p, input, nonce, prune, None, max_rows)
}

/// Near misses: distinct, correctly ordered index lists that satisfy every condition except that
/// exactly one node of the tree misses its collision in exactly one bit: `level` in 1..=k+1 names
/// the segment (k+1 = the last segment, which only the zero-XOR condition covers), `bit` in 0..c
/// the bit inside it (0 = most significant). Only a verifier that compares that very bit rejects.
pub fn near_misses(p: P, input: &[u8], nonce: &[u8], level: u32, bit: u32, max_rows: usize) -> Solved {
    solve_with(p, input, nonce, true, Some((level, bit)), max_rows)
}

fn solve_with(p: P, input: &[u8], nonce: &[u8], prune: bool, relax: Option<(u32, u32)>, max_rows: usize) -> Solved {
    assert!(p.n <= 128 && p.n % 8 == 0 && p.n % (p.k + 1) == 0);
    let g = Gen::new(p, input, nonce);
    let c = p.c();
    let rows = p.num_rows();
    let mut nodes: Vec<Node> = (0..rows as u32)
        .into_par_iter()
        .map(|i| {
            let x = g.x_uncached(i);
            let hash = x.iter().fold(0u128, |a, b| (a << 8) | *b as u128);
            Node { hash, first: i, left: LEAF, right: LEAF, flag: false }
        })
        .collect();
    nodes.reserve(rows as usize);
    let mut cur: Vec<u32> = (0..rows as u32).collect();
    let mut level_sizes = vec![cur.len()];
    let mut capped = false;
    let (mut sa, mut sb) = (Vec::new(), Vec::new());
    let mut solutions = Vec::new();
    for r in 1..=p.k {
        // key: segment r for inner levels; the two last segments (2c bits) at the last level;
        // in relaxed mode the relaxed bit is masked out of the key of its level
        let seg_mask: u128 = (1u128 << c) - 1;
        let relax_mask: u128 = match relax {
            Some((lv, bit)) if lv == r && r < p.k => 1u128 << (c - 1 - bit),
            Some((lv, bit)) if r == p.k && lv == p.k => 1u128 << (2 * c - 1 - bit),
            Some((lv, bit)) if r == p.k && lv == p.k + 1 => 1u128 << (c - 1 - bit),
            _ => 0,
        };
        let raw_key = |h: u128| -> u128 {
            if r < p.k {
                (h >> (p.n - r * c)) & seg_mask
            } else {
                h & ((1u128 << (2 * c)) - 1)
            }
        };
        let key = |h: u128| -> u128 { raw_key(h) & !relax_mask };
        let mut keyed: Vec<(u128, u32)> = cur.iter().map(|id| (key(nodes[*id as usize].hash), *id)).collect();
        if keyed.len() > 1 << 16 {
            keyed.par_sort_unstable();
        } else {
            keyed.sort_unstable();
        }
        let mut next: Vec<u32> = Vec::new();
        let mut s = 0;
        while s < keyed.len() {
            let ks = keyed[s].0;
            let mut e = s + 1;
            while e < keyed.len() && keyed[e].0 == ks {
                e += 1;
            }
            for i in s..e {
                for j in i + 1..e {
                    let (a, b) = (keyed[i].1, keyed[j].1);
                    let dj = disjoint(&nodes, a, b, &mut sa, &mut sb);
                    if prune && !dj {
                        continue;
                    }
                    let (na, nb) = (nodes[a as usize], nodes[b as usize]);
                    let differs = (raw_key(na.hash) ^ raw_key(nb.hash)) & relax_mask != 0;
                    let flags = na.flag as u32 + nb.flag as u32 + differs as u32;
                    if flags > 1 || (r == p.k && relax.is_some() && flags != 1) {
                        continue;
                    }
                    let (l, rr) = if na.first < nb.first { (a, b) } else { (b, a) };
                    if r < p.k {
                        if nodes.len() >= max_rows {
                            capped = true;
                            continue;
                        }
                        nodes.push(Node { hash: na.hash ^ nb.hash, first: na.first.min(nb.first), left: l, right: rr, flag: flags == 1 });
                        next.push(nodes.len() as u32 - 1);
                    } else {
                        let mut sol = Vec::with_capacity(p.num_indices());
                        collect(&nodes, l, &mut sol);
                        collect(&nodes, rr, &mut sol);
                        if !prune {
                            let mut t = sol.clone();
                            t.sort_unstable();
                            t.dedup();
                            if t.len() == sol.len() {
                                continue; // a genuine solution: listed by the pruned run
                            }
                            if solutions.len() >= 4096 {
                                capped = true;
                                continue;
                            }
                        }
                        solutions.push(sol);
                    }
                }
            }
            s = e;
        }
        if r < p.k {
            level_sizes.push(next.len());
            cur = next;
        }
    }
    solutions.sort();
    Solved { solutions, level_sizes, capped }
}
