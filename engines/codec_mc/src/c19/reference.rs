//! Bit-level Equihash reference, written from the Zcash protocol specification (section
//! "Equihash") and the Equihash paper. It shares no code with /repo/components/equihash: hashes
//! are n-bit big-endian bit strings held as byte vectors, the solution is unpacked bit by bit, and
//! the validity conditions are evaluated declaratively (all of them, no early exit):
//!
//! * length: the encoding holds exactly 2^k indices of n/(k+1)+1 bits each, packed big-endian;
//! * distinctness: the 2^k indices are pairwise different;
//! * algorithm binding, ordering: for r in 1..=k and every aligned block of 2^r indices, the first
//!   half precedes the second half lexicographically;
//! * algorithm binding, collisions: for r in 1..k the XOR of the hashes of every aligned block of
//!   2^r indices has r*n/(k+1) leading zero bits;
//! * generalized birthday: the XOR of all 2^k hashes is zero.
//!
//! X_i = the ((i mod m)+1)-th n-bit slice of BLAKE2b-(n*m/8)(personal = "ZcashPoW" || LE32(n) ||
//! LE32(k); data = input || nonce || LE32(i div m)) with m = floor(512/n), i zero-based.

use std::collections::HashMap;

#[derive(Clone, Copy, Debug, PartialEq, Eq)]
pub struct P {
    pub n: u32,
    pub k: u32,
}

impl P {
    /// Collision segment width in bits.
    pub fn c(&self) -> u32 {
        self.n / (self.k + 1)
    }
    pub fn index_bits(&self) -> u32 {
        self.c() + 1
    }
    pub fn num_indices(&self) -> usize {
        1usize << self.k
    }
    pub fn num_rows(&self) -> u64 {
        1u64 << self.index_bits()
    }
    pub fn soln_len(&self) -> usize {
        self.num_indices() * self.index_bits() as usize / 8
    }
    fn per_hash(&self) -> u32 {
        512 / self.n
    }
}

/// Generator of the X_i for one (parameters, input, nonce), with a cache.
pub struct Gen {
    pub p: P,
    base: blake2b_simd::State,
    cache: HashMap<u32, Vec<u8>>,
}

impl Gen {
    pub fn new(p: P, input: &[u8], nonce: &[u8]) -> Gen {
        let mut personal = Vec::with_capacity(16);
        personal.extend_from_slice(b"ZcashPoW");
        personal.extend_from_slice(&p.n.to_le_bytes());
        personal.extend_from_slice(&p.k.to_le_bytes());
        let digest_bytes = (p.per_hash() * p.n / 8) as usize;
        let mut base = blake2b_simd::Params::new().hash_length(digest_bytes).personal(&personal).to_state();
        base.update(input);
        base.update(nonce);
        Gen { p, base, cache: HashMap::new() }
    }
    pub fn x_uncached(&self, i: u32) -> Vec<u8> {
        let m = self.p.per_hash();
        let mut st = self.base.clone();
        st.update(&(i / m).to_le_bytes());
        let h = st.finalize();
        let w = (self.p.n / 8) as usize;
        let off = (i % m) as usize * w;
        h.as_bytes()[off..off + w].to_vec()
    }
    pub fn x(&mut self, i: u32) -> &Vec<u8> {
        if !self.cache.contains_key(&i) {
            let v = self.x_uncached(i);
            self.cache.insert(i, v);
        }
        &self.cache[&i]
    }
}

fn bits_of(bytes: &[u8]) -> Vec<bool> {
    let mut v = Vec::with_capacity(bytes.len() * 8);
    for b in bytes {
        for j in (0..8).rev() {
            v.push((b >> j) & 1 == 1);
        }
    }
    v
}

/// Unpack a minimal solution encoding. `None` = wrong length.
pub fn decode(p: P, soln: &[u8]) -> Option<Vec<u32>> {
    if soln.len() != p.soln_len() {
        return None;
    }
    let w = p.index_bits() as usize;
    let bits = bits_of(soln);
    Some(bits.chunks(w).map(|ch| ch.iter().fold(0u32, |a, b| (a << 1) | (*b as u32))).collect())
}

/// Pack indices (each `index_bits` wide) big-endian.
pub fn encode(p: P, idx: &[u32]) -> Vec<u8> {
    let w = p.index_bits();
    let mut bits = Vec::with_capacity(idx.len() * w as usize);
    for i in idx {
        for j in (0..w).rev() {
            bits.push((i >> j) & 1 == 1);
        }
    }
    assert!(bits.len() % 8 == 0);
    bits.chunks(8).map(|ch| ch.iter().fold(0u8, |a, b| (a << 1) | (*b as u8))).collect()
}

fn leading_zero_bits(v: &[u8]) -> u32 {
    let mut z = 0;
    for b in v {
        if *b == 0 {
            z += 8;
        } else {
            z += b.leading_zeros();
            break;
        }
    }
    z
}

pub const R_LENGTH: u8 = 1;
pub const R_DUPLICATE: u8 = 2;
pub const R_ORDER: u8 = 4;
pub const R_COLLISION: u8 = 8;
pub const R_NONZERO: u8 = 16;

/// Bit mask of the violated conditions (0 = valid solution).
pub fn verify_indices(g: &mut Gen, idx: &[u32]) -> u8 {
    let p = g.p;
    let mut bad = 0u8;
    if idx.len() != p.num_indices() {
        return R_LENGTH;
    }
    let mut s = idx.to_vec();
    s.sort_unstable();
    if s.windows(2).any(|w| w[0] == w[1]) {
        bad |= R_DUPLICATE;
    }
    let mut level: Vec<Vec<u8>> = idx.iter().map(|i| g.x(*i).clone()).collect();
    for r in 1..=p.k {
        let half = 1usize << (r - 1);
        for blk in idx.chunks(2 * half) {
            if !(blk[..half] < blk[half..]) {
                bad |= R_ORDER;
            }
        }
        level = level.chunks(2).map(|pr| pr[0].iter().zip(pr[1].iter()).map(|(a, b)| a ^ b).collect()).collect();
        for x in &level {
            if r < p.k {
                if leading_zero_bits(x) < r * p.c() {
                    bad |= R_COLLISION;
                }
            } else if leading_zero_bits(x) < p.n {
                // label only: a mismatch inside the k-th segment is called a collision failure,
                // one in the last segment a non-zero root; both make the solution invalid
                if leading_zero_bits(x) < p.k * p.c() {
                    bad |= R_COLLISION;
                } else {
                    bad |= R_NONZERO;
                }
            }
        }
    }
    bad
}

pub fn verify(g: &mut Gen, soln: &[u8]) -> u8 {
    match decode(g.p, soln) {
        None => R_LENGTH,
        Some(idx) => verify_indices(g, &idx),
    }
}

pub fn reason(mask: u8) -> String {
    if mask == 0 {
        return "valid".into();
    }
    let mut v = Vec::new();
    for (b, s) in [(R_LENGTH, "length"), (R_DUPLICATE, "dup"), (R_ORDER, "order"), (R_COLLISION, "collision"), (R_NONZERO, "nonzero")] {
        if mask & b != 0 {
            v.push(s);
        }
    }
    v.join("+")
}
