//! Drives the repository's digest code: `Transaction::txid`, `auth_commitment`, and
//! `sighash::signature_hash` with a transparent authorizing context carrying the spent coins.

use super::reference::{Coin, Signing};
use crate::c03::real::{branch_id, read_tx, script};
use mc_core::catch;
use zcash_primitives::transaction::{
    sighash::{signature_hash, SignableInput},
    txid::TxIdDigester,
    Authorization, Transaction, TransactionData, TxDigests,
};
use zcash_protocol::value::Zatoshis;
use zcash_transparent::address::Script;
use zcash_transparent::bundle as tb;
use zcash_transparent::sighash::{SighashType, SignableInput as TSignable, TransparentAuthorizingContext};

#[derive(Debug, Clone)]
pub struct CoinsAuth {
    amounts: Vec<Zatoshis>,
    scripts: Vec<Script>,
}

impl tb::Authorization for CoinsAuth {
    type ScriptSig = Script;
}

impl TransparentAuthorizingContext for CoinsAuth {
    fn input_amounts(&self) -> Vec<Zatoshis> {
        self.amounts.clone()
    }
    fn input_scriptpubkeys(&self) -> Vec<Script> {
        self.scripts.clone()
    }
}

pub struct SigAuth;

impl Authorization for SigAuth {
    type TransparentAuth = CoinsAuth;
    type SaplingAuth = sapling::bundle::Authorized;
    type OrchardAuth = orchard::bundle::Authorized;
}

struct MapT(CoinsAuth);

impl tb::MapAuth<tb::Authorized, CoinsAuth> for MapT {
    fn map_script_sig(&self, s: Script) -> Script {
        s
    }
    fn map_authorization(&self, _: tb::Authorized) -> CoinsAuth {
        self.0.clone()
    }
}

pub struct RealTx {
    pub txid: [u8; 32],
    pub auth: Result<[u8; 32], String>,
    /// txid of the same bytes parsed through a short-read reader.
    pub chunked_txid: Result<[u8; 32], String>,
    data: TransactionData<SigAuth>,
    parts: TxDigests<blake2b_simd::Hash>,
}

/// Parse `bytes` and attach the spent coins.
pub fn load(bytes: &[u8], ext_branch: u32, coins: &[Coin]) -> Result<RealTx, String> {
    let br = branch_id(ext_branch)?;
    let (res, consumed) = catch(|| read_tx(bytes, br)).map_err(|p| format!("read panicked: {p}"))?;
    let tx: Transaction = res.map_err(|e| format!("does not parse: {e}"))?;
    if consumed != bytes.len() {
        return Err("trailing bytes".into());
    }
    let txid: [u8; 32] = *tx.txid().as_ref();
    // the same bytes through a reader that serves at most 7 bytes per call (C03's scripted reader)
    let chunked_txid = catch(|| crate::c03::real::read_tx_scripted(bytes, br, crate::c03::real::Answers::Chunk(7)).0.map(|t| *t.txid().as_ref()).map_err(|e| e.to_string()))
        .unwrap_or_else(|p| Err(format!("panic: {p}")));
    let auth = catch(|| tx.auth_commitment()).map(|h| <[u8; 32]>::try_from(h.as_bytes()).unwrap()).map_err(|p| format!("auth_commitment panicked: {p}"));
    let ca = CoinsAuth {
        amounts: coins.iter().map(|c| Zatoshis::from_nonnegative_i64(c.value).map_err(|e| format!("coin value: {e:?}"))).collect::<Result<_, _>>()?,
        scripts: coins.iter().map(|c| script(&c.script)).collect(),
    };
    let data = tx.into_data().map_authorization::<SigAuth>(MapT(ca), (), ());
    let parts = catch(|| data.digest(TxIdDigester)).map_err(|p| format!("digest(TxIdDigester) panicked: {p}"))?;
    Ok(RealTx { txid, auth, chunked_txid, data, parts })
}

impl RealTx {
    pub fn sighash(&self, signing: Signing, coins: &[Coin]) -> Result<[u8; 32], String> {
        catch(|| -> Result<[u8; 32], String> {
            let parts = &self.parts;
            match signing {
                Signing::Shielded => Ok(*signature_hash(&self.data, &SignableInput::Shielded, parts).as_ref()),
                Signing::Transparent { index, hash_type } => {
                    let ht = SighashType::parse(hash_type).ok_or("hash type refused")?;
                    let sc = script(&coins[index].code);
                    let spk = script(&coins[index].script);
                    let bundle = self.data.transparent_bundle().ok_or("no transparent bundle")?;
                    let value = Zatoshis::from_nonnegative_i64(coins[index].value).map_err(|e| format!("{e:?}"))?;
                    let inp = TSignable::from_parts(bundle, ht, index, &sc, &spk, value).map_err(|e| e.to_string())?;
                    Ok(*signature_hash(&self.data, &SignableInput::Transparent(inp), parts).as_ref())
                }
            }
        })
        .unwrap_or_else(|p| Err(format!("signature_hash panicked: {p}")))
    }
}

pub fn sighash_type_parse(t: u8) -> Option<u8> {
    SighashType::parse(t).map(|x| x.encode())
}
