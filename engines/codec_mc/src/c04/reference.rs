//! Independent reference implementation of the transaction digests, over the plain-data
//! `TxSpec` (never over the repository's types) with `blake2b_simd` / `sha2` only.
//!
//! * ZIP 244: txid digest (T.1–T.4), authorizing-data digest (A.1–A.3), signature digest (S.1–S.4,
//!   incl. transparent_sig_digest S.2).
//! * The v6 variant of this fork (ZIP 229 as documented in `txid.rs`, `sighash_v6.rs` and the
//!   `orchard` crate's commitment documentation): the Sapling spends non-compact digest becomes
//!   (cv, rk) under `ZTxIdSSpendNH_v6`; the Orchard digest drops the anchor and is personalised
//!   `ZTxIdOrchardH_v6`; an Ironwood bundle digest (`ZTxIdIronwd_H_v6`, action digests
//!   `ZTxIdIrnAct{C,M,N}H_v6`) is appended to the txid / signature digest; the authorizing
//!   digests are personalised `ZTxAuthSapliH_v6`, `ZTxAuthOrchaH_v6`, `ZTxAuthIrnwdH_v6` and
//!   each appends the bundle's anchor.
//! * ZIP 143 (v3) and ZIP 243 (v4) signature hashes; txid of v1–v4 = SHA-256d of the encoding.

use crate::c03::spec::*;
use blake2b_simd::Params;
use sha2::{Digest, Sha256};

pub const SIGHASH_ALL: u8 = 1;
pub const SIGHASH_NONE: u8 = 2;
pub const SIGHASH_SINGLE: u8 = 3;
pub const SIGHASH_ANYONECANPAY: u8 = 0x80;

/// The coin spent by a transparent input, and the script being executed when signing it.
#[derive(Clone, Debug, PartialEq, Eq)]
pub struct Coin {
    pub value: i64,
    /// scriptPubKey of the coin (ZIP 244 S.2c and S.2g.iii commit to this).
    pub script: Vec<u8>,
    /// scriptCode of the input being signed (ZIP 143 / ZIP 243 field 13b commit to this): equal to
    /// the scriptPubKey for P2PKH, the redeem script for P2SH.
    pub code: Vec<u8>,
}

#[derive(Clone, Copy, Debug, PartialEq, Eq, Hash, PartialOrd, Ord)]
pub enum Signing {
    Shielded,
    Transparent { index: usize, hash_type: u8 },
}

fn h(personal: &[u8], data: &[u8]) -> [u8; 32] {
    let mut p = [0u8; 16];
    p[..personal.len()].copy_from_slice(personal);
    Params::new().hash_length(32).personal(&p).hash(data).as_bytes().try_into().unwrap()
}

fn hb(prefix: &[u8; 12], branch: u32, data: &[u8]) -> [u8; 32] {
    let mut p = [0u8; 16];
    p[..12].copy_from_slice(prefix);
    p[12..].copy_from_slice(&branch.to_le_bytes());
    Params::new().hash_length(32).personal(&p).hash(data).as_bytes().try_into().unwrap()
}

fn script_enc(s: &[u8]) -> Vec<u8> {
    let mut v = compact_size(s.len() as u64);
    v.extend_from_slice(s);
    v
}

fn out_enc(o: &TOut) -> Vec<u8> {
    let mut v = o.value.to_le_bytes().to_vec();
    v.extend(script_enc(&o.script));
    v
}

fn outpoint_enc(i: &TIn) -> Vec<u8> {
    let mut v = i.prev_hash.to_vec();
    v.extend_from_slice(&i.prev_n.to_le_bytes());
    v
}

// ---------------------------------------------------------------------------------------------
// ZIP 244 / v6
// ---------------------------------------------------------------------------------------------

fn header_digest(s: &TxSpec) -> [u8; 32] {
    let mut d = Vec::new();
    d.extend_from_slice(&s.ver.header().to_le_bytes());
    d.extend_from_slice(&s.ver.gid().to_le_bytes());
    d.extend_from_slice(&s.branch.to_le_bytes());
    d.extend_from_slice(&s.lock_time.to_le_bytes());
    d.extend_from_slice(&s.expiry.to_le_bytes());
    h(b"ZTxIdHeadersHash", &d)
}

fn prevouts_digest(vin: &[TIn]) -> [u8; 32] {
    h(b"ZTxIdPrevoutHash", &vin.iter().flat_map(outpoint_enc).collect::<Vec<_>>())
}
fn sequence_digest(vin: &[TIn]) -> [u8; 32] {
    h(b"ZTxIdSequencHash", &vin.iter().flat_map(|i| i.sequence.to_le_bytes()).collect::<Vec<_>>())
}
fn outputs_digest(vout: &[&TOut]) -> [u8; 32] {
    h(b"ZTxIdOutputsHash", &vout.iter().flat_map(|o| out_enc(o)).collect::<Vec<_>>())
}

fn transparent_txid_digest(s: &TxSpec) -> [u8; 32] {
    let mut d = Vec::new();
    if !(s.vin.is_empty() && s.vout.is_empty()) {
        d.extend(prevouts_digest(&s.vin));
        d.extend(sequence_digest(&s.vin));
        d.extend(outputs_digest(&s.vout.iter().collect::<Vec<_>>()));
    }
    h(b"ZTxIdTranspaHash", &d)
}

fn sapling_txid_digest(s: &TxSpec) -> [u8; 32] {
    let v6 = s.ver == Ver::V6;
    let mut d = Vec::new();
    if s.has_sapling_bundle() {
        let mut sd = Vec::new();
        if !s.spends.is_empty() {
            let compact: Vec<u8> = s.spends.iter().flat_map(|x| x.nf).collect();
            let mut non = Vec::new();
            for x in &s.spends {
                non.extend(x.cv);
                if !v6 {
                    non.extend(x.anchor);
                }
                non.extend(x.rk);
            }
            sd.extend(h(b"ZTxIdSSpendCHash", &compact));
            sd.extend(h(if v6 { b"ZTxIdSSpendNH_v6" } else { b"ZTxIdSSpendNHash" }, &non));
        }
        d.extend(h(b"ZTxIdSSpendsHash", &sd));
        let mut od = Vec::new();
        if !s.outputs.is_empty() {
            let (mut c, mut m, mut n) = (Vec::new(), Vec::new(), Vec::new());
            for o in &s.outputs {
                c.extend(o.cmu);
                c.extend(o.epk);
                c.extend_from_slice(&o.enc[..52]);
                m.extend_from_slice(&o.enc[52..564]);
                n.extend(o.cv);
                n.extend_from_slice(&o.enc[564..]);
                n.extend_from_slice(&o.out);
            }
            od.extend(h(b"ZTxIdSOutC__Hash", &c));
            od.extend(h(b"ZTxIdSOutM__Hash", &m));
            od.extend(h(b"ZTxIdSOutN__Hash", &n));
        }
        d.extend(h(b"ZTxIdSOutputHash", &od));
        d.extend(s.sapling_vb.to_le_bytes());
    }
    h(b"ZTxIdSaplingHash", &d)
}

struct OrchPers {
    bundle: &'static [u8; 16],
    compact: &'static [u8; 16],
    memos: &'static [u8; 16],
    noncompact: &'static [u8; 16],
    auth: &'static [u8; 16],
    anchor_in_txid: bool,
}

const ORCH_V5: OrchPers = OrchPers { bundle: b"ZTxIdOrchardHash", compact: b"ZTxIdOrcActCHash", memos: b"ZTxIdOrcActMHash", noncompact: b"ZTxIdOrcActNHash", auth: b"ZTxAuthOrchaHash", anchor_in_txid: true };
const ORCH_V6: OrchPers = OrchPers { bundle: b"ZTxIdOrchardH_v6", compact: b"ZTxIdOrcActCHash", memos: b"ZTxIdOrcActMHash", noncompact: b"ZTxIdOrcActNHash", auth: b"ZTxAuthOrchaH_v6", anchor_in_txid: false };
const IRON_V6: OrchPers = OrchPers { bundle: b"ZTxIdIronwd_H_v6", compact: b"ZTxIdIrnActCH_v6", memos: b"ZTxIdIrnActMH_v6", noncompact: b"ZTxIdIrnActNH_v6", auth: b"ZTxAuthIrnwdH_v6", anchor_in_txid: false };

fn orchard_txid_digest(b: Option<&OBundle>, p: &OrchPers) -> [u8; 32] {
    let mut d = Vec::new();
    if let Some(b) = b {
        let (mut c, mut m, mut n) = (Vec::new(), Vec::new(), Vec::new());
        for a in &b.actions {
            c.extend(a.nf);
            c.extend(a.cmx);
            c.extend(a.epk);
            c.extend_from_slice(&a.enc[..52]);
            m.extend_from_slice(&a.enc[52..564]);
            n.extend(a.cv);
            n.extend(a.rk);
            n.extend_from_slice(&a.enc[564..]);
            n.extend_from_slice(&a.out);
        }
        d.extend(h(p.compact, &c));
        d.extend(h(p.memos, &m));
        d.extend(h(p.noncompact, &n));
        d.push(b.flags);
        d.extend(b.vb.to_le_bytes());
        if p.anchor_in_txid {
            d.extend(b.anchor);
        }
    }
    h(p.bundle, &d)
}

fn orchard_auth_digest(b: Option<&OBundle>, p: &OrchPers) -> [u8; 32] {
    let mut d = Vec::new();
    if let Some(b) = b {
        d.extend_from_slice(&b.proof);
        for a in &b.actions {
            d.extend(a.sig);
        }
        d.extend(b.bsig);
        if !p.anchor_in_txid {
            d.extend(b.anchor);
        }
    }
    h(p.auth, &d)
}

fn combine_txid(s: &TxSpec, transparent: [u8; 32]) -> [u8; 32] {
    let mut d = Vec::new();
    d.extend(header_digest(s));
    d.extend(transparent);
    d.extend(sapling_txid_digest(s));
    if s.ver == Ver::V6 {
        d.extend(orchard_txid_digest(s.orchard.as_ref(), &ORCH_V6));
        d.extend(orchard_txid_digest(s.ironwood.as_ref(), &IRON_V6));
    } else {
        d.extend(orchard_txid_digest(s.orchard.as_ref(), &ORCH_V5));
    }
    hb(b"ZcashTxHash_", s.branch, &d)
}

/// Transaction identifier: ZIP 244 (v5), its v6 variant, or SHA-256d of the encoding (v1–v4).
pub fn txid(s: &TxSpec) -> [u8; 32] {
    if s.ver.is_v5plus() {
        combine_txid(s, transparent_txid_digest(s))
    } else {
        Sha256::digest(Sha256::digest(&ref_write(s).buf)).into()
    }
}

/// Authorizing-data commitment (v5 / v6).
pub fn auth_digest(s: &TxSpec) -> [u8; 32] {
    let v6 = s.ver == Ver::V6;
    let mut d = Vec::new();
    // A.1 transparent scripts
    d.extend(h(b"ZTxAuthTransHash", &s.vin.iter().flat_map(|i| script_enc(&i.script_sig)).collect::<Vec<_>>()));
    // A.2 sapling
    let mut sd = Vec::new();
    if s.has_sapling_bundle() {
        for x in &s.spends {
            sd.extend_from_slice(&x.proof);
        }
        for x in &s.spends {
            sd.extend(x.sig);
        }
        for o in &s.outputs {
            sd.extend_from_slice(&o.proof);
        }
        sd.extend(s.sapling_bsig);
        if v6 && !s.spends.is_empty() {
            sd.extend(s.spends[0].anchor);
        }
    }
    d.extend(h(if v6 { b"ZTxAuthSapliH_v6" } else { b"ZTxAuthSapliHash" }, &sd));
    // A.3 orchard (and Ironwood in v6)
    if v6 {
        d.extend(orchard_auth_digest(s.orchard.as_ref(), &ORCH_V6));
        d.extend(orchard_auth_digest(s.ironwood.as_ref(), &IRON_V6));
    } else {
        d.extend(orchard_auth_digest(s.orchard.as_ref(), &ORCH_V5));
    }
    hb(b"ZTxAuthHash_", s.branch, &d)
}

fn is_coinbase(s: &TxSpec) -> bool {
    s.vin.len() == 1 && s.vin[0].prev_hash == [0; 32] && s.vin[0].prev_n == u32::MAX
}

/// ZIP 244 S.2.
fn transparent_sig_digest(s: &TxSpec, signing: Signing, coins: &[Coin]) -> [u8; 32] {
    if s.vin.is_empty() || is_coinbase(s) {
        return transparent_txid_digest(s);
    }
    let (hash_type, index) = match signing {
        Signing::Shielded => (SIGHASH_ALL, None),
        Signing::Transparent { index, hash_type } => (hash_type, Some(index)),
    };
    let acp = hash_type & SIGHASH_ANYONECANPAY != 0;
    let base = hash_type & 0x1f;
    let mut d = vec![hash_type];
    d.extend(if acp { prevouts_digest(&[]) } else { prevouts_digest(&s.vin) });
    d.extend(h(b"ZTxTrAmountsHash", &if acp { vec![] } else { coins.iter().flat_map(|c| c.value.to_le_bytes()).collect::<Vec<_>>() }));
    d.extend(h(b"ZTxTrScriptsHash", &if acp { vec![] } else { coins.iter().flat_map(|c| script_enc(&c.script)).collect::<Vec<_>>() }));
    d.extend(if acp { sequence_digest(&[]) } else { sequence_digest(&s.vin) });
    let outs: Vec<&TOut> = match (index, base) {
        (Some(i), SIGHASH_SINGLE) => s.vout.get(i).into_iter().collect(),
        (Some(_), SIGHASH_NONE) => vec![],
        _ => s.vout.iter().collect(),
    };
    d.extend(outputs_digest(&outs));
    let mut t = Vec::new();
    if let Some(i) = index {
        t.extend(outpoint_enc(&s.vin[i]));
        t.extend(coins[i].value.to_le_bytes());
        t.extend(script_enc(&coins[i].script));
        t.extend(s.vin[i].sequence.to_le_bytes());
    }
    d.extend(h(b"Zcash___TxInHash", &t));
    h(b"ZTxIdTranspaHash", &d)
}

// ---------------------------------------------------------------------------------------------
// ZIP 143 / ZIP 243
// ---------------------------------------------------------------------------------------------

fn legacy_sighash(s: &TxSpec, signing: Signing, coins: &[Coin]) -> [u8; 32] {
    let (hash_type, index) = match signing {
        Signing::Shielded => (SIGHASH_ALL, None),
        Signing::Transparent { index, hash_type } => (hash_type, Some(index)),
    };
    let acp = hash_type & SIGHASH_ANYONECANPAY != 0;
    let base = hash_type & 0x1f;
    let zero = [0u8; 32];
    let mut d = Vec::new();
    d.extend(s.ver.header().to_le_bytes());
    d.extend(s.ver.gid().to_le_bytes());
    d.extend(if !acp { h(b"ZcashPrevoutHash", &s.vin.iter().flat_map(outpoint_enc).collect::<Vec<_>>()) } else { zero });
    d.extend(if !acp && base != SIGHASH_SINGLE && base != SIGHASH_NONE { h(b"ZcashSequencHash", &s.vin.iter().flat_map(|i| i.sequence.to_le_bytes()).collect::<Vec<_>>()) } else { zero });
    d.extend(if base != SIGHASH_SINGLE && base != SIGHASH_NONE {
        h(b"ZcashOutputsHash", &s.vout.iter().flat_map(out_enc).collect::<Vec<_>>())
    } else if base == SIGHASH_SINGLE && index.map_or(false, |i| i < s.vout.len()) {
        h(b"ZcashOutputsHash", &out_enc(&s.vout[index.unwrap()]))
    } else {
        zero
    });
    d.extend(match &s.joinsplits {
        Some(js) if !js.descs.is_empty() => {
            let mut j: Vec<u8> = js.descs.iter().flatten().copied().collect();
            j.extend(js.pubkey);
            h(b"ZcashJSplitsHash", &j)
        }
        _ => zero,
    });
    if s.ver.has_sapling() {
        d.extend(if !s.spends.is_empty() {
            let mut v = Vec::new();
            for x in &s.spends {
                v.extend(x.cv);
                v.extend(x.anchor);
                v.extend(x.nf);
                v.extend(x.rk);
                v.extend_from_slice(&x.proof);
            }
            h(b"ZcashSSpendsHash", &v)
        } else {
            zero
        });
        d.extend(if !s.outputs.is_empty() {
            let mut v = Vec::new();
            for o in &s.outputs {
                v.extend(o.cv);
                v.extend(o.cmu);
                v.extend(o.epk);
                v.extend_from_slice(&o.enc);
                v.extend_from_slice(&o.out);
                v.extend_from_slice(&o.proof);
            }
            h(b"ZcashSOutputHash", &v)
        } else {
            zero
        });
    }
    d.extend(s.lock_time.to_le_bytes());
    d.extend(s.expiry.to_le_bytes());
    if s.ver.has_sapling() {
        d.extend(s.sapling_vb.to_le_bytes());
    }
    d.extend((hash_type as u32).to_le_bytes());
    if let Some(i) = index {
        d.extend(outpoint_enc(&s.vin[i]));
        d.extend(script_enc(&coins[i].code));
        d.extend(coins[i].value.to_le_bytes());
        d.extend(s.vin[i].sequence.to_le_bytes());
    }
    hb(b"ZcashSigHash", s.branch, &d)
}

/// Signature hash. `coins[i]` is the coin spent by input `i`. ZIP 143/243 use only the signed
/// input's value and scriptCode; ZIP 244 uses every coin's value and scriptPubKey and never the
/// scriptCode. `None` where undefined (pre-Overwinter).
pub fn sighash(s: &TxSpec, signing: Signing, coins: &[Coin]) -> Option<[u8; 32]> {
    match s.ver {
        Ver::Sprout(_) => None,
        Ver::V3 | Ver::V4 => Some(legacy_sighash(s, signing, coins)),
        Ver::V5 | Ver::V6 => Some(combine_txid(s, transparent_sig_digest(s, signing, coins))),
    }
}

/// The six hash types ZIP 244 S.2a accepts.
pub const VALID_HASH_TYPES: [u8; 6] = [0x01, 0x02, 0x03, 0x81, 0x82, 0x83];

pub fn hash_type_valid(t: u8) -> bool {
    matches!(t & !SIGHASH_ANYONECANPAY, 1 | 2 | 3)
}
