//! The C03 oracles on transactions. Every function here decides one case and is used both by the
//! sweep and by `--replay`.

use super::real::*;
use super::spec::*;
use mc_core::catch;
use zcash_primitives::transaction::Transaction;

const SENTINEL: [u8; 48] = [0xA5; 48];

fn io_class(e: &std::io::Error) -> String {
    let s = e.to_string();
    let s = s.split("0x").next().unwrap_or("").trim().to_string();
    let s: String = s.chars().map(|c| if c.is_ascii_digit() { '#' } else { c }).collect();
    let mut t = String::new();
    for c in s.chars() {
        if !(c == '#' && t.ends_with('#')) {
            t.push(c);
        }
    }
    t.chars().take(56).collect()
}

fn read_catch(b: &[u8], ext_branch: u32) -> Result<(std::io::Result<Transaction>, usize), String> {
    let br = branch_id(ext_branch)?;
    catch(|| read_tx(b, br)).map_err(|p| format!("Transaction::read panicked: {p}"))
}

fn with_sentinel(b: &[u8]) -> Vec<u8> {
    let mut v = b.to_vec();
    v.extend_from_slice(&SENTINEL);
    v
}

/// Well-formed side: `bytes` is the reference encoding of a lattice transaction.
pub fn check_wf(bytes: &[u8], ext_branch: u32) -> Result<String, String> {
    let p = ref_parse(bytes, ext_branch).map_err(|e| format!("HARNESS: reference parser rejects a lattice encoding: {e}"))?;
    if p.consumed != bytes.len() || p.noncanonical || p.amount_out_of_range {
        return Err("HARNESS: lattice encoding is not a canonical well-formed transaction".into());
    }
    let spec = p.spec;
    // (1) typed construction through the public constructors, then write
    let typed = catch(|| build_typed(&spec).and_then(|d| d.freeze().map_err(|e| format!("freeze: {e}"))))
        .map_err(|p| format!("constructing the transaction panicked: {p}"))?
        .map_err(|e| format!("HARNESS: cannot construct the lattice transaction: {e}"))?;
    let w0 = catch(|| write_tx(&typed)).map_err(|p| format!("write panicked: {p}"))?.map_err(|e| format!("write of a well-formed transaction failed: {e}"))?;
    if w0 != bytes {
        let at = w0.iter().zip(bytes).position(|(a, b)| a != b).unwrap_or(w0.len().min(bytes.len()));
        return Err(format!("write() differs from the specified encoding at byte {at} (lengths {} vs {})", w0.len(), bytes.len()));
    }
    let ex0 = extract(&typed);
    if ex0 != spec {
        return Err(format!("accessors of the constructed transaction disagree with its parts: {}", diff(&ex0, &spec)));
    }
    // (2) read(write(tx)) with trailing sentinel bytes that must stay unread
    let input = with_sentinel(bytes);
    let (res, consumed) = read_catch(&input, ext_branch)?;
    let tx1 = res.map_err(|e| format!("read(write(tx)) failed: {e}"))?;
    if consumed != bytes.len() {
        return Err(format!("read consumed {consumed} bytes of a {}-byte encoding", bytes.len()));
    }
    let ex1 = extract(&tx1);
    if ex1 != spec {
        return Err(format!("read(write(tx)) differs from tx in field {}", diff(&ex1, &spec)));
    }
    if tx1.txid() != typed.txid() {
        return Err("txid changes across write/read".into());
    }
    let (a0, a1) = (catch(|| typed.auth_commitment()), catch(|| tx1.auth_commitment()));
    match (a0, a1) {
        (Ok(a), Ok(b)) if a == b => {}
        (Ok(_), Ok(_)) => return Err("auth_commitment changes across write/read".into()),
        (a, b) => return Err(format!("auth_commitment panicked: {:?} / {:?}", a.err(), b.err())),
    }
    // (3) write(read(write(tx))) == write(tx)
    let w1 = catch(|| write_tx(&tx1)).map_err(|p| format!("write panicked: {p}"))?.map_err(|e| format!("second write failed: {e}"))?;
    if w1 != bytes {
        return Err("write(read(write(tx))) != write(tx)".into());
    }
    Ok("roundtrip".into())
}

/// Arbitrary-bytes side.
pub fn check_bytes(b: &[u8], ext_branch: u32) -> Result<String, String> {
    let (res, consumed) = read_catch(b, ext_branch)?;
    if consumed > b.len() {
        return Err("reader position beyond the input".into());
    }
    let tx = match res {
        Err(e) => return Ok(format!("reject:{}", io_class(&e))),
        Ok(tx) => tx,
    };
    // accepted: compare with the independent parser
    let rp = match ref_parse(b, ext_branch) {
        Ok(p) => p,
        Err(e) => return Err(format!("accepted an input that the specified format rejects ({e})")),
    };
    if rp.noncanonical {
        return Err("accepted a non-canonical CompactSize length prefix".into());
    }
    if rp.amount_out_of_range {
        return Err("accepted an out-of-range amount".into());
    }
    if rp.orphan_value_balance {
        return Err("accepted a non-zero Sapling valueBalance without Sapling spends or outputs (the value cannot be represented)".into());
    }
    if rp.consumed != consumed {
        return Err(format!("consumed {consumed} bytes, the specified format ends at {}", rp.consumed));
    }
    let ex = catch(|| extract(&tx)).map_err(|p| format!("accessors panicked: {p}"))?;
    let d = diff(&ex, &rp.spec);
    if !d.is_empty() {
        return Err(format!("accepted input, but field {d} of the parsed value differs from the bytes"));
    }
    // re-serialise
    let w = catch(|| write_tx(&tx)).map_err(|p| format!("write of an accepted transaction panicked: {p}"))?.map_err(|e| format!("write of an accepted transaction failed: {e}"))?;
    if w.len() != consumed {
        return Err(format!("read consumed {consumed} bytes but the value serialises to {} bytes", w.len()));
    }
    let (res2, consumed2) = read_catch(&with_sentinel(&w), ext_branch)?;
    let tx2 = res2.map_err(|e| format!("read(write(read(b))) failed: {e}"))?;
    if consumed2 != w.len() {
        return Err(format!("re-read consumed {consumed2} of {} bytes", w.len()));
    }
    let ex2 = extract(&tx2);
    let d = diff(&ex2, &ex);
    if !d.is_empty() {
        return Err(format!("read(write(read(b))) differs from read(b) in field {d}"));
    }
    if tx2.txid() != tx.txid() {
        return Err("txid of read(write(read(b))) differs from txid of read(b)".into());
    }
    match (catch(|| tx.auth_commitment()), catch(|| tx2.auth_commitment())) {
        (Ok(a), Ok(c)) if a == c => {}
        (Ok(_), Ok(_)) => return Err("auth_commitment differs after re-serialisation".into()),
        (a, c) => return Err(format!("auth_commitment panicked: {:?} / {:?}", a.err(), c.err())),
    }
    if w != b[..consumed] {
        return Err("accepted bytes are not the canonical serialisation of the parsed value".into());
    }
    Ok("accept".into())
}

/// What the contiguous-slice parse of a byte string yields (the 0-deviation reference run).
pub struct SliceParse {
    consumed: usize,
    /// `Err`: the rejection message.
    value: Result<(TxSpec, Result<Vec<u8>, String>, [u8; 32], Result<[u8; 32], String>), String>,
}

fn observe(tx: &Transaction) -> (TxSpec, Result<Vec<u8>, String>, [u8; 32], Result<[u8; 32], String>) {
    (extract(tx), write_tx(tx).map_err(|e| e.to_string()), *tx.txid().as_ref(), catch(|| <[u8; 32]>::try_from(tx.auth_commitment().as_bytes()).unwrap()))
}

pub fn slice_parse(b: &[u8], ext_branch: u32) -> Result<SliceParse, String> {
    let (res, consumed) = read_catch(b, ext_branch)?;
    Ok(SliceParse { consumed, value: res.map(|tx| observe(&tx)).map_err(|e| e.to_string()) })
}

/// Environment-answer side: the same bytes delivered through a reader that returns short reads
/// (or one `Interrupted`) must give exactly what the contiguous-slice parse (`base`) gives.
pub fn check_reader_with(b: &[u8], ext_branch: u32, answers: Answers, base: &SliceParse) -> Result<String, String> {
    let br = branch_id(ext_branch)?;
    let (res1, consumed1, shorts) = catch(|| read_tx_scripted(b, br, answers)).map_err(|p| format!("Transaction::read panicked under reader answers {}: {p}", answers.name()))?;
    let dev = if shorts > 0 { "short" } else { "noshort" };
    let n = answers.name();
    match (&base.value, res1) {
        (Err(_), Err(_)) => Ok(format!("reader:{dev}:both-reject")),
        (Err(e), Ok(_)) => Err(format!("a stream that is rejected from a slice ({e}) is accepted under reader answers {n}")),
        (Ok(_), Err(e)) => Err(format!("parses from a slice but fails under reader answers {n} ({e}): the result must not depend on how the reader delivers the bytes")),
        (Ok((spec0, w0, txid0, auth0)), Ok(t1)) => {
            let (spec1, w1, txid1, auth1) = observe(&t1);
            if base.consumed != consumed1 {
                return Err(format!("consumed {consumed1} bytes under reader answers {n}, {} from a slice", base.consumed));
            }
            let d = diff(&spec1, spec0);
            if !d.is_empty() {
                return Err(format!("field {d} differs under reader answers {n}"));
            }
            if *w0 != w1 {
                return Err(format!("re-serialisation differs under reader answers {n}"));
            }
            if *txid0 != txid1 {
                return Err(format!(
                    "identifier: txid() differs when the same bytes arrive through short reads (reader answers {n}): {} vs {} from a slice; the identifier must be that of the bytes consumed",
                    hex::encode(txid1),
                    hex::encode(txid0)
                ));
            }
            if *auth0 != auth1 {
                return Err(format!("auth_commitment differs under reader answers {n}"));
            }
            Ok(format!("reader:{dev}:same"))
        }
    }
}

pub fn check_reader(b: &[u8], ext_branch: u32, answers: Answers) -> Result<String, String> {
    let base = slice_parse(b, ext_branch)?;
    check_reader_with(b, ext_branch, answers, &base)
}
