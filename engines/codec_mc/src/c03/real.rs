//! Bridge between the plain-data `TxSpec` and the repository's types: typed construction through
//! the public `from_parts` constructors, field extraction through public accessors, and a
//! counting reader.

use super::spec::*;
use ff::PrimeField;
use nonempty::NonEmpty;
use std::io::Read;
use zcash_primitives::transaction::{Authorized, Transaction, TransactionData, TxVersion};
use zcash_protocol::consensus::{BlockHeight, BranchId};
use zcash_protocol::value::{ZatBalance, Zatoshis};
use zcash_transparent::address::Script;
use zcash_transparent::bundle::{self as tb, OutPoint, TxIn, TxOut};

pub struct Counting<'a> {
    pub b: &'a [u8],
    pub pos: usize,
}

impl Read for Counting<'_> {
    fn read(&mut self, buf: &mut [u8]) -> std::io::Result<usize> {
        let n = buf.len().min(self.b.len() - self.pos);
        buf[..n].copy_from_slice(&self.b[self.pos..self.pos + n]);
        self.pos += n;
        Ok(n)
    }
}

/// How the harness reader answers `read` calls (the environment's answers, deviation-bounded).
#[derive(Clone, Copy, Debug, PartialEq, Eq)]
pub enum Answers {
    /// Every call is served in full (0 deviations; what a byte slice does).
    Full,
    /// Every call returns at most `k` bytes ("every call short").
    Chunk(usize),
    /// Exactly one short read: the stream is `b[..i].chain(b[i..])`, no call crosses position `i`.
    SplitAt(usize),
    /// One `ErrorKind::Interrupted` the first time a call arrives at position `i`.
    InterruptAt(usize),
}

impl Answers {
    pub fn name(&self) -> String {
        match self {
            Answers::Full => "full".into(),
            Answers::Chunk(k) => format!("chunk:{k}"),
            Answers::SplitAt(i) => format!("split:{i}"),
            Answers::InterruptAt(i) => format!("intr:{i}"),
        }
    }
    pub fn parse(s: &str) -> Option<Answers> {
        let (a, b) = s.split_once(':').unwrap_or((s, "0"));
        let n: usize = b.parse().ok()?;
        match a {
            "full" => Some(Answers::Full),
            "chunk" if n > 0 => Some(Answers::Chunk(n)),
            "split" => Some(Answers::SplitAt(n)),
            "intr" => Some(Answers::InterruptAt(n)),
            _ => None,
        }
    }
}

pub struct Scripted<'a> {
    pub b: &'a [u8],
    pub pos: usize,
    pub answers: Answers,
    pub fired: bool,
    /// Number of calls that returned fewer bytes than requested although more were available.
    pub short_reads: usize,
}

impl<'a> Scripted<'a> {
    pub fn new(b: &'a [u8], answers: Answers) -> Self {
        Scripted { b, pos: 0, answers, fired: false, short_reads: 0 }
    }
}

impl Read for Scripted<'_> {
    fn read(&mut self, buf: &mut [u8]) -> std::io::Result<usize> {
        let avail = self.b.len() - self.pos;
        let mut n = buf.len().min(avail);
        match self.answers {
            Answers::Full => {}
            Answers::Chunk(k) => n = n.min(k),
            Answers::SplitAt(i) => {
                if self.pos < i {
                    n = n.min(i - self.pos);
                }
            }
            Answers::InterruptAt(i) => {
                if self.pos == i && !self.fired && !buf.is_empty() {
                    self.fired = true;
                    return Err(std::io::Error::new(std::io::ErrorKind::Interrupted, "scripted interruption"));
                }
            }
        }
        if n < buf.len().min(avail) {
            self.short_reads += 1;
        }
        buf[..n].copy_from_slice(&self.b[self.pos..self.pos + n]);
        self.pos += n;
        Ok(n)
    }
}

/// `Transaction::read` on `b` delivered according to `answers`.
pub fn read_tx_scripted(b: &[u8], ext_branch: BranchId, answers: Answers) -> (std::io::Result<Transaction>, usize, usize) {
    let mut r = Scripted::new(b, answers);
    let res = Transaction::read(&mut r, ext_branch);
    (res, r.pos, r.short_reads)
}

pub fn script(bytes: &[u8]) -> Script {
    let mut s = Script::default();
    s.0 .0 = bytes.to_vec();
    s
}

pub fn branch_id(b: u32) -> Result<BranchId, String> {
    BranchId::try_from(b).map_err(|e| format!("branch 0x{b:08x}: {e}"))
}

pub fn tx_version(v: Ver) -> TxVersion {
    match v {
        Ver::Sprout(n) => TxVersion::Sprout(n),
        Ver::V3 => TxVersion::V3,
        Ver::V4 => TxVersion::V4,
        Ver::V5 => TxVersion::V5,
        Ver::V6 => TxVersion::V6,
    }
}

pub fn ver_of(v: TxVersion) -> Ver {
    match v {
        TxVersion::Sprout(n) => Ver::Sprout(n),
        TxVersion::V3 => Ver::V3,
        TxVersion::V4 => Ver::V4,
        TxVersion::V5 => Ver::V5,
        TxVersion::V6 => Ver::V6,
    }
}

fn fe<Fq: PrimeField<Repr = [u8; 32]>>(b: [u8; 32]) -> Option<Fq> {
    Option::from(Fq::from_repr(b))
}
fn key<T: TryFrom<[u8; 32]>>(b: [u8; 32]) -> Option<T> {
    T::try_from(b).ok()
}
fn arr<const N: usize>(v: &[u8], what: &str) -> Result<[u8; N], String> {
    v.try_into().map_err(|_| format!("{what}: expected {N} bytes, got {}", v.len()))
}

/// The Orchard-protocol bundle version documented for (transaction version, branch, slot):
/// v5 Orchard slot: NU5..NU6.1 historical circuit, NU6.2 fixed circuit, NU6.3 post-NU6.3;
/// v6: Orchard slot `orchard_v3`, Ironwood slot `ironwood_v3`.
pub fn bundle_version(ver: Ver, branch: u32, pool: u8) -> Option<orchard::bundle::BundleVersion> {
    use orchard::bundle::BundleVersion as BV;
    match (ver, pool) {
        (Ver::V6, 0) => Some(BV::orchard_v3()),
        (Ver::V6, 1) => Some(BV::ironwood_v3()),
        (Ver::V5, 0) => match branch {
            0xc2d6_d0b4 | 0xc8e7_1055 | 0x4dec_4df0 => Some(BV::orchard_insecure_v1()),
            0x5437_f330 => Some(BV::orchard_v2()),
            0x37a5_165b => Some(BV::orchard_v3()),
            _ => None,
        },
        _ => None,
    }
}

fn typed_orchard(
    b: &OBundle,
    bv: orchard::bundle::BundleVersion,
) -> Result<orchard::Bundle<orchard::bundle::Authorized, ZatBalance>, String> {
    use orchard::note::{ExtractedNoteCommitment, Nullifier, TransmittedNoteCiphertext};
    use orchard::primitives::redpallas::{Binding, Signature, SpendAuth};
    let mut acts = Vec::new();
    for a in &b.actions {
        let nf: Nullifier = Option::from(Nullifier::from_bytes(&a.nf)).ok_or("orchard nf")?;
        let rk = key(a.rk).ok_or("orchard rk")?;
        let cmx: ExtractedNoteCommitment = Option::from(ExtractedNoteCommitment::from_bytes(&a.cmx)).ok_or("orchard cmx")?;
        let cv: orchard::value::ValueCommitment = Option::from(orchard::value::ValueCommitment::from_bytes(&a.cv)).ok_or("orchard cv")?;
        let enc = TransmittedNoteCiphertext { epk_bytes: a.epk, enc_ciphertext: arr(&a.enc, "enc")?, out_ciphertext: arr(&a.out, "out")? };
        let sig: Signature<SpendAuth> = Signature::from(a.sig);
        acts.push(orchard::Action::from_parts(nf, rk, cmx, enc, cv, sig).map_err(|e| format!("action: {e:?}"))?);
    }
    let flags = orchard::bundle::Flags::from_byte(b.flags, bv).ok_or("orchard flags")?;
    let anchor: orchard::Anchor = Option::from(orchard::Anchor::from_bytes(b.anchor)).ok_or("orchard anchor")?;
    let bsig: Signature<Binding> = Signature::from(b.bsig);
    let auth = orchard::bundle::Authorized::from_parts(orchard::Proof::new(b.proof.clone()), bsig);
    let vb = ZatBalance::from_i64(b.vb).map_err(|e| format!("orchard vb: {e:?}"))?;
    orchard::Bundle::try_from_parts(NonEmpty::from_vec(acts).ok_or("no actions")?, flags, vb, anchor, auth, bv).map_err(|e| format!("bundle: {e:?}"))
}

/// Build the transaction through the public constructors (no parsing involved).
pub fn build_typed(s: &TxSpec) -> Result<TransactionData<Authorized>, String> {
    let branch = branch_id(s.branch)?;
    let transparent = if s.vin.is_empty() && s.vout.is_empty() {
        None
    } else {
        let mut vin = Vec::new();
        for t in &s.vin {
            vin.push(TxIn::<tb::Authorized>::from_parts(OutPoint::new(t.prev_hash, t.prev_n), script(&t.script_sig), t.sequence));
        }
        let mut vout = Vec::new();
        for t in &s.vout {
            vout.push(TxOut::new(Zatoshis::from_nonnegative_i64(t.value).map_err(|e| format!("out value: {e:?}"))?, script(&t.script)));
        }
        Some(tb::Bundle { vin, vout, authorization: tb::Authorized })
    };
    let sapling_bundle = if s.has_sapling_bundle() {
        let mut spends = Vec::new();
        for sp in &s.spends {
            let cv: sapling::value::ValueCommitment = Option::from(sapling::value::ValueCommitment::from_bytes_not_small_order(&sp.cv)).ok_or("sapling cv")?;
            spends.push(sapling::bundle::SpendDescription::<sapling::bundle::Authorized>::from_parts(
                cv,
                fe(sp.anchor).ok_or("sapling anchor")?,
                sapling::Nullifier(sp.nf),
                key(sp.rk).ok_or("sapling rk")?,
                arr(&sp.proof, "spend proof")?,
                sp.sig.into(),
            ));
        }
        let mut outs = Vec::new();
        for o in &s.outputs {
            let cv: sapling::value::ValueCommitment = Option::from(sapling::value::ValueCommitment::from_bytes_not_small_order(&o.cv)).ok_or("sapling cv")?;
            let cmu: sapling::note::ExtractedNoteCommitment = Option::from(sapling::note::ExtractedNoteCommitment::from_bytes(&o.cmu)).ok_or("sapling cmu")?;
            outs.push(sapling::bundle::OutputDescription::from_parts(cv, cmu, o.epk.into(), arr(&o.enc, "enc")?, arr(&o.out, "out")?, arr::<192>(&o.proof, "output proof")?));
        }
        let vb = ZatBalance::from_i64(s.sapling_vb).map_err(|e| format!("sapling vb: {e:?}"))?;
        sapling::Bundle::from_parts(spends, outs, vb, sapling::bundle::Authorized { binding_sig: s.sapling_bsig.into() })
    } else {
        None
    };
    let orch = |pool: u8, b: &Option<OBundle>| -> Result<Option<_>, String> {
        match b {
            None => Ok(None),
            Some(b) => {
                let bv = bundle_version(s.ver, s.branch, pool).ok_or("no bundle version for this (version, branch, slot)")?;
                typed_orchard(b, bv).map(Some)
            }
        }
    };
    if s.joinsplits.is_some() {
        return Err("typed construction of Sprout bundles is not supported by the harness".into());
    }
    let expiry: BlockHeight = s.expiry.into();
    Ok(match s.ver {
        Ver::V6 => TransactionData::from_parts_v6(branch, s.lock_time, expiry, transparent, sapling_bundle, orch(0, &s.orchard)?, orch(1, &s.ironwood)?),
        v => TransactionData::from_parts(tx_version(v), branch, s.lock_time, expiry, transparent, None, sapling_bundle, orch(0, &s.orchard)?),
    })
}

fn extract_orchard(b: &orchard::Bundle<orchard::bundle::Authorized, ZatBalance>) -> OBundle {
    OBundle {
        actions: b
            .actions()
            .iter()
            .map(|a| OAction {
                cv: a.cv_net().to_bytes(),
                nf: a.nullifier().to_bytes(),
                rk: <[u8; 32]>::from(a.rk()),
                cmx: a.cmx().to_bytes(),
                epk: a.encrypted_note().epk_bytes,
                enc: a.encrypted_note().enc_ciphertext.to_vec(),
                out: a.encrypted_note().out_ciphertext.to_vec(),
                sig: <[u8; 64]>::from(a.authorization()),
            })
            .collect(),
        flags: b.flag_byte(),
        vb: i64::from(*b.value_balance()),
        anchor: b.anchor().to_bytes(),
        proof: b.authorization().proof().as_ref().to_vec(),
        bsig: <[u8; 64]>::from(b.authorization().binding_signature()),
    }
}

/// Read every field back through public accessors.
pub fn extract(tx: &TransactionData<Authorized>) -> TxSpec {
    let mut s = TxSpec::empty(ver_of(tx.version()), u32::from(tx.consensus_branch_id()));
    s.lock_time = tx.lock_time();
    s.expiry = u32::from(tx.expiry_height());
    if let Some(b) = tx.transparent_bundle() {
        for t in &b.vin {
            s.vin.push(TIn { prev_hash: *t.prevout().hash(), prev_n: t.prevout().n(), script_sig: t.script_sig().0 .0.clone(), sequence: t.sequence() });
        }
        for t in &b.vout {
            s.vout.push(TOut { value: t.value().into_u64() as i64, script: t.script_pubkey().0 .0.clone() });
        }
    }
    if let Some(b) = tx.sapling_bundle() {
        s.sapling_vb = i64::from(*b.value_balance());
        s.sapling_bsig = <[u8; 64]>::from(b.authorization().binding_sig);
        for sp in b.shielded_spends() {
            s.spends.push(SSpend {
                cv: sp.cv().to_bytes(),
                anchor: sp.anchor().to_repr(),
                nf: sp.nullifier().0,
                rk: <[u8; 32]>::from(*sp.rk()),
                proof: sp.zkproof().to_vec(),
                sig: <[u8; 64]>::from(*sp.spend_auth_sig()),
            });
        }
        for o in b.shielded_outputs() {
            s.outputs.push(SOut {
                cv: o.cv().to_bytes(),
                cmu: o.cmu().to_bytes(),
                epk: o.ephemeral_key().0,
                enc: o.enc_ciphertext().to_vec(),
                out: o.out_ciphertext().to_vec(),
                proof: o.zkproof().to_vec(),
            });
        }
    }
    if let Some(b) = tx.sprout_bundle() {
        let descs = b
            .joinsplits
            .iter()
            .map(|j| {
                let mut v = Vec::new();
                j.write(&mut v).expect("write to Vec");
                v
            })
            .collect();
        s.joinsplits = Some(JoinSplits { descs, pubkey: b.joinsplit_pubkey, sig: b.joinsplit_sig });
    }
    s.orchard = tx.orchard_bundle().map(extract_orchard);
    s.ironwood = tx.ironwood_bundle().map(extract_orchard);
    s
}

/// `Transaction::read` on exactly `b`; returns the transaction and the number of bytes pulled
/// from the reader.
pub fn read_tx(b: &[u8], ext_branch: BranchId) -> (std::io::Result<Transaction>, usize) {
    let mut r = Counting { b, pos: 0 };
    let res = Transaction::read(&mut r, ext_branch);
    (res, r.pos)
}

pub fn write_tx(tx: &Transaction) -> std::io::Result<Vec<u8>> {
    let mut v = Vec::new();
    tx.write(&mut v)?;
    Ok(v)
}

pub fn sha256d(b: &[u8]) -> [u8; 32] {
    use sha2::{Digest, Sha256};
    Sha256::digest(Sha256::digest(b)).into()
}

/// First differing field between two specs (for messages).
pub fn diff(a: &TxSpec, b: &TxSpec) -> String {
    macro_rules! d {
        ($f:ident) => {
            if a.$f != b.$f {
                return stringify!($f).to_string();
            }
        };
    }
    d!(ver);
    d!(branch);
    d!(lock_time);
    d!(expiry);
    d!(vin);
    d!(vout);
    d!(sapling_vb);
    d!(spends);
    d!(outputs);
    if a.has_sapling_bundle() && a.sapling_bsig != b.sapling_bsig {
        return "sapling_bsig".into();
    }
    d!(joinsplits);
    d!(orchard);
    d!(ironwood);
    String::new()
}
