//! The shape lattice: which transactions exist in the enumeration (shared by C03 and C04).

use super::pool::{fill, fill32, fill64, pool};
use super::spec::*;

#[derive(Clone, Debug, PartialEq, Eq)]
pub struct Shape {
    pub vin: usize,
    pub vout: usize,
    pub spends: usize,
    pub outputs: usize,
    pub orchard: usize,
    pub ironwood: usize,
    pub in_script: usize,
    pub out_script: usize,
    pub lock_time: u32,
    pub expiry: u32,
    /// Applied to every shielded bundle that is present.
    pub vb: i64,
    pub out_value: i64,
    /// v4 only: every spend carries its own anchor (v5+ encodes a single shared anchor).
    pub distinct_anchors: bool,
    pub orchard_flags: u8,
    pub ironwood_flags: u8,
    /// `None`: the canonical proof size for the number of actions.
    pub proof_len: Option<usize>,
}

impl Shape {
    pub fn base(vin: usize, vout: usize, spends: usize, outputs: usize, orchard: usize, ironwood: usize) -> Shape {
        Shape {
            vin,
            vout,
            spends,
            outputs,
            orchard,
            ironwood,
            in_script: 3,
            out_script: 25,
            lock_time: 0x0102_0304,
            expiry: 0x0a0b_0c0d,
            vb: 12345,
            out_value: 50_000,
            distinct_anchors: false,
            orchard_flags: 3,
            ironwood_flags: 7,
            proof_len: None,
        }
    }
    pub fn id(&self) -> String {
        let b = Shape::base(self.vin, self.vout, self.spends, self.outputs, self.orchard, self.ironwood);
        let mut s = format!("in{},out{},sp{},so{},or{},ir{}", self.vin, self.vout, self.spends, self.outputs, self.orchard, self.ironwood);
        if self.in_script != b.in_script {
            s += &format!(",insc{}", self.in_script);
        }
        if self.out_script != b.out_script {
            s += &format!(",outsc{}", self.out_script);
        }
        if self.lock_time != b.lock_time {
            s += &format!(",lock{:#x}", self.lock_time);
        }
        if self.expiry != b.expiry {
            s += &format!(",exp{:#x}", self.expiry);
        }
        if self.vb != b.vb {
            s += &format!(",vb{}", self.vb);
        }
        if self.out_value != b.out_value {
            s += &format!(",val{}", self.out_value);
        }
        if self.distinct_anchors {
            s += ",anchors-distinct";
        }
        if self.orchard_flags != b.orchard_flags {
            s += &format!(",of{}", self.orchard_flags);
        }
        if self.ironwood_flags != b.ironwood_flags {
            s += &format!(",if{}", self.ironwood_flags);
        }
        if let Some(p) = self.proof_len {
            s += &format!(",proof{p}");
        }
        s
    }
}

/// The (version, branch) pairs the code supports (`TxVersion::valid_in_branch`, written out from
/// its documentation: pre-Overwinter formats under Sprout, v3 under Overwinter, v4 from Sapling
/// on (still valid in NU6.3), v5 from NU5 on, v6 from NU6.3 on).
pub fn pairs() -> Vec<(Ver, u32)> {
    let mut v = vec![(Ver::Sprout(1), 0u32), (Ver::Sprout(2), 0), (Ver::V3, 0x5ba8_1b19)];
    for (_, b) in &BRANCHES[2..] {
        v.push((Ver::V4, *b));
    }
    for (_, b) in &BRANCHES[6..] {
        v.push((Ver::V5, *b));
    }
    v.push((Ver::V6, 0x37a5_165b));
    v
}

pub fn branch_name(b: u32) -> &'static str {
    BRANCHES.iter().find(|(_, v)| *v == b).map(|(n, _)| *n).unwrap_or("?")
}

pub fn expected_proof_size(n: usize) -> usize {
    // Documented by `orchard::Proof::expected_proof_size`: fixed base plus a per-action share.
    2720 + 2272 * n
}

fn obundle(pool_id: u8, n: usize, sh: &Shape) -> Option<OBundle> {
    if n == 0 {
        return None;
    }
    let p = pool();
    let base = if pool_id == 0 { 0 } else { 3 };
    let tag = if pool_id == 0 { "orch" } else { "iron" };
    let actions = (0..n)
        .map(|i| OAction {
            cv: p.orch_cv[(base + i) % p.orch_cv.len()],
            nf: p.orch_nf[(base + i) % p.orch_nf.len()],
            rk: p.orch_rk[(base + i) % p.orch_rk.len()],
            cmx: p.orch_cmx[(base + i) % p.orch_cmx.len()],
            epk: p.orch_epk[(base + i) % p.orch_epk.len()],
            enc: fill(&format!("{tag}-enc"), i, 580),
            out: fill(&format!("{tag}-out"), i, 80),
            sig: fill64(&format!("{tag}-sig"), i),
        })
        .collect();
    Some(OBundle {
        actions,
        flags: if pool_id == 0 { sh.orchard_flags } else { sh.ironwood_flags },
        vb: sh.vb,
        anchor: p.orch_anchor[pool_id as usize],
        proof: fill(&format!("{tag}-proof"), 0, sh.proof_len.unwrap_or(expected_proof_size(n))),
        bsig: fill64(&format!("{tag}-bsig"), 0),
    })
}

/// The transaction of the lattice at (`ver`, `branch`, `sh`). Axes that the version does not
/// have are ignored.
pub fn make_spec(ver: Ver, branch: u32, sh: &Shape) -> TxSpec {
    let p = pool();
    let mut s = TxSpec::empty(ver, branch);
    s.lock_time = sh.lock_time;
    s.expiry = if ver.overwintered() { sh.expiry } else { 0 };
    for i in 0..sh.vin {
        s.vin.push(TIn { prev_hash: fill32("prevout", i), prev_n: i as u32 + 1, script_sig: fill("scriptsig", i, sh.in_script), sequence: 0xffff_fffe - i as u32 });
    }
    for k in 0..sh.vout {
        s.vout.push(TOut { value: sh.out_value, script: fill("scriptpubkey", k, sh.out_script) });
    }
    if ver.has_sapling() {
        for i in 0..sh.spends {
            let a = if sh.distinct_anchors && ver == Ver::V4 { i } else { 0 };
            s.spends.push(SSpend {
                cv: p.sap_cv[i % p.sap_cv.len()],
                anchor: p.sap_anchor[a % p.sap_anchor.len()],
                nf: fill32("sap-nf", i),
                rk: p.sap_rk[i % p.sap_rk.len()],
                proof: fill("sap-spend-proof", i, 192),
                sig: fill64("sap-spend-sig", i),
            });
        }
        for i in 0..sh.outputs {
            s.outputs.push(SOut {
                cv: p.sap_cv[(3 + i) % p.sap_cv.len()],
                cmu: p.sap_cmu[i % p.sap_cmu.len()],
                epk: p.sap_epk[i % p.sap_epk.len()],
                enc: fill("sap-enc", i, 580),
                out: fill("sap-out", i, 80),
                proof: fill("sap-out-proof", i, 192),
            });
        }
        if s.has_sapling_bundle() {
            s.sapling_vb = sh.vb;
            s.sapling_bsig = fill64("sap-bsig", 0);
        }
    }
    if ver.has_orchard() {
        s.orchard = obundle(0, sh.orchard, sh);
    }
    if ver.has_ironwood() {
        s.ironwood = obundle(1, sh.ironwood, sh);
    }
    s
}

/// Every shape of the {0..=max}^k count lattice for the axes `ver` has.
pub fn count_lattice(ver: Ver, max: usize) -> Vec<Shape> {
    let r = |on: bool| if on { (0..=max).collect::<Vec<_>>() } else { vec![0] };
    let mut v = Vec::new();
    for vin in 0..=max {
        for vout in 0..=max {
            for sp in r(ver.has_sapling()) {
                for so in r(ver.has_sapling()) {
                    for or in r(ver.has_orchard()) {
                        for ir in r(ver.has_ironwood()) {
                            v.push(Shape::base(vin, vout, sp, so, or, ir));
                        }
                    }
                }
            }
        }
    }
    v
}

/// Scalar / boundary shapes layered on the all-ones shape: lock_time × expiry, value-balance and
/// output-value boundaries, CompactSize boundaries of counts and script lengths, flag bytes,
/// distinct anchors, free proof lengths (only meaningful where the proof size is not enforced).
pub fn scalar_shapes(ver: Ver, branch: u32, thorough: bool) -> Vec<Shape> {
    let one = Shape::base(1, 1, 1, 1, 1, 1);
    let mut v = Vec::new();
    let u = [0u32, 1, 1 << 31, u32::MAX];
    for l in u {
        for e in u {
            v.push(Shape { lock_time: l, expiry: e, ..one.clone() });
        }
    }
    for vb in [-MAX_MONEY, -MAX_MONEY + 1, -1, 0, 1, MAX_MONEY - 1, MAX_MONEY] {
        v.push(Shape { vb, ..one.clone() });
    }
    for val in [0, 1, MAX_MONEY - 1, MAX_MONEY] {
        v.push(Shape { out_value: val, ..one.clone() });
    }
    let mut lens = vec![0usize, 1, 252, 253, 254];
    if thorough {
        lens.extend([0xffff, 0x1_0000]);
    }
    for l in &lens {
        v.push(Shape { in_script: *l, ..one.clone() });
        v.push(Shape { out_script: *l, ..one.clone() });
    }
    for n in [252usize, 253] {
        v.push(Shape { in_script: 1, ..Shape::base(n, 1, 0, 0, 0, 0) });
        v.push(Shape { out_script: 1, ..Shape::base(1, n, 0, 0, 0, 0) });
    }
    if ver == Ver::V4 {
        v.push(Shape { distinct_anchors: true, ..Shape::base(1, 1, 2, 1, 0, 0) });
    }
    if ver.has_orchard() {
        for f in 0..4u8 {
            v.push(Shape { orchard_flags: f, ..one.clone() });
        }
        // Proof size is documented as not enforced for the historical pre-NU6.2 Orchard pool.
        if ver == Ver::V5 && matches!(branch, 0xc2d6_d0b4 | 0xc8e7_1055 | 0x4dec_4df0) {
            for pl in [0usize, 1, 252, 253] {
                v.push(Shape { proof_len: Some(pl), ..one.clone() });
            }
        }
    }
    if ver.has_ironwood() {
        for f in 0..8u8 {
            v.push(Shape { ironwood_flags: f, ..one.clone() });
        }
    }
    v
}
