//! Block-header codec and the direct CompactSize / Vector / Optional lattice on the repository's
//! `components/zcash_encoding`.

use super::real::{sha256d, Answers, Counting, Scripted};
use super::spec::{compact_size, compact_size_form, MAX_COMPACT};
use mc_core::catch;
use zcash_encoding_local::{CompactSize, Optional, Vector};
use zcash_primitives::block::{BlockHash, BlockHeader, BlockHeaderData};

#[derive(Clone, Debug, PartialEq, Eq)]
pub struct Hdr {
    pub version: i32,
    pub prev: [u8; 32],
    pub merkle: [u8; 32],
    pub sapling_root: [u8; 32],
    pub time: u32,
    pub bits: u32,
    pub nonce: [u8; 32],
    pub solution: Vec<u8>,
}

/// Protocol specification §7.6 "Block Header Encoding".
pub fn ref_write_header(h: &Hdr) -> Vec<u8> {
    let mut v = Vec::new();
    v.extend_from_slice(&h.version.to_le_bytes());
    v.extend_from_slice(&h.prev);
    v.extend_from_slice(&h.merkle);
    v.extend_from_slice(&h.sapling_root);
    v.extend_from_slice(&h.time.to_le_bytes());
    v.extend_from_slice(&h.bits.to_le_bytes());
    v.extend_from_slice(&h.nonce);
    v.extend_from_slice(&compact_size(h.solution.len() as u64));
    v.extend_from_slice(&h.solution);
    v
}

/// Independent parse: Ok((header, consumed, noncanonical)).
pub fn ref_parse_header(b: &[u8]) -> Result<(Hdr, usize, bool), String> {
    if b.len() < 140 {
        return Err("eof".into());
    }
    let a32 = |o: usize| -> [u8; 32] { b[o..o + 32].try_into().unwrap() };
    let mut pos = 140;
    let f = *b.get(pos).ok_or("eof")?;
    pos += 1;
    let (n, min, w) = match f {
        0..=252 => (f as u64, 0u64, 0usize),
        253 => (0, 253, 2),
        254 => (0, 0x1_0000, 4),
        255 => (0, 0x1_0000_0000, 8),
    };
    let n = if w == 0 {
        n
    } else {
        if b.len() < pos + w {
            return Err("eof".into());
        }
        let mut t = [0u8; 8];
        t[..w].copy_from_slice(&b[pos..pos + w]);
        pos += w;
        u64::from_le_bytes(t)
    };
    let nc = n < min;
    if n > MAX_COMPACT {
        return Err("compactsize>max".into());
    }
    if ((b.len() - pos) as u64) < n {
        return Err("eof".into());
    }
    let solution = b[pos..pos + n as usize].to_vec();
    pos += n as usize;
    Ok((
        Hdr {
            version: i32::from_le_bytes(b[0..4].try_into().unwrap()),
            prev: a32(4),
            merkle: a32(36),
            sapling_root: a32(68),
            time: u32::from_le_bytes(b[100..104].try_into().unwrap()),
            bits: u32::from_le_bytes(b[104..108].try_into().unwrap()),
            nonce: a32(108),
            solution,
        },
        pos,
        nc,
    ))
}

fn extract(h: &BlockHeader) -> Hdr {
    Hdr { version: h.version, prev: h.prev_block.0, merkle: h.merkle_root, sapling_root: h.final_sapling_root, time: h.time, bits: h.bits, nonce: h.nonce, solution: h.solution.clone() }
}

fn write(h: &BlockHeader) -> Result<Vec<u8>, String> {
    let mut v = Vec::new();
    catch(|| h.write(&mut v)).map_err(|p| format!("BlockHeader::write panicked: {p}"))?.map_err(|e| format!("BlockHeader::write failed: {e}"))?;
    Ok(v)
}

fn read(b: &[u8]) -> Result<(std::io::Result<BlockHeader>, usize), String> {
    catch(|| {
        let mut r = Counting { b, pos: 0 };
        let res = BlockHeader::read(&mut r);
        (res, r.pos)
    })
    .map_err(|p| format!("BlockHeader::read panicked: {p}"))
}

pub fn check_header_wf(bytes: &[u8]) -> Result<String, String> {
    let (h, used, nc) = ref_parse_header(bytes).map_err(|e| format!("HARNESS: {e}"))?;
    if used != bytes.len() || nc {
        return Err("HARNESS: not a canonical header encoding".into());
    }
    let data = BlockHeaderData {
        version: h.version,
        prev_block: BlockHash(h.prev),
        merkle_root: h.merkle,
        final_sapling_root: h.sapling_root,
        time: h.time,
        bits: h.bits,
        nonce: h.nonce,
        solution: h.solution.clone(),
    };
    let hdr = catch(|| data.freeze()).map_err(|p| format!("freeze panicked: {p}"))?.map_err(|e| format!("freeze failed: {e}"))?;
    let w0 = write(&hdr)?;
    if w0 != bytes {
        return Err("write() differs from the specified header encoding".into());
    }
    if hdr.hash().0 != sha256d(bytes) {
        return Err("hash() of a constructed header != sha256d(write())".into());
    }
    let mut input = bytes.to_vec();
    input.extend_from_slice(&[0xA5; 40]);
    let (res, consumed) = read(&input)?;
    let h1 = res.map_err(|e| format!("read(write(header)) failed: {e}"))?;
    if consumed != bytes.len() {
        return Err(format!("read consumed {consumed} of {} bytes", bytes.len()));
    }
    if extract(&h1) != h {
        return Err("read(write(header)) differs field-wise".into());
    }
    if h1.hash().0 != sha256d(bytes) {
        return Err("hash() of a parsed header != sha256d of its bytes".into());
    }
    if write(&h1)? != bytes {
        return Err("write(read(write(header))) != write(header)".into());
    }
    Ok("hdr-roundtrip".into())
}

pub fn check_header_bytes(b: &[u8]) -> Result<String, String> {
    let (res, consumed) = read(b)?;
    let h = match res {
        Err(e) => return Ok(format!("hdr-reject:{}", e.to_string().chars().take(40).collect::<String>())),
        Ok(h) => h,
    };
    let (rh, used, nc) = ref_parse_header(b).map_err(|e| format!("accepted a header that the specified format rejects ({e})"))?;
    if nc {
        return Err("accepted a non-canonical solution length prefix".into());
    }
    if used != consumed {
        return Err(format!("consumed {consumed} bytes, the specified format ends at {used}"));
    }
    if extract(&h) != rh {
        return Err("parsed header differs from its bytes".into());
    }
    if h.hash().0 != sha256d(&b[..consumed]) {
        return Err("hash() != sha256d of the consumed bytes".into());
    }
    let w = write(&h)?;
    if w != b[..consumed] {
        return Err("accepted header does not re-serialise to the consumed bytes".into());
    }
    let (res2, c2) = read(&w)?;
    let h2 = res2.map_err(|e| format!("re-read failed: {e}"))?;
    if c2 != w.len() || extract(&h2) != rh || h2.hash() != h.hash() {
        return Err("read(write(read(b))) differs from read(b)".into());
    }
    Ok("hdr-accept".into())
}

/// Values on each side of every CompactSize form boundary and of MAX_COMPACT_SIZE.
pub fn compact_values() -> Vec<u64> {
    vec![
        0, 1, 2, 3, 251, 252, 253, 254, 255, 256, 0xfffe, 0xffff, 0x1_0000, 0x1_0001, 0x01ff_ffff, 0x0200_0000, 0x0200_0001, 0x7fff_ffff, 0xffff_fffe,
        0xffff_ffff, 0x1_0000_0000, 0x1_0000_0001, u64::MAX - 1, u64::MAX,
    ]
}

/// One (value, form) cell of the direct CompactSize lattice on `components/zcash_encoding`.
pub fn check_compact(n: u64, form: usize) -> Result<String, String> {
    let enc = match compact_size_form(n, form) {
        Some(e) => e,
        None => return Ok("n/a".into()),
    };
    let canonical = enc == compact_size(n);
    catch(|| -> Result<String, String> {
        let mut input = enc.clone();
        input.extend_from_slice(&[0xA5; 16]);
        let mut r = Counting { b: &input, pos: 0 };
        let got = CompactSize::read(&mut r);
        let pos = r.pos;
        let mut r2 = Counting { b: &input, pos: 0 };
        let got_u = CompactSize::read_unbounded(&mut r2);
        match (&got, canonical && n <= MAX_COMPACT) {
            (Ok(v), true) if *v == n && pos == enc.len() => {}
            (Err(_), false) => {}
            (g, _) => return Err(format!("CompactSize::read({}) -> {:?} (consumed {pos}); canonical={canonical}", hex::encode(&enc), g)),
        }
        match (&got_u, canonical) {
            (Ok(v), true) if *v == n && r2.pos == enc.len() => {}
            (Err(_), false) => {}
            (g, _) => return Err(format!("CompactSize::read_unbounded({}) -> {:?}; canonical={canonical}", hex::encode(&enc), g)),
        }
        // truncations never succeed
        for k in 0..enc.len() {
            if CompactSize::read(&enc[..k]).is_ok() || CompactSize::read_unbounded(&enc[..k]).is_ok() {
                return Err(format!("CompactSize::read accepted the {k}-byte prefix of {}", hex::encode(&enc)));
            }
        }
        if canonical {
            let mut w = Vec::new();
            CompactSize::write_unbounded(&mut w, n).map_err(|e| e.to_string())?;
            if w != enc {
                return Err(format!("write_unbounded({n}) = {}", hex::encode(&w)));
            }
            if let Ok(u) = usize::try_from(n) {
                let mut w = Vec::new();
                let r = CompactSize::write(&mut w, u);
                match (r.is_ok(), n <= MAX_COMPACT) {
                    (true, true) if w == enc => {}
                    (false, false) => {}
                    _ => return Err(format!("CompactSize::write({n}) ok={} bytes={}", r.is_ok(), hex::encode(&w))),
                }
                if CompactSize::serialized_size(u) != enc.len() {
                    return Err(format!("serialized_size({n}) = {}", CompactSize::serialized_size(u)));
                }
            }
            // a byte vector whose length prefix is this encoding, with too few / exactly enough bytes
            if n <= 0x1_0001 {
                let mut v = enc.clone();
                v.extend(std::iter::repeat(7u8).take(n as usize));
                let got: std::io::Result<Vec<u8>> = Vector::read(&v[..], |r| {
                    let mut b = [0u8; 1];
                    std::io::Read::read_exact(r, &mut b).map(|_| b[0])
                });
                if got.as_ref().map(|x| x.len() as u64).ok() != Some(n) {
                    return Err(format!("Vector::read of {n} bytes -> {:?}", got.map(|x| x.len())));
                }
                if n > 0 {
                    let short: std::io::Result<Vec<u8>> = Vector::read(&v[..v.len() - 1], |r| {
                        let mut b = [0u8; 1];
                        std::io::Read::read_exact(r, &mut b).map(|_| b[0])
                    });
                    if short.is_ok() {
                        return Err(format!("Vector::read accepted {} of {n} elements", n - 1));
                    }
                }
                let mut w = Vec::new();
                Vector::write(&mut w, &v[enc.len()..], |w, e| std::io::Write::write_all(w, &[*e])).map_err(|e| e.to_string())?;
                if w != v {
                    return Err(format!("Vector::write of {n} bytes does not reproduce the encoding"));
                }
            }
        }
        Ok(format!("compact:{}", if got.is_ok() { "accept" } else if canonical { "too-large" } else { "noncanonical" }))
    })
    .unwrap_or_else(|p| Err(format!("panic: {p}")))
}

pub fn check_optional(tag: u8) -> Result<String, String> {
    catch(|| {
        let input = [tag, 0x2a];
        let got = Optional::read(&input[..], |mut r| {
            let mut b = [0u8; 1];
            std::io::Read::read_exact(&mut r, &mut b).map(|_| b[0])
        });
        match (tag, &got) {
            (0, Ok(None)) | (1, Ok(Some(0x2a))) => {}
            (t, Err(_)) if t > 1 => {}
            _ => return Err(format!("Optional::read(tag {tag}) -> {:?}", got)),
        }
        if let Ok(v) = got {
            let mut w = Vec::new();
            Optional::write(&mut w, v, |mut w, e| std::io::Write::write_all(&mut w, &[e])).map_err(|e| e.to_string())?;
            if w != input[..w.len()] || w.len() != 1 + tag as usize {
                return Err(format!("Optional::write does not reproduce tag {tag}"));
            }
        }
        Ok(format!("optional:{}", tag.min(2)))
    })
    .unwrap_or_else(|p| Err(format!("panic: {p}")))
}

pub fn check_header_reader(b: &[u8], answers: Answers) -> Result<String, String> {
    let (res0, consumed0) = read(b)?;
    let (res1, consumed1, shorts) = catch(|| {
        let mut r = Scripted::new(b, answers);
        let res = BlockHeader::read(&mut r);
        (res, r.pos, r.short_reads)
    })
    .map_err(|p| format!("BlockHeader::read panicked under reader answers {}: {p}", answers.name()))?;
    let dev = if shorts > 0 { "short" } else { "noshort" };
    match (res0, res1) {
        (Err(_), Err(_)) => Ok(format!("hdr-reader:{dev}:both-reject")),
        (Err(_), Ok(_)) => Err(format!("header rejected from a slice is accepted under reader answers {}", answers.name())),
        (Ok(_), Err(e)) => Err(format!("header parses from a slice but fails under reader answers {} ({e})", answers.name())),
        (Ok(h0), Ok(h1)) => {
            if consumed0 != consumed1 || extract(&h0) != extract(&h1) {
                return Err(format!("header fields or consumed length differ under reader answers {}", answers.name()));
            }
            if h0.hash() != h1.hash() {
                return Err(format!("hash() differs when the same bytes arrive through short reads (reader answers {})", answers.name()));
            }
            if write(&h0)? != write(&h1)? {
                return Err(format!("header re-serialisation differs under reader answers {}", answers.name()));
            }
            Ok(format!("hdr-reader:{dev}:same"))
        }
    }
}
