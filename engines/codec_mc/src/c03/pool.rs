//! A fixed pool of *valid* encodings of group elements and field elements, harvested once from
//! the crates' own proptest strategies run with proptest's deterministic runner. The pool is a
//! value source only: which cases are explored never depends on it. Opaque fields (proofs,
//! signatures, ciphertexts, scripts, hashes) are filled from a SHA-256 counter stream.

use ff::PrimeField;
use proptest::strategy::{Strategy, ValueTree};
use proptest::test_runner::TestRunner;
use sha2::{Digest, Sha256};
use std::sync::OnceLock;

pub struct Pool {
    pub sap_cv: Vec<[u8; 32]>,
    pub sap_rk: Vec<[u8; 32]>,
    pub sap_cmu: Vec<[u8; 32]>,
    pub sap_epk: Vec<[u8; 32]>,
    pub sap_anchor: Vec<[u8; 32]>,
    pub orch_cv: Vec<[u8; 32]>,
    pub orch_nf: Vec<[u8; 32]>,
    pub orch_rk: Vec<[u8; 32]>,
    pub orch_cmx: Vec<[u8; 32]>,
    pub orch_epk: Vec<[u8; 32]>,
    pub orch_anchor: Vec<[u8; 32]>,
}

/// Deterministic filler: `len` bytes determined by (`tag`, `idx`).
pub fn fill(tag: &str, idx: usize, len: usize) -> Vec<u8> {
    let mut out = Vec::with_capacity(len + 32);
    let mut ctr = 0u32;
    while out.len() < len {
        let mut h = Sha256::new();
        h.update(tag.as_bytes());
        h.update((idx as u64).to_le_bytes());
        h.update(ctr.to_le_bytes());
        out.extend_from_slice(&h.finalize());
        ctr += 1;
    }
    out.truncate(len);
    out
}

pub fn fill32(tag: &str, idx: usize) -> [u8; 32] {
    fill(tag, idx, 32).try_into().unwrap()
}

pub fn fill64(tag: &str, idx: usize) -> [u8; 64] {
    fill(tag, idx, 64).try_into().unwrap()
}

pub const POOL_MIN: usize = 6;

fn push_unique(v: &mut Vec<[u8; 32]>, x: [u8; 32]) {
    if !v.contains(&x) {
        v.push(x);
    }
}

fn build() -> Pool {
    let mut runner = TestRunner::deterministic();
    let mut p = Pool {
        sap_cv: vec![],
        sap_rk: vec![],
        sap_cmu: vec![],
        sap_epk: vec![],
        sap_anchor: vec![],
        orch_cv: vec![],
        orch_nf: vec![],
        orch_rk: vec![],
        orch_cmx: vec![],
        orch_epk: vec![],
        orch_anchor: vec![],
    };
    let mut rounds = 0;
    while (p.sap_rk.len() < POOL_MIN || p.sap_cmu.len() < POOL_MIN) && rounds < 64 {
        rounds += 1;
        let tree = sapling::bundle::testing::arb_bundle(0i64).new_tree(&mut runner).expect("sapling strategy");
        if let Some(b) = tree.current() {
            for s in b.shielded_spends() {
                push_unique(&mut p.sap_cv, s.cv().to_bytes());
                push_unique(&mut p.sap_rk, <[u8; 32]>::from(*s.rk()));
                push_unique(&mut p.sap_anchor, s.anchor().to_repr());
            }
            for o in b.shielded_outputs() {
                push_unique(&mut p.sap_cv, o.cv().to_bytes());
                push_unique(&mut p.sap_cmu, o.cmu().to_bytes());
                push_unique(&mut p.sap_epk, o.ephemeral_key().0);
            }
        }
    }
    // Field-element boundary values that are canonical: 0 and 1.
    let mut one = [0u8; 32];
    one[0] = 1;
    push_unique(&mut p.sap_anchor, [0u8; 32]);
    push_unique(&mut p.sap_anchor, one);
    rounds = 0;
    while (p.orch_rk.len() < POOL_MIN || p.orch_anchor.len() < 4) && rounds < 16 {
        rounds += 1;
        let tree = orchard::bundle::testing::arb_bundle(2).new_tree(&mut runner).expect("orchard strategy");
        let b = tree.current();
        for a in b.actions().iter() {
            push_unique(&mut p.orch_cv, a.cv_net().to_bytes());
            push_unique(&mut p.orch_nf, a.nullifier().to_bytes());
            push_unique(&mut p.orch_rk, <[u8; 32]>::from(a.rk()));
            push_unique(&mut p.orch_cmx, a.cmx().to_bytes());
            push_unique(&mut p.orch_epk, a.encrypted_note().epk_bytes);
        }
        push_unique(&mut p.orch_anchor, b.anchor().to_bytes());
    }
    push_unique(&mut p.orch_anchor, [0u8; 32]);
    push_unique(&mut p.orch_anchor, one);
    for v in [
        &mut p.sap_cv, &mut p.sap_rk, &mut p.sap_cmu, &mut p.sap_epk, &mut p.sap_anchor, &mut p.orch_cv, &mut p.orch_nf,
        &mut p.orch_rk, &mut p.orch_cmx, &mut p.orch_epk, &mut p.orch_anchor,
    ] {
        v.truncate(12);
    }
    p
}

pub fn pool() -> &'static Pool {
    static P: OnceLock<Pool> = OnceLock::new();
    P.get_or_init(build)
}

impl Pool {
    pub fn min_len(&self) -> usize {
        [
            &self.sap_cv, &self.sap_rk, &self.sap_cmu, &self.sap_epk, &self.sap_anchor, &self.orch_cv, &self.orch_nf, &self.orch_rk,
            &self.orch_cmx, &self.orch_epk, &self.orch_anchor,
        ]
        .iter()
        .map(|v| v.len())
        .min()
        .unwrap_or(0)
    }
}
