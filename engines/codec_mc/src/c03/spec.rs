//! Plain-data description of a transaction (`TxSpec`), an independent wire *writer* that also
//! records the layout (which field lives at which byte span) and an independent wire *parser*.
//!
//! Both are written from the protocol specification §7.1 "Transaction Encoding", ZIP 202/203
//! (v3), ZIP 243 (v4 field order), ZIP 225 (v5) and the v6 layout of this fork (v5 header, then
//! transparent, Sapling, Orchard, Ironwood — the last two with the ZIP 225 Orchard grammar), on
//! plain byte slices. Nothing in here calls the repository's codecs. Group elements are opaque
//! 32-byte strings here: the reference parser accepts a superset of what the real one accepts.

pub const MAX_MONEY: i64 = 21_000_000 * 100_000_000;
pub const MAX_COMPACT: u64 = 0x0200_0000;

pub const V3_GID: u32 = 0x03C4_8270;
pub const V4_GID: u32 = 0x892F_2085;
pub const V5_GID: u32 = 0x26A7_270A;
pub const V6_GID: u32 = 0xD884_B698;

/// Every consensus branch id known to this tree (name, wire value), in activation order.
pub const BRANCHES: [(&str, u32); 11] = [
    ("Sprout", 0),
    ("Overwinter", 0x5ba8_1b19),
    ("Sapling", 0x76b8_09bb),
    ("Blossom", 0x2bb4_0e60),
    ("Heartwood", 0xf5b9_230b),
    ("Canopy", 0xe9ff_75a6),
    ("Nu5", 0xc2d6_d0b4),
    ("Nu6", 0xc8e7_1055),
    ("Nu6_1", 0x4dec_4df0),
    ("Nu6_2", 0x5437_f330),
    ("Nu6_3", 0x37a5_165b),
];

pub fn branch_known(b: u32) -> bool {
    BRANCHES.iter().any(|(_, v)| *v == b)
}

#[derive(Clone, Copy, Debug, PartialEq, Eq, Hash, PartialOrd, Ord)]
pub enum Ver {
    Sprout(u32),
    V3,
    V4,
    V5,
    V6,
}

impl Ver {
    pub fn header(self) -> u32 {
        match self {
            Ver::Sprout(v) => v,
            Ver::V3 => 0x8000_0003,
            Ver::V4 => 0x8000_0004,
            Ver::V5 => 0x8000_0005,
            Ver::V6 => 0x8000_0006,
        }
    }
    pub fn gid(self) -> u32 {
        match self {
            Ver::Sprout(_) => 0,
            Ver::V3 => V3_GID,
            Ver::V4 => V4_GID,
            Ver::V5 => V5_GID,
            Ver::V6 => V6_GID,
        }
    }
    pub fn from_header(header: u32, gid: u32) -> Option<Ver> {
        if header >> 31 == 1 {
            match (header & 0x7fff_ffff, gid) {
                (3, V3_GID) => Some(Ver::V3),
                (4, V4_GID) => Some(Ver::V4),
                (5, V5_GID) => Some(Ver::V5),
                (6, V6_GID) => Some(Ver::V6),
                _ => None,
            }
        } else if header >= 1 {
            Some(Ver::Sprout(header))
        } else {
            None
        }
    }
    pub fn overwintered(self) -> bool {
        !matches!(self, Ver::Sprout(_))
    }
    pub fn has_sprout(self) -> bool {
        match self {
            Ver::Sprout(v) => v >= 2,
            Ver::V3 | Ver::V4 => true,
            _ => false,
        }
    }
    pub fn has_sapling(self) -> bool {
        matches!(self, Ver::V4 | Ver::V5 | Ver::V6)
    }
    pub fn has_orchard(self) -> bool {
        matches!(self, Ver::V5 | Ver::V6)
    }
    pub fn has_ironwood(self) -> bool {
        matches!(self, Ver::V6)
    }
    pub fn is_v5plus(self) -> bool {
        matches!(self, Ver::V5 | Ver::V6)
    }
    pub fn name(self) -> String {
        match self {
            Ver::Sprout(v) => format!("v{v}"),
            Ver::V3 => "v3".into(),
            Ver::V4 => "v4".into(),
            Ver::V5 => "v5".into(),
            Ver::V6 => "v6".into(),
        }
    }
}

#[derive(Clone, Debug, PartialEq, Eq)]
pub struct TIn {
    pub prev_hash: [u8; 32],
    pub prev_n: u32,
    pub script_sig: Vec<u8>,
    pub sequence: u32,
}

#[derive(Clone, Debug, PartialEq, Eq)]
pub struct TOut {
    pub value: i64,
    pub script: Vec<u8>,
}

#[derive(Clone, Debug, PartialEq, Eq)]
pub struct SSpend {
    pub cv: [u8; 32],
    pub anchor: [u8; 32],
    pub nf: [u8; 32],
    pub rk: [u8; 32],
    pub proof: Vec<u8>, // 192
    pub sig: [u8; 64],
}

#[derive(Clone, Debug, PartialEq, Eq)]
pub struct SOut {
    pub cv: [u8; 32],
    pub cmu: [u8; 32],
    pub epk: [u8; 32],
    pub enc: Vec<u8>,   // 580
    pub out: Vec<u8>,   // 80
    pub proof: Vec<u8>, // 192
}

#[derive(Clone, Debug, PartialEq, Eq)]
pub struct OAction {
    pub cv: [u8; 32],
    pub nf: [u8; 32],
    pub rk: [u8; 32],
    pub cmx: [u8; 32],
    pub epk: [u8; 32],
    pub enc: Vec<u8>, // 580
    pub out: Vec<u8>, // 80
    pub sig: [u8; 64],
}

#[derive(Clone, Debug, PartialEq, Eq)]
pub struct OBundle {
    pub actions: Vec<OAction>,
    pub flags: u8,
    pub vb: i64,
    pub anchor: [u8; 32],
    pub proof: Vec<u8>,
    pub bsig: [u8; 64],
}

#[derive(Clone, Debug, PartialEq, Eq)]
pub struct JoinSplits {
    pub descs: Vec<Vec<u8>>, // each 1802 (PHGR13, v2/v3) or 1698 (Groth16, v4) bytes
    pub pubkey: [u8; 32],
    pub sig: [u8; 64],
}

#[derive(Clone, Debug, PartialEq, Eq)]
pub struct TxSpec {
    pub ver: Ver,
    /// v5+: the on-wire nConsensusBranchId. Earlier versions: the branch supplied by the caller
    /// (it is not part of the encoding).
    pub branch: u32,
    pub lock_time: u32,
    pub expiry: u32,
    pub vin: Vec<TIn>,
    pub vout: Vec<TOut>,
    pub sapling_vb: i64,
    pub spends: Vec<SSpend>,
    pub outputs: Vec<SOut>,
    /// Meaningful iff there is at least one spend or output.
    pub sapling_bsig: [u8; 64],
    pub joinsplits: Option<JoinSplits>,
    pub orchard: Option<OBundle>,
    pub ironwood: Option<OBundle>,
}

impl TxSpec {
    pub fn empty(ver: Ver, branch: u32) -> TxSpec {
        TxSpec {
            ver,
            branch,
            lock_time: 0,
            expiry: 0,
            vin: vec![],
            vout: vec![],
            sapling_vb: 0,
            spends: vec![],
            outputs: vec![],
            sapling_bsig: [0; 64],
            joinsplits: None,
            orchard: None,
            ironwood: None,
        }
    }
    pub fn has_sapling_bundle(&self) -> bool {
        !(self.spends.is_empty() && self.outputs.is_empty())
    }
}

/// Field positions. `pool`: 0 = Orchard slot, 1 = Ironwood slot.
#[derive(Clone, Copy, Debug, PartialEq, Eq, Hash, PartialOrd, Ord)]
pub enum F {
    Header,
    GroupId,
    Branch,
    LockTime,
    Expiry,
    VinCount,
    VoutCount,
    InHash(usize),
    InIndex(usize),
    InScriptLen(usize),
    InScript(usize),
    InSeq(usize),
    OutValue(usize),
    OutScriptLen(usize),
    OutScript(usize),
    SapVb,
    SapSpendCount,
    SapOutCount,
    SpCv(usize),
    /// v4: per spend. v5/v6: the single shared anchor is `SpAnchor(0)`.
    SpAnchor(usize),
    SpNf(usize),
    SpRk(usize),
    SpProof(usize),
    SpSig(usize),
    SoCv(usize),
    SoCmu(usize),
    SoEpk(usize),
    SoEnc(usize),
    SoOut(usize),
    SoProof(usize),
    SapBsig,
    JsCount,
    Js(usize),
    JsPubkey,
    JsSig,
    OCount(u8),
    OCv(u8, usize),
    ONf(u8, usize),
    ORk(u8, usize),
    OCmx(u8, usize),
    OEpk(u8, usize),
    OEnc(u8, usize),
    OOut(u8, usize),
    OFlags(u8),
    OVb(u8),
    OAnchor(u8),
    OProofLen(u8),
    OProof(u8),
    OSig(u8, usize),
    OBsig(u8),
}

#[derive(Clone, Copy, Debug, PartialEq, Eq)]
pub struct Span {
    pub f: F,
    pub off: usize,
    pub len: usize,
}

pub struct W {
    pub buf: Vec<u8>,
    pub spans: Vec<Span>,
}

impl W {
    fn put(&mut self, f: F, b: &[u8]) {
        self.spans.push(Span { f, off: self.buf.len(), len: b.len() });
        self.buf.extend_from_slice(b);
    }
    fn compact(&mut self, f: F, n: u64) {
        let e = compact_size(n);
        self.put(f, &e);
    }
}

/// Canonical CompactSize encoding.
pub fn compact_size(n: u64) -> Vec<u8> {
    if n < 253 {
        vec![n as u8]
    } else if n <= 0xffff {
        let mut v = vec![253];
        v.extend_from_slice(&(n as u16).to_le_bytes());
        v
    } else if n <= 0xffff_ffff {
        let mut v = vec![254];
        v.extend_from_slice(&(n as u32).to_le_bytes());
        v
    } else {
        let mut v = vec![255];
        v.extend_from_slice(&n.to_le_bytes());
        v
    }
}

/// A CompactSize encoding of `n` in the given form (1, 3, 5 or 9 bytes), canonical or not.
/// `None` if `n` does not fit the form.
pub fn compact_size_form(n: u64, form: usize) -> Option<Vec<u8>> {
    match form {
        1 if n < 253 => Some(vec![n as u8]),
        3 if n <= 0xffff => {
            let mut v = vec![253];
            v.extend_from_slice(&(n as u16).to_le_bytes());
            Some(v)
        }
        5 if n <= 0xffff_ffff => {
            let mut v = vec![254];
            v.extend_from_slice(&(n as u32).to_le_bytes());
            Some(v)
        }
        9 => {
            let mut v = vec![255];
            v.extend_from_slice(&n.to_le_bytes());
            Some(v)
        }
        _ => None,
    }
}

fn write_transparent(w: &mut W, s: &TxSpec) {
    w.compact(F::VinCount, s.vin.len() as u64);
    for (i, t) in s.vin.iter().enumerate() {
        w.put(F::InHash(i), &t.prev_hash);
        w.put(F::InIndex(i), &t.prev_n.to_le_bytes());
        w.compact(F::InScriptLen(i), t.script_sig.len() as u64);
        w.put(F::InScript(i), &t.script_sig);
        w.put(F::InSeq(i), &t.sequence.to_le_bytes());
    }
    w.compact(F::VoutCount, s.vout.len() as u64);
    for (k, t) in s.vout.iter().enumerate() {
        w.put(F::OutValue(k), &t.value.to_le_bytes());
        w.compact(F::OutScriptLen(k), t.script.len() as u64);
        w.put(F::OutScript(k), &t.script);
    }
}

fn write_joinsplits(w: &mut W, s: &TxSpec) {
    match &s.joinsplits {
        Some(js) if !js.descs.is_empty() => {
            w.compact(F::JsCount, js.descs.len() as u64);
            for (i, d) in js.descs.iter().enumerate() {
                w.put(F::Js(i), d);
            }
            w.put(F::JsPubkey, &js.pubkey);
            w.put(F::JsSig, &js.sig);
        }
        _ => w.compact(F::JsCount, 0),
    }
}

fn write_sapling_v5(w: &mut W, s: &TxSpec) {
    w.compact(F::SapSpendCount, s.spends.len() as u64);
    for (i, sp) in s.spends.iter().enumerate() {
        w.put(F::SpCv(i), &sp.cv);
        w.put(F::SpNf(i), &sp.nf);
        w.put(F::SpRk(i), &sp.rk);
    }
    w.compact(F::SapOutCount, s.outputs.len() as u64);
    for (i, o) in s.outputs.iter().enumerate() {
        w.put(F::SoCv(i), &o.cv);
        w.put(F::SoCmu(i), &o.cmu);
        w.put(F::SoEpk(i), &o.epk);
        w.put(F::SoEnc(i), &o.enc);
        w.put(F::SoOut(i), &o.out);
    }
    if s.has_sapling_bundle() {
        w.put(F::SapVb, &s.sapling_vb.to_le_bytes());
    }
    if !s.spends.is_empty() {
        w.put(F::SpAnchor(0), &s.spends[0].anchor);
    }
    for (i, sp) in s.spends.iter().enumerate() {
        w.put(F::SpProof(i), &sp.proof);
    }
    for (i, sp) in s.spends.iter().enumerate() {
        w.put(F::SpSig(i), &sp.sig);
    }
    for (i, o) in s.outputs.iter().enumerate() {
        w.put(F::SoProof(i), &o.proof);
    }
    if s.has_sapling_bundle() {
        w.put(F::SapBsig, &s.sapling_bsig);
    }
}

fn write_orchard(w: &mut W, pool: u8, b: Option<&OBundle>) {
    match b {
        Some(b) if !b.actions.is_empty() => {
            w.compact(F::OCount(pool), b.actions.len() as u64);
            for (i, a) in b.actions.iter().enumerate() {
                w.put(F::OCv(pool, i), &a.cv);
                w.put(F::ONf(pool, i), &a.nf);
                w.put(F::ORk(pool, i), &a.rk);
                w.put(F::OCmx(pool, i), &a.cmx);
                w.put(F::OEpk(pool, i), &a.epk);
                w.put(F::OEnc(pool, i), &a.enc);
                w.put(F::OOut(pool, i), &a.out);
            }
            w.put(F::OFlags(pool), &[b.flags]);
            w.put(F::OVb(pool), &b.vb.to_le_bytes());
            w.put(F::OAnchor(pool), &b.anchor);
            w.compact(F::OProofLen(pool), b.proof.len() as u64);
            w.put(F::OProof(pool), &b.proof);
            for (i, a) in b.actions.iter().enumerate() {
                w.put(F::OSig(pool, i), &a.sig);
            }
            w.put(F::OBsig(pool), &b.bsig);
        }
        _ => w.compact(F::OCount(pool), 0),
    }
}

/// Serialise `s` in the format of its version. Returns the bytes and the layout.
pub fn ref_write(s: &TxSpec) -> W {
    let mut w = W { buf: Vec::new(), spans: Vec::new() };
    w.put(F::Header, &s.ver.header().to_le_bytes());
    if s.ver.overwintered() {
        w.put(F::GroupId, &s.ver.gid().to_le_bytes());
    }
    if s.ver.is_v5plus() {
        w.put(F::Branch, &s.branch.to_le_bytes());
        w.put(F::LockTime, &s.lock_time.to_le_bytes());
        w.put(F::Expiry, &s.expiry.to_le_bytes());
        write_transparent(&mut w, s);
        write_sapling_v5(&mut w, s);
        write_orchard(&mut w, 0, s.orchard.as_ref());
        if s.ver.has_ironwood() {
            write_orchard(&mut w, 1, s.ironwood.as_ref());
        }
        return w;
    }
    write_transparent(&mut w, s);
    w.put(F::LockTime, &s.lock_time.to_le_bytes());
    if s.ver.overwintered() {
        w.put(F::Expiry, &s.expiry.to_le_bytes());
    }
    if s.ver.has_sapling() {
        w.put(F::SapVb, &s.sapling_vb.to_le_bytes());
        w.compact(F::SapSpendCount, s.spends.len() as u64);
        for (i, sp) in s.spends.iter().enumerate() {
            w.put(F::SpCv(i), &sp.cv);
            w.put(F::SpAnchor(i), &sp.anchor);
            w.put(F::SpNf(i), &sp.nf);
            w.put(F::SpRk(i), &sp.rk);
            w.put(F::SpProof(i), &sp.proof);
            w.put(F::SpSig(i), &sp.sig);
        }
        w.compact(F::SapOutCount, s.outputs.len() as u64);
        for (i, o) in s.outputs.iter().enumerate() {
            w.put(F::SoCv(i), &o.cv);
            w.put(F::SoCmu(i), &o.cmu);
            w.put(F::SoEpk(i), &o.epk);
            w.put(F::SoEnc(i), &o.enc);
            w.put(F::SoOut(i), &o.out);
            w.put(F::SoProof(i), &o.proof);
        }
    }
    if s.ver.has_sprout() {
        write_joinsplits(&mut w, s);
    }
    if s.ver.has_sapling() && s.has_sapling_bundle() {
        w.put(F::SapBsig, &s.sapling_bsig);
    }
    w
}

// ---------------------------------------------------------------------------------------------
// Independent parser
// ---------------------------------------------------------------------------------------------

#[derive(Clone, Debug)]
pub struct Parsed {
    pub spec: TxSpec,
    pub consumed: usize,
    /// Some length prefix was not in its shortest form.
    pub noncanonical: bool,
    /// Some amount field was outside its valid range.
    pub amount_out_of_range: bool,
    /// A non-zero Sapling valueBalance in a v4 transaction without Sapling spends or outputs
    /// (consensus: MUST be zero; the value is not representable after parsing).
    pub orphan_value_balance: bool,
}

struct R<'a> {
    b: &'a [u8],
    pos: usize,
    noncanonical: bool,
    oor: bool,
}

impl<'a> R<'a> {
    fn take(&mut self, n: usize) -> Result<&'a [u8], String> {
        if self.b.len() - self.pos < n {
            return Err("eof".into());
        }
        let s = &self.b[self.pos..self.pos + n];
        self.pos += n;
        Ok(s)
    }
    fn a32(&mut self) -> Result<[u8; 32], String> {
        Ok(self.take(32)?.try_into().unwrap())
    }
    fn a64(&mut self) -> Result<[u8; 64], String> {
        Ok(self.take(64)?.try_into().unwrap())
    }
    fn u32(&mut self) -> Result<u32, String> {
        Ok(u32::from_le_bytes(self.take(4)?.try_into().unwrap()))
    }
    fn i64(&mut self) -> Result<i64, String> {
        Ok(i64::from_le_bytes(self.take(8)?.try_into().unwrap()))
    }
    fn vec(&mut self, n: usize) -> Result<Vec<u8>, String> {
        Ok(self.take(n)?.to_vec())
    }
    fn compact(&mut self) -> Result<u64, String> {
        let f = self.take(1)?[0];
        let (v, min) = match f {
            0..=252 => (f as u64, 0u64),
            253 => (u16::from_le_bytes(self.take(2)?.try_into().unwrap()) as u64, 253),
            254 => (u32::from_le_bytes(self.take(4)?.try_into().unwrap()) as u64, 0x1_0000),
            255 => (u64::from_le_bytes(self.take(8)?.try_into().unwrap()), 0x1_0000_0000),
        };
        if v < min {
            self.noncanonical = true;
        }
        if v > MAX_COMPACT {
            return Err("compactsize>max".into());
        }
        Ok(v)
    }
    fn balance(&mut self) -> Result<i64, String> {
        let v = self.i64()?;
        if !(-MAX_MONEY..=MAX_MONEY).contains(&v) {
            self.oor = true;
        }
        Ok(v)
    }
    fn nonneg(&mut self) -> Result<i64, String> {
        let v = self.i64()?;
        if !(0..=MAX_MONEY).contains(&v) {
            self.oor = true;
        }
        Ok(v)
    }
}

fn parse_transparent(r: &mut R, s: &mut TxSpec) -> Result<(), String> {
    let n = r.compact()?;
    for _ in 0..n {
        let prev_hash = r.a32()?;
        let prev_n = r.u32()?;
        let l = r.compact()? as usize;
        let script_sig = r.vec(l)?;
        let sequence = r.u32()?;
        s.vin.push(TIn { prev_hash, prev_n, script_sig, sequence });
    }
    let n = r.compact()?;
    for _ in 0..n {
        let value = r.nonneg()?;
        let l = r.compact()? as usize;
        let script = r.vec(l)?;
        s.vout.push(TOut { value, script });
    }
    Ok(())
}

fn parse_orchard(r: &mut R, ironwood_slot: bool) -> Result<Option<OBundle>, String> {
    let n = r.compact()?;
    if n == 0 {
        return Ok(None);
    }
    let mut actions = Vec::new();
    for _ in 0..n {
        let cv = r.a32()?;
        let nf = r.a32()?;
        let rk = r.a32()?;
        let cmx = r.a32()?;
        let epk = r.a32()?;
        let enc = r.vec(580)?;
        let out = r.vec(80)?;
        actions.push(OAction { cv, nf, rk, cmx, epk, enc, out, sig: [0; 64] });
    }
    let flags = r.take(1)?[0];
    // Bits 3..7 are reserved; bit 2 (enableCrossAddress) exists only for the Ironwood pool.
    if flags & 0b1111_1000 != 0 || (flags & 0b100 != 0 && !ironwood_slot) {
        return Err("flags".into());
    }
    let vb = r.balance()?;
    let anchor = r.a32()?;
    let pl = r.compact()? as usize;
    let proof = r.vec(pl)?;
    for a in actions.iter_mut() {
        a.sig = r.a64()?;
    }
    let bsig = r.a64()?;
    Ok(Some(OBundle { actions, flags, vb, anchor, proof, bsig }))
}

/// Parse one transaction from the front of `b`. `ext_branch` is recorded as the branch of
/// pre-v5 transactions (which do not encode it).
pub fn ref_parse(b: &[u8], ext_branch: u32) -> Result<Parsed, String> {
    let mut r = R { b, pos: 0, noncanonical: false, oor: false };
    let header = r.u32()?;
    let gid = if header >> 31 == 1 { r.u32()? } else { 0 };
    let ver = Ver::from_header(header, gid).ok_or_else(|| "version".to_string())?;
    let mut s = TxSpec::empty(ver, ext_branch);
    let mut orphan_vb = false;
    if ver.is_v5plus() {
        s.branch = r.u32()?;
        if !branch_known(s.branch) {
            return Err("branch".into());
        }
        s.lock_time = r.u32()?;
        s.expiry = r.u32()?;
        parse_transparent(&mut r, &mut s)?;
        let ns = r.compact()?;
        for _ in 0..ns {
            let cv = r.a32()?;
            let nf = r.a32()?;
            let rk = r.a32()?;
            s.spends.push(SSpend { cv, anchor: [0; 32], nf, rk, proof: vec![], sig: [0; 64] });
        }
        let no = r.compact()?;
        for _ in 0..no {
            let cv = r.a32()?;
            let cmu = r.a32()?;
            let epk = r.a32()?;
            let enc = r.vec(580)?;
            let out = r.vec(80)?;
            s.outputs.push(SOut { cv, cmu, epk, enc, out, proof: vec![] });
        }
        if ns + no > 0 {
            s.sapling_vb = r.balance()?;
        }
        if ns > 0 {
            let anchor = r.a32()?;
            for sp in s.spends.iter_mut() {
                sp.anchor = anchor;
            }
        }
        for sp in s.spends.iter_mut() {
            sp.proof = r.vec(192)?;
        }
        for sp in s.spends.iter_mut() {
            sp.sig = r.a64()?;
        }
        for o in s.outputs.iter_mut() {
            o.proof = r.vec(192)?;
        }
        if ns + no > 0 {
            s.sapling_bsig = r.a64()?;
        }
        s.orchard = parse_orchard(&mut r, false)?;
        if ver.has_ironwood() {
            s.ironwood = parse_orchard(&mut r, true)?;
        }
    } else {
        parse_transparent(&mut r, &mut s)?;
        s.lock_time = r.u32()?;
        if ver.overwintered() {
            s.expiry = r.u32()?;
        }
        if ver.has_sapling() {
            s.sapling_vb = r.balance()?;
            let ns = r.compact()?;
            for _ in 0..ns {
                let cv = r.a32()?;
                let anchor = r.a32()?;
                let nf = r.a32()?;
                let rk = r.a32()?;
                let proof = r.vec(192)?;
                let sig = r.a64()?;
                s.spends.push(SSpend { cv, anchor, nf, rk, proof, sig });
            }
            let no = r.compact()?;
            for _ in 0..no {
                let cv = r.a32()?;
                let cmu = r.a32()?;
                let epk = r.a32()?;
                let enc = r.vec(580)?;
                let out = r.vec(80)?;
                let proof = r.vec(192)?;
                s.outputs.push(SOut { cv, cmu, epk, enc, out, proof });
            }
            if ns + no == 0 && s.sapling_vb != 0 {
                orphan_vb = true;
            }
        }
        if ver.has_sprout() {
            let nj = r.compact()?;
            if nj > 0 {
                let size = if ver.has_sapling() { 1698 } else { 1802 };
                let mut descs = Vec::new();
                for _ in 0..nj {
                    let d = r.vec(size)?;
                    for off in [0usize, 8] {
                        let v = u64::from_le_bytes(d[off..off + 8].try_into().unwrap());
                        if v > MAX_MONEY as u64 {
                            r.oor = true;
                        }
                    }
                    descs.push(d);
                }
                let pubkey = r.a32()?;
                let sig = r.a64()?;
                s.joinsplits = Some(JoinSplits { descs, pubkey, sig });
            }
        }
        if ver.has_sapling() && s.has_sapling_bundle() {
            s.sapling_bsig = r.a64()?;
        }
    }
    Ok(Parsed { spec: s, consumed: r.pos, noncanonical: r.noncanonical, amount_out_of_range: r.oor, orphan_value_balance: orphan_vb })
}
